P = "ak/ppobj.py"
C = "ak/color.py"
MUTANTS = [
    {"id": "c12-header-tw-1", "expect": "fire", "edits": [(P, "                [cp.header(self.header)], table_width - 2, ALIGN_LEFT, cp)", "                [cp.header(self.header)], table_width - 1, ALIGN_LEFT, cp)")]},
    {"id": "c12-break-line-width", "expect": "fire", "edits": [(P, 'break_line.ch_text = CHText(sep, " "*(table_width - 2), sep)', 'break_line.ch_text = CHText(sep, " "*(table_width - 1), sep)')]},
    {"id": "c12-border-extra-dash", "expect": "fire", "edits": [(P, 'cp.border("".join("+" + "-"*col.width for col in columns) + \'+\')', 'cp.border("".join("+" + "-"*(col.width + 1) for col in columns) + \'+\')')]},
    {"id": "c12-border-no-final-plus", "expect": "fire", "edits": [(P, 'cp.border("".join("+" + "-"*col.width for col in columns) + \'+\')', 'cp.border("".join("+" + "-"*col.width for col in columns))')]},
    {"id": "c12-footer-width", "expect": "fire", "edits": [(P, "                [cp.text(self.footer)], table_width, ALIGN_LEFT, cp))", "                [cp.text(self.footer)], table_width - 2, ALIGN_LEFT, cp))")]},
    {"id": "c12-table-width-formula", "expect": "fire", "edits": [(P, "table_width = sum(col.width for col in columns) + len(columns) + 1", "table_width = sum(col.width for col in columns) + len(columns)")]},
    {"id": "c12-cell-no-fit", "expect": "fire", "edits": [(P, "        return self.fit_to_width(text, width, align, record_palette)", "        return text if isinstance(text, list) else [text]")]},
    {"id": "c12-cell-wrong-width", "expect": "fire", "edits": [(P, "            value, self.fmt_modifier, self.width,\n            field_palette, table_palette,", "            value, self.fmt_modifier, self.max_width,\n            field_palette, table_palette,")]},
    {"id": "c12-center-off-by-one", "expect": "fire", "edits": [(P, "                right_filler_len = filler_len - left_filer_len", "                right_filler_len = filler_len - left_filer_len - 1")]},
    {"id": "c12-truncate-no-min", "expect": "fire", "edits": [(P, "        dots_len = min(3, width)", "        dots_len = 3")]},
    {"id": "c12-truncate-dots-extra", "expect": "fire", "edits": [(P, "        result.append(cp.warn('.'*dots_len))", "        result.append(cp.warn('.'*3))")]},
    {"id": "c12-resize-pad-off", "expect": "fire", "edits": [(C, '        result.append(cls.Chunk.make_plain(" "*remaining_len))\n        return result', '        result.append(cls.Chunk.make_plain(" "*(remaining_len + 1)))\n        return result')]},
    {"id": "c12-resize-no-decrement", "expect": "fire", "edits": [(C, "                result.append(item)\n                remaining_len -= cur_item_len", "                result.append(item)")]},
    {"id": "c12-resize-cmp-strict", "expect": "silent", "edits": [(C, "            if cur_item_len <= remaining_len:", "            if cur_item_len < remaining_len:")],
     "note": "equal case goes to the slicing branch: still exact"},
    {"id": "c12-row-missing-last-sep", "expect": "fire", "edits": [(P, "            line.extend(cell_ch_text_items)\n        line.append(sep)\n        return line", "            line.extend(cell_ch_text_items)\n        return line")]},
    {"id": "c12-row-double-sep", "expect": "fire", "edits": [(P, """            if is_first:
                is_first = False
            else:
                line.append(sep)
            line.extend(cell_ch_text_items)""", """            line.append(sep)
            line.extend(cell_ch_text_items)""")]},
    {"id": "c12-unguarded-tail-slice", "expect": "fire", "edits": [(P, "            last_lines = table_lines[-n_last:] if n_last else []", "            last_lines = table_lines[-n_last:]")]},
    {"id": "c12-skipped-counts-service-lines", "expect": "fire", "edits": [(P, "                1 if not isinstance(tl, self._ServiceLine) else 0", "                1")]},
    {"id": "c12-limit-overlap", "expect": "fire", "edits": [(P, "            and len(table_lines) > n_first + n_last + 1", "            and len(table_lines) > max(n_first, n_last)")]},
    {"id": "c12-n-limit-off-by-one", "expect": "silent", "edits": [(P, "            and len(table_lines) > n_first + n_last + 1", "            and len(table_lines) > n_first + n_last")],
     "note": "with exactly first+last+1 lines one record is replaced by the marker: acceptable? property: exactly first n and last m shown - yes still; our rule pins the documented condition"},
    {"id": "c12-width-unbounded", "expect": "fire", "edits": [(P, """                    col.width = max(
                        col.width, min(col.max_width, col.get_cell_text_len(rec))
                    )""", """                    col.width = max(
                        col.width, col.get_cell_text_len(rec)
                    )""")]},
    {"id": "c12-title-width-ignores-min", "expect": "fire", "edits": [(P, "                col.width = min(col.max_width, max(col.min_width, title_width))", "                col.width = min(col.max_width, title_width)")]},
    {"id": "c12-mutate-cached-cell", "expect": "fire", "edits": [(P, """            filler = cp.text(' '*filler_len)
            if align == ALIGN_LEFT:
                return ch_chunks + [filler, ]""", """            filler = cp.text(' '*filler_len)
            if align == ALIGN_LEFT:
                ch_chunks.append(filler)
                return ch_chunks""")]},
    {"id": "c12-records-skip-none", "expect": "fire", "edits": [(P, "            table_lines.append(rec)\n            prev_break_by_values", "            if rec is not None:\n                table_lines.append(rec)\n            prev_break_by_values")]},
    {"id": "c12-title-cells-other-list", "expect": "fire", "edits": [(P, """            line_result = []  # [[CHText.Chunk]]
            for col in self.columns:""", """            line_result = []  # [[CHText.Chunk]]
            for col in self.columns[:-1] or self.columns:""")]},
    # neutral
    {"id": "c12-n-temp-var", "expect": "silent", "edits": [(P, 'break_line.ch_text = CHText(sep, " "*(table_width - 2), sep)', 'inner_width = table_width - 2\n        break_line.ch_text = CHText(sep, " "*inner_width, sep)')]},
    {"id": "c12-n-right-first", "expect": "silent", "edits": [(P, """                left_filer_len = filler_len // 2
                right_filler_len = filler_len - left_filer_len""", """                right_filler_len = filler_len // 2
                left_filer_len = filler_len - right_filler_len""")]},
    {"id": "c12-n-dots-2", "expect": "silent", "edits": [(P, "        dots_len = min(3, width)", "        dots_len = min(2, width)")], "note": "still exact width"},
    {"id": "c12-resize-cut-plus-one", "expect": "fire", "edits": [(C, "                result.append(item.clone(item.text[:remaining_len]))", "                result.append(item.clone(item.text[:remaining_len + 1]))")]},
    {"id": "c12-resize-tail-of-item", "expect": "fire", "edits": [(C, "                result.append(item.clone(item.text[:remaining_len]))", "                result.append(item.clone(item.text[-remaining_len:]))")]},
    {"id": "c12-resize-remaining-not-reduced", "expect": "fire", "edits": [(C, "                result.append(item)\n                remaining_len -= cur_item_len", "                result.append(item)")]},
    {"id": "c12-n-resize-strict-compare", "expect": "silent", "edits": [(C, "            if cur_item_len <= remaining_len:", "            if cur_item_len < remaining_len:")]},
    {"id": "c12-resize-cuts-argument-in-place", "expect": "fire", "edits": [(C, "                result.append(item.clone(item.text[:remaining_len]))\n                remaining_len = 0", "                result.append(item.clone(item.text[:remaining_len]))\n                remaining_len = 0\n                del chunks[len(result):]")]},
    # cache-fill purity (R12h / R10j)
    {"id": "c12-enum-full-text-extends-cached-val-list", "expect": "fire", "edits": [(P, "        full_text_items = []\n        pad_len = val_len - CHText.calc_chunks_len(val_text_items)\n        if pad_len > 0:\n            # align 'value' portion of the text to right\n            full_text_items.append(cp.text(\" \" * pad_len))\n        full_text_items.extend(val_text_items)\n", "        full_text_items = val_text_items\n        pad_len = val_len - CHText.calc_chunks_len(val_text_items)\n        if pad_len > 0:\n            full_text_items = [cp.text(\" \" * pad_len)] + full_text_items\n")]},
]
