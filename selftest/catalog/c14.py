F = "ak/color.py"
MUTANTS = [
    {"id": "c14-dash-only-without-parent", "expect": "fire", "edits": [(F, """        else:
            assert parent is None

        if self.fg_color in ["-", ""]:
            self.fg_color = None
        if self.bg_color in ["-", ""]:
            self.bg_color = None
""", """        else:
            assert parent is None
            if self.fg_color in ["-", ""]:
                self.fg_color = None
            if self.bg_color in ["-", ""]:
                self.bg_color = None
""")]},
    {"id": "c14-dash-inherits", "expect": "fire", "edits": [(F, '            if self.fg_color == "":\n                self.fg_color = parent.fg_color', '            if self.fg_color in ("", "-"):\n                self.fg_color = parent.fg_color')]},
    {"id": "c14-bg-from-parent-fg", "expect": "fire", "edits": [(F, '                self.bg_color = parent.bg_color', '                self.bg_color = parent.fg_color')]},
    {"id": "c14-own-mods-lose", "expect": "fire", "edits": [(F, "self.modifiers = {**parent.modifiers, **self.modifiers}", "self.modifiers = {**self.modifiers, **parent.modifiers}")]},
    {"id": "c14-later-overwrites", "expect": "fire", "edits": [(F, """            if synt_id in self.syntax_map:
                # properties of this syntax are defined already. Probably in
                # config file.
                continue
""", "")]},
    {"id": "c14-builtin-first", "expect": "fire", "edits": [(F, """        new_init_items = self._flatten_dict(init_config)
        self.add_new_items(new_init_items, "config")

        new_init_items = self._flatten_dict(self.BUILT_IN_CONFIG)
        self.add_new_items(new_init_items, "built in")""", """        new_init_items = self._flatten_dict(self.BUILT_IN_CONFIG)
        self.add_new_items(new_init_items, "built in")

        new_init_items = self._flatten_dict(init_config)
        self.add_new_items(new_init_items, "config")""")]},
    {"id": "c14-resolve-only-new", "expect": "fire", "edits": [(F, """            for synt_id, syntax_color in self.syntax_map.items()
            if syntax_color.color_fmt is None
        }""", """            for synt_id, syntax_color in self.syntax_map.items()
            if syntax_color.color_fmt is None and synt_id in new_items
        }""")]},
    {"id": "c14-no-cache-reset", "expect": "fire", "edits": [(F, """        if any(synt_id not in self.syntax_map for synt_id in new_items):
            self._cache = {}
""", "")]},
    {"id": "c14-no-global-sync", "expect": "fire", "edits": [(F, "        if any_modifications and self is _GLOBAL_COLORS_CONF:", "        if False and any_modifications and self is _GLOBAL_COLORS_CONF:")]},
    {"id": "c14-nocolor-still-colors", "expect": "fire", "edits": [(F, """        if no_color:
            self.color_fmt = ColorsConfig._NO_EFFECTS_FMT
        else:
            self.color_fmt = ColorFmt(""", """        if no_color and not self.modifiers:
            self.color_fmt = ColorsConfig._NO_EFFECTS_FMT
        else:
            self.color_fmt = ColorFmt(""")]},
    {"id": "c14-lookup-no-default", "expect": "fire", "edits": [(F, """        if syntax_color is None:
            syntax_color = self.syntax_map.get(self.DFLT_SYNTAX_ID)
        if syntax_color is None or""", """        if syntax_color is None or""")]},
    {"id": "c14-modifier-table", "expect": "fire", "edits": [(F, "        'no_blink': ('blink', False),", "        'no_blink': ('blink', True),")]},
    {"id": "c14-parent-not-threaded", "expect": "fire", "edits": [(F, """                            new_resolved.add(syntax_color.synt_id)
                            parent_syntax_color = syntax_color
""", """                            new_resolved.add(syntax_color.synt_id)
""")]},
    {"id": "c14-chain-forward", "expect": "fire", "edits": [(F, "                        for synt_id in reversed(path):", "                        for synt_id in path:")]},
    {"id": "c14-resolve-ignores-conf-nocolor", "expect": "fire", "edits": [(F, """                            syntax_color.resolve(
                                parent_syntax_color, self.no_color)""", """                            syntax_color.resolve(
                                parent_syntax_color, False)""")]},
    {"id": "c14-sync-skips", "expect": "fire", "edits": [(F, "    for palette in _GSYNCED_PALETTES.values():\n        palette._sync_with_config(colors_config)", "    for palette in list(_GSYNCED_PALETTES.values())[:1]:\n        palette._sync_with_config(colors_config)")]},
    # neutral
    {"id": "c14-n-swap-fg-bg-blocks", "expect": "silent", "edits": [(F, """            if self.fg_color == "":
                self.fg_color = parent.fg_color
            if self.bg_color == "":
                self.bg_color = parent.bg_color""", """            if self.bg_color == "":
                self.bg_color = parent.bg_color
            if self.fg_color == "":
                self.fg_color = parent.fg_color""")]},
    {"id": "c14-n-tuple-membership", "expect": "silent", "edits": [(F, '        if self.fg_color in ["-", ""]:', '        if self.fg_color in ("-", ""):')]},
    {"id": "c14-n-always-reset-cache", "expect": "silent", "edits": [(F, """        if any(synt_id not in self.syntax_map for synt_id in new_items):
            self._cache = {}
""", """        self._cache = {}
""")]},
    # R14i flattening of nested configuration dicts
    {"id": "c14-flatten-drops-own-key", "expect": "fire", "edits": [(F, 'result[f"{key}.{skey}"] = val_and_src', 'result[skey] = val_and_src')]},
    {"id": "c14-n-flatten-concat", "expect": "silent", "edits": [(F, 'result[f"{key}.{skey}"] = val_and_src', 'result[key + "." + skey] = val_and_src')]},
    {"id": "c14-n-flatten-prefix-param", "expect": "silent", "edits": [(F, "    def _flatten_dict(cls, syntax_map):", "    def _flatten_dict(cls, syntax_map, prefix=\"\"):"),
        (F, "                result[key] = value\n", "                result[prefix + key] = value\n"),
        (F, '                flatten_subdict = cls._flatten_dict(value)\n                for skey, val_and_src in flatten_subdict.items():\n                    result[f"{key}.{skey}"] = val_and_src\n', "                result.update(cls._flatten_dict(value, f\"{prefix}{key}.\"))\n")]},
    {"id": "c14-flatten-prefix-param-lost", "expect": "fire", "edits": [(F, "    def _flatten_dict(cls, syntax_map):", "    def _flatten_dict(cls, syntax_map, prefix=\"\"):"),
        (F, "                result[key] = value\n", "                result[prefix + key] = value\n"),
        (F, '                flatten_subdict = cls._flatten_dict(value)\n                for skey, val_and_src in flatten_subdict.items():\n                    result[f"{key}.{skey}"] = val_and_src\n', "                result.update(cls._flatten_dict(value, f\"{key}.\"))\n")]},
]
