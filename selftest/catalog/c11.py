P = "ak/ppobj.py"
MUTANTS = [
    {"id": "c11-drop-comma-oneline-dict", "expect": "fire", "edits": [(P, """                    if not is_first:
                        chunks.append(cp.text(", "))
                    else:
                        is_first = False""", """                    if not is_first:
                        pass
                    else:
                        is_first = False""")]},
    {"id": "c11-drop-comma-multiline-dict", "expect": "fire", "edits": [(P, """                if is_first:
                    is_first = False
                else:
                    yield cp.text(",")
                yield None
                yield prefix
                yield self._dict_key_to_sc_chunk(cp, key)""", """                if is_first:
                    is_first = False
                yield None
                yield prefix
                yield self._dict_key_to_sc_chunk(cp, key)""")]},
    {"id": "c11-flag-not-cleared", "expect": "fire", "edits": [(P, """                    for item_chunk in items_chunks:
                        if is_first:
                            is_first = False
                        else:
                            yield cp.text(", ")""", """                    for item_chunk in items_chunks:
                        if is_first:
                            pass
                        else:
                            yield cp.text(", ")""")]},
    {"id": "c11-wrapped-list-lost-comma", "expect": "fire", "edits": [(P, """                        if need_new_line and not is_first_in_line:
                            yield cp.text(",")
                            yield None""", """                        if need_new_line and not is_first_in_line:
                            yield None""")]},
    {"id": "c11-wrapped-flag-wrong-init", "expect": "fire", "edits": [(P, "                    is_first_in_line = True\n                    for i, item_chunk", "                    is_first_in_line = False\n                    for i, item_chunk")]},
    {"id": "c11-missing-close-bracket", "expect": "fire", "edits": [(P, """                    yield from self._gen_ch_chunks_for_obj(cp, item, offset+2)
                yield None
                yield cp.text(" " * offset + "]")""", """                    yield from self._gen_ch_chunks_for_obj(cp, item, offset+2)
                yield None""")]},
    {"id": "c11-wrong-close-bracket", "expect": "fire", "edits": [(P, """            yield None
            yield cp.text(" " * offset + "}")""", """            yield None
            yield cp.text(" " * offset + "]")""")]},
    {"id": "c11-colon-missing", "expect": "fire", "edits": [(P, """                yield self._dict_key_to_sc_chunk(cp, key)
                yield cp.text(": ")""", """                yield self._dict_key_to_sc_chunk(cp, key)
                yield cp.text(" ")""")]},
    {"id": "c11-skip-empty-values", "expect": "fire", "edits": [(P, """                for item in obj_to_print:
                    if is_first:
                        is_first = False""", """                for item in obj_to_print:
                    if item is None:
                        continue
                    if is_first:
                        is_first = False""")]},
    {"id": "c11-dedup-list", "expect": "fire", "edits": [(P, """                    self._simple_val_to_ch_chunk(cp, item)
                    for item in obj_to_print
                ]""", """                    self._simple_val_to_ch_chunk(cp, item)
                    for item in obj_to_print if item != ""
                ]""")]},
    {"id": "c11-unsorted-keys-multiline", "expect": "fire", "edits": [(P, """            is_first = True
            for key in sorted_keys:
                if is_first:
                    is_first = False
                else:
                    yield cp.text(",")""", """            is_first = True
            for key in obj_to_print:
                if is_first:
                    is_first = False
                else:
                    yield cp.text(",")""")]},
    {"id": "c11-wrong-value-for-key", "expect": "fire", "edits": [(P, """                    chunks.append(self._simple_val_to_ch_chunk(
                        cp, obj_to_print[key]))""", """                    chunks.append(self._simple_val_to_ch_chunk(
                        cp, key))""")]},
    {"id": "c11-json-consts", "expect": "fire", "edits": [(P, "{True: 'true', False: 'false', None: 'null'},", "{True: 'true', False: 'false', None: 'None'},")]},
    {"id": "c11-number-before-bool", "expect": "fire", "edits": [(P, """        elif self.is_keyword_value(value):
            return cp.keyword(self._consts[value])
        elif isinstance(value, Number):
            return cp.number(str(value))""", """        elif isinstance(value, Number):
            return cp.number(str(value))
        elif self.is_keyword_value(value):
            return cp.keyword(self._consts[value])""")]},
    {"id": "c11-single-quote", "expect": "fire", "edits": [(P, """            return cp.text('"' + value + '"')""", """            return cp.text("'" + value + "'")""")]},
    {"id": "c11-last-line-lost", "expect": "fire", "edits": [(P, """        if line_chunks:
            yield CHText.make(line_chunks)
""", "")]},
    {"id": "c11-early-break", "expect": "fire", "edits": [(P, "                        if i == len(items_chunks) - 1:", "                        if i >= 100:")]},
    # neutral
    {"id": "c11-n-comma-blank", "expect": "silent", "edits": [(P, """                else:
                    yield cp.text(",")
                yield None
                yield prefix
                yield self._dict_key_to_sc_chunk(cp, key)""", """                else:
                    yield cp.text(" ,")
                yield None
                yield prefix
                yield self._dict_key_to_sc_chunk(cp, key)""")]},
    {"id": "c11-n-threshold", "expect": "silent", "edits": [(P, "oneline_fmt = offset + scr_len < 200  # not exactly correct, ok", "oneline_fmt = offset + scr_len < 120")]},
    {"id": "c11-n-reorder-nl-ind", "expect": "silent", "edits": [(P, """                    yield None
                    yield prefix
                    yield from self._gen_ch_chunks_for_obj(cp, item, offset+2)""", """                    yield None
                    yield cp.text("")
                    yield prefix
                    yield from self._gen_ch_chunks_for_obj(cp, item, offset+2)""")]},
    {"id": "c11-float-rounded", "expect": "fire", "edits": [(P, "        elif isinstance(value, Number):\n            return cp.number(str(value))", "        elif isinstance(value, Number):\n            if isinstance(value, float):\n                value = round(value, 15)\n            return cp.number(str(value))")]},
    {"id": "c11-float-formatted", "expect": "fire", "edits": [(P, "            return cp.number(str(value))", "            return cp.number(f'{value:g}' if isinstance(value, float) else str(value))")]},
    {"id": "c11-n-number-repr", "expect": "silent", "edits": [(P, "            return cp.number(str(value))", "            return cp.number(repr(value))")]},
]
