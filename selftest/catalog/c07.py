G = "ak/ghist.py"
MUTANTS = [
    {"id": "c07-unsorted-roots", "expect": "fire", "edits": [(G, "        repos_list = sorted(repo_id for repo_id in self.repos)", "        repos_list = list(repo_id for repo_id in self.repos)")]},
    {"id": "c07-unsorted-subcomponents", "expect": "fire", "edits": [(G, """            not_processed_sub_components = sorted(
                repo_id
                for repo_id in cur_repo._COMPONENTS_VERSIONS_LOCATIONS
                if repo_id in self.repos and repo_id not in done_repos)""", """            not_processed_sub_components = [
                repo_id
                for repo_id in cur_repo._COMPONENTS_VERSIONS_LOCATIONS
                if repo_id in self.repos and repo_id not in done_repos]""")]},
    {"id": "c07-append-before-deps", "expect": "fire", "edits": [(G, "            if not not_processed_sub_components:\n                # all dependecies are processed, finalise this repo", "            if not not_processed_sub_components or len(dfs_stack) > 8:\n                # all dependecies are processed, finalise this repo")]},
    {"id": "c07-deps-ignore-done", "expect": "fire", "edits": [(G, "                if repo_id in self.repos and repo_id not in done_repos)", "                if repo_id in self.repos and repo_id not in self.sorted_repos[:-1])")]},
    {"id": "c07-no-mark-done", "expect": "fire", "edits": [(G, "                self.sorted_repos.append(cur_repo_id)\n                done_repos.add(cur_repo_id)", "                self.sorted_repos.append(cur_repo_id)")]},
    {"id": "c07-cycle-runtimeerror", "expect": "fire", "edits": [(G, '                raise ValueError(\n                    "repo dependencies cycle detected: "', '                raise RuntimeError(\n                    "repo dependencies cycle detected: "')]},
    {"id": "c07-cycle-test-dropped", "expect": "fire", "edits": [(G, "                if repo_id in dfs_path_names]", "                if repo_id in dfs_path_names[:0]]")]},
    {"id": "c07-reports-raw-order", "expect": "fire", "edits": [(G, "        for repo_id in self.sorted_repos:\n            repo = self.repos[repo_id]", "        for repo_id in self.repos:\n            repo = self.repos[repo_id]")]},
    {"id": "c07-graph-registered-early", "expect": "fire", "edits": [(G, "            x = repo.build_report_rgraph(bug_id, components)\n            results.append((repo_id, x))\n            rgraph_by_name[repo_id] = x", "            rgraph_by_name[repo_id] = None\n            x = repo.build_report_rgraph(bug_id, components)\n            results.append((repo_id, x))")]},
    {"id": "c07-prune-by-iid-order", "expect": "fire", "edits": [(G, "            if cur_rbuild.iid in self.from_rbuilds:\n                # do not go deeper", "            if cur_rbuild.iid <= max(self.from_rbuilds, default=-1):\n                # do not go deeper")]},
    {"id": "c07-scheduled-counts-as-done", "expect": "fire", "edits": [(G, "                if repo_id in self.repos and repo_id not in done_repos)", "                if repo_id in self.repos and repo_id not in done_repos\n                and repo_id not in dfs_path_names[:-1])")]},
    # neutral
    {"id": "c07-n-rename", "expect": "silent", "edits": [(G, "not_processed_sub_components", "pending_components", 6)]},
    {"id": "c07-bnmap-own-number-only", "expect": "fire", "edits": [(G, "                        for bn in buildnums:\n                            bn_map[bn.as_tuple()] = new_rbuild", "                        bn_map[new_rbuild.build_num.as_tuple()] = new_rbuild")]},
    {"id": "c07-bnmap-first-number-only", "expect": "fire", "edits": [(G, "                        for bn in buildnums:\n                            bn_map[bn.as_tuple()] = new_rbuild", "                        for bn in buildnums[:1]:\n                            bn_map[bn.as_tuple()] = new_rbuild")]},
    {"id": "c07-bnmap-copy-filtered", "expect": "fire", "edits": [(G, "                self.bn_map[k] = (rbranch, rbuild)", "                if rbuild.rcommit.is_explicit:\n                    self.bn_map[k] = (rbranch, rbuild)")]},
    {"id": "c07-n-bnmap-copy-first-wins", "expect": "silent", "edits": [(G, "                self.bn_map[k] = (rbranch, rbuild)", "                if k not in self.bn_map:\n                    self.bn_map[k] = (rbranch, rbuild)")]},
    {"id": "c07-n-bnmap-loopvar", "expect": "silent", "edits": [(G, "                        for bn in buildnums:\n                            bn_map[bn.as_tuple()] = new_rbuild", "                        for num in buildnums:\n                            bn_map[num.as_tuple()] = new_rbuild")]},
    {"id": "c07-trivial-bumps-dropped", "expect": "fire", "edits": [(G, "            new_rbuild = RBuild(\n                new_rcommit, parent_rbuilds, rcommits_in_build, components_bumps)", "            components_bumps = {r: b for r, b in components_bumps.items() if not b.is_trivial()}\n            new_rbuild = RBuild(\n                new_rcommit, parent_rbuilds, rcommits_in_build, components_bumps)")]},
    {"id": "c07-bump-entry-only-when-moved", "expect": "fire", "edits": [(G, "            components_bumps[repo_id] = ComponentBump(\n                from_builnums, cur_component_bn,\n                from_rbuilds, cur_component_rbuild)", "            if from_builnums != [cur_component_bn]:\n                components_bumps[repo_id] = ComponentBump(\n                    from_builnums, cur_component_bn,\n                    from_rbuilds, cur_component_rbuild)")]},
    # R07h
    {"id": "c07-bump-walk-ends-at-shipped-build", "expect": "fire", "edits": [(G, "            if cur_rbuild.iid in self.from_rbuilds:\n                # do not go deeper\n                dfs_sp[-1] = cur_sp - 1\n                continue\n", "            if cur_rbuild.iid in self.from_rbuilds:\n                break\n")]},
    # R07i: cached parent-build maps are frozen
    {"id": "c07-cached-bparents-popped-in-place", "expect": "fire", "edits": [(G, "            parent_rbuilds = {rbuild.iid: rbuild for rbuild in _iter_parent_rbuilds()}\n", "            parent_rbuilds = {rbuild.iid: rbuild for rbuild in _iter_parent_rbuilds()}\n            if len(cur_commit.parents) == 1 and cur_commit.parents[0].iid in rcommits_bparents:\n                parent_rbuilds = rcommits_bparents[cur_commit.parents[0].iid]\n")],
     "note": "single-parent fast path reuses the cached map before the reduction loop pops from it"},
    {"id": "c07-n-cached-bparents-copied", "expect": "silent", "edits": [(G, "            parent_rbuilds = {rbuild.iid: rbuild for rbuild in _iter_parent_rbuilds()}\n", "            parent_rbuilds = {rbuild.iid: rbuild for rbuild in _iter_parent_rbuilds()}\n            if len(cur_commit.parents) == 1 and cur_commit.parents[0].iid in rcommits_bparents:\n                parent_rbuilds = dict(rcommits_bparents[cur_commit.parents[0].iid])\n")]},
]
