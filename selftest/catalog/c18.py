X = "ak/xlsread.py"
MUTANTS = [
    {"id": "c18-origin-anchor", "expect": "fire", "edits": [(X, "                val = cell_type.val_from_cell(cell)\n                attr_origins = cell.coordinate", "                val = cell_type.val_from_cell(cell)\n                attr_origins = anchor_cell.coordinate")]},
    {"id": "c18-origin-under-other-name", "expect": "fire", "edits": [(X, "            self._attrs_origins[attr_name] = attr_origins", "            self._attrs_origins[self._ATTRS[0]] = attr_origins")]},
    {"id": "c18-ladder-copies-value", "expect": "fire", "edits": [(X, "                            current_row[i] = prev_row[i]", "                            current_row[i].value = prev_row[i].value")]},
    {"id": "c18-ladder-prev-raw-row", "expect": "fire", "edits": [(X, "            prev_row = current_row\n\n            yield results", "            prev_row = row\n\n            yield results")]},
    {"id": "c18-ladder-fill-all", "expect": "fire", "edits": [(X, "                        if self._cell_is_empty(current_row[i]):\n                            current_row[i] = prev_row[i]\n                        else:\n                            break", "                        current_row[i] = prev_row[i]")]},
    {"id": "c18-range-origin-shifted", "expect": "fire", "edits": [(X, """        attr_origins = {
            cell_title: cell.coordinate
            for cell_title, cell in zip(cells_titles, cells)
        }
        return val, attr_origins


class CellRangeSet""", """        attr_origins = {
            cell_title: cell.coordinate
            for cell_title, cell in zip(cells_titles, cells[1:] + cells[:1])
        }
        return val, attr_origins


class CellRangeSet""")]},
    {"id": "c18-get-origin-anchor", "expect": "fire", "edits": [(X, "            return ws_prefix + origins\n", "            return ws_prefix + self._anchor_cell_coord\n")]},
    {"id": "c18-cells-types-swapped", "expect": "fire", "edits": [(X, "        return self.cells_types, cells, self.defaults_factories", "        return cells, self.cells_types, self.defaults_factories")]},
    {"id": "c18-built-from-raw-row", "expect": "fire", "edits": [(X, "                            *cells_map.cells_from_row(current_row)))", "                            *cells_map.cells_from_row(row)))")]},
    {"id": "c18-rules-in-dict-order", "expect": "fire", "edits": [(X, "            attrs_rules_map[attr_name] for attr_name in self.obj_class._ATTRS]", "            attrs_rules_map[attr_name] for attr_name in attrs_rules_map]")]},
    {"id": "c18-default-marker-coordinate", "expect": "fire", "edits": [(X, '                attr_origins = "<skipped column>"\n            else:', '                attr_origins = anchor_cell.coordinate\n            else:')]},
    # neutral
    {"id": "c18-n-rename", "expect": "silent", "edits": [(X, "attr_origins", "origin_info", 10)]},
    {"id": "c18-zero-cell-is-blank", "expect": "fire", "edits": [(X, '        return cell.value is None or str(cell.value).strip() == ""', '        value = cell.value\n        if not value:\n            return True\n        return isinstance(value, str) and not value.strip()')]},
    {"id": "c18-whitespace-cell-is-data", "expect": "fire", "edits": [(X, '        return cell.value is None or str(cell.value).strip() == ""', '        return cell.value is None or str(cell.value) == ""')]},
    {"id": "c18-n-blank-predicate-by-type", "expect": "silent", "edits": [(X, '        return cell.value is None or str(cell.value).strip() == ""', '        value = cell.value\n        if value is None:\n            return True\n        return isinstance(value, str) and not value.strip()')]},
    {"id": "c18-ladder-starts-at-known-column", "expect": "fire", "edits": [(X, "                        (pos for pos, name in enumerate(cols_names) if name),", "                        (pos for pos, name in enumerate(cols_names) if name in known_cols_names),")]},
    {"id": "c18-n-ladder-start-explicit-test", "expect": "silent", "edits": [(X, "                        (pos for pos, name in enumerate(cols_names) if name),", "                        (pos for pos, name in enumerate(cols_names) if name != ''),")]},
    # `or` used for its value inside the predicate
    {"id": "c18-falsy-or-default", "expect": "fire", "edits": [(X, '        return cell.value is None or str(cell.value).strip() == ""\n', '        return not str(cell.value or "").strip()\n')]},
    {"id": "c18-n-none-default-ifexp", "expect": "silent", "edits": [(X, '        return cell.value is None or str(cell.value).strip() == ""\n', '        return not str("" if cell.value is None else cell.value).strip()\n')]},
]
