C = "ak/color.py"
P = "ak/ppobj.py"
MUTANTS = [
    {"id": "c08-iadd-self-alias", "expect": "fire", "edits": [(C, "            for part in list(other.chunks):\n                self._append_chunk(part)", "            for part in other.chunks:\n                self._append_chunk(part)")]},
    {"id": "c08-no-empty-guard", "expect": "fire", "edits": [(C, """        if not chunk.text:
            # It is safe to skip chunks with empty text.
            # It is expected that when we start printing new typed chunk
            # terminal is in default state. In this case printing c_prefix
            # followed by c_suffix has no visible effect and leaves terminal
            # in the same (default) state.
            return
""", "")]},
    {"id": "c08-merge-no-scrlen", "expect": "fire", "edits": [(C, """            self.chunks[-1] = prev_chunk.clone(prev_chunk.text + chunk.text)
        else:
            self.chunks.append(chunk)
        self.scrlen += len(chunk.text)""", """            self.chunks[-1] = prev_chunk.clone(prev_chunk.text + chunk.text)
        else:
            self.chunks.append(chunk)
            self.scrlen += len(chunk.text)""")]},
    {"id": "c08-merge-reversed", "expect": "fire", "edits": [(C, "prev_chunk.clone(prev_chunk.text + chunk.text)", "prev_chunk.clone(chunk.text + prev_chunk.text)")]},
    {"id": "c08-never-merge", "expect": "fire", "edits": [(C, "        if self.chunks and chunk.has_same_type(self.chunks[-1]):", "        if self.chunks and chunk is self.chunks[-1]:")]},
    {"id": "c08-scrlen-of-wrong", "expect": "fire", "edits": [(C, "        self.scrlen += len(chunk.text)\n\n\nclass ColorFmt", "        self.scrlen += len(str(chunk))\n\n\nclass ColorFmt")]},
    {"id": "c08-write-from-ppobj", "expect": "fire", "edits": [(P, "                ch_chunks = ch_chunks.chunks.copy()", "                ch_chunks.chunks.append(cp.text(''))\n                ch_chunks = ch_chunks.chunks.copy()")]},
    {"id": "c08-chunks-escape", "expect": "fire", "edits": [(P, "                ch_chunks = ch_chunks.chunks.copy()", "                ch_chunks = ch_chunks.chunks")]},
    {"id": "c08-fixed-len-bypass", "expect": "fire", "edits": [(C, """        len_diff = desired_len - len(self)
        if len_diff < 0:
            return self[:desired_len]""", """        len_diff = desired_len - len(self)
        if len_diff < 0:
            self.chunks = self[:desired_len].chunks
            return self""")]},
    {"id": "c08-make-unmerged", "expect": "fire", "edits": [(C, "        chunks_list = cls._merge_chunks(chunks_list)\n        result = cls()", "        result = cls()")]},
    {"id": "c08-make-scrlen-orig", "expect": "fire", "edits": [(C, "        chunks_list = cls._merge_chunks(chunks_list)\n        result = cls()\n        result.scrlen = sum(len(c.text) for c in chunks_list)", "        merged = cls._merge_chunks(chunks_list)\n        result = cls()\n        result.scrlen = len(chunks_list)\n        chunks_list = merged")]},
    {"id": "c08-merge-loses-last", "expect": "fire", "edits": [(C, "                cur_chunk = cur_chunk.add_chunks_same_type(chunk)\n        result.append(cur_chunk)\n        return result", "                cur_chunk = cur_chunk.add_chunks_same_type(chunk)\n        return result")]},
    {"id": "c08-getitem-raw-object", "expect": "fire", "edits": [(C, "        if remain_len <= 0:\n            return type(self)()", "        if remain_len <= 0:\n            return \"\"")]},
    {"id": "c08-add-empty-returns-self", "expect": "fire", "edits": [(C, "        result = type(self)(self)  # clone self\n        result += other\n        return result", "        if isinstance(other, (str, CHText)) and len(other) == 0:\n            return self\n        result = type(self)(self)  # clone self\n        result += other\n        return result")]},
    {"id": "c08-fixed-len-returns-self", "expect": "fire", "edits": [(C, "        return type(self)(self)  # a copy: the result must not alias self", "        return self")]},
    # neutral
    {"id": "c08-line-buffer-cleared-in-place", "expect": "fire", "edits": [(P, "                yield CHText.make(line_chunks)\n                line_chunks = []", "                yield CHText.make(line_chunks)\n                line_chunks.clear()")]},
    # ---- arithmetic of index / slice / fixed_len / format (R08h)
    {"id": "c08-a-start-not-clamped", "expect": "fire", "edits": [(C, "            start_pos = max(0, self.scrlen + start_pos)", "            start_pos = self.scrlen + start_pos")]},
    {"id": "c08-a-n-end-not-clamped", "expect": "silent", "edits": [(C, "            end_pos = max(0, self.scrlen + end_pos)", "            end_pos = self.scrlen + end_pos")]},
    {"id": "c08-a-last-piece-short", "expect": "fire", "edits": [(C, "new_chunks.append(cur_chunk.clone(cur_chunk.text[:remain_len]))", "new_chunks.append(cur_chunk.clone(cur_chunk.text[:remain_len - 1]))")]},
    {"id": "c08-a-n-strict-last-test", "expect": "silent", "edits": [(C, "            if remain_len <= len(cur_chunk.text):", "            if remain_len < len(cur_chunk.text):")]},
    {"id": "c08-a-remain-not-reduced", "expect": "fire", "edits": [(C, "            remain_len -= len(cur_chunk.text)\n", "")]},
    {"id": "c08-a-negative-index-off-by-one", "expect": "fire", "edits": [(C, "                index = self.scrlen + index", "                index = self.scrlen + index - 1")]},
    {"id": "c08-a-chunk-pos-inclusive", "expect": "fire", "edits": [(C, "            if position < len(chunk.text):\n                return chunk_id, position", "            if position <= len(chunk.text):\n                return chunk_id, position")]},
    {"id": "c08-a-negative-position-accepted", "expect": "fire", "edits": [(C, "        if position < 0:\n            return None, None\n", "")]},
    {"id": "c08-a-fixed-len-pad-plus-one", "expect": "fire", "edits": [(C, '            return self + " "*len_diff', '            return self + " "*(len_diff + 1)')]},
    {"id": "c08-a-fixed-len-cut-plus-one", "expect": "fire", "edits": [(C, "            return self[:desired_len]", "            return self[:desired_len + 1]")]},
    {"id": "c08-a-center-rounds-up", "expect": "fire", "edits": [(C, "            prefix_width = filler_width // 2", "            prefix_width = (filler_width + 1) // 2")]},
    {"id": "c08-a-center-suffix-half", "expect": "fire", "edits": [(C, "            suffix_width = filler_width - prefix_width", "            suffix_width = filler_width // 2")]},
    {"id": "c08-a-align-swapped", "expect": "fire", "edits": [(C, "        elif align_char == '<':\n            return str(self) + filler_ch*filler_width", "        elif align_char == '>':\n            return str(self) + filler_ch*filler_width"), (C, "        elif align_char == '>':\n            return filler_ch*filler_width + str(self)", "        elif align_char == '<':\n            return filler_ch*filler_width + str(self)")]},
    {"id": "c08-a-first-piece-skips-char", "expect": "fire", "edits": [(C, "        cur_chunk = cur_chunk.clone(cur_chunk.text[chunk_pos:])", "        cur_chunk = cur_chunk.clone(cur_chunk.text[chunk_pos + 1:])")]},
    {"id": "c08-a-chunk-not-advanced", "expect": "fire", "edits": [(C, "            chunk_id += 1\n            if chunk_id < len(self.chunks):", "            if chunk_id < len(self.chunks):")]},
    {"id": "c08-a-n-empty-test-lt-one", "expect": "silent", "edits": [(C, "        if remain_len <= 0:\n            return type(self)()", "        if remain_len < 1:\n            return type(self)()")]},
    {"id": "c08-a-stop-defaults-to-len-minus-one", "expect": "fire", "edits": [(C, "        if end_pos is None:\n            end_pos = self.scrlen", "        if end_pos is None:\n            end_pos = self.scrlen - 1")]},
    {"id": "c08-a-width-minus-len-plus-one", "expect": "fire", "edits": [(C, "        filler_width = max(width - self.scrlen, 0)", "        filler_width = max(width - self.scrlen + 1, 0)")]},
    # ---- equality (R08i)
    {"id": "c08-e-chunk-eq-ignores-suffix", "expect": "fire", "edits": [(C, "                and self.text == other.text\n                and self.c_suffix == other.c_suffix)", "                and self.text == other.text)")]},
    {"id": "c08-e-text-eq-no-length-test", "expect": "fire", "edits": [(C, "            if len(self.chunks) != len(other.chunks):\n                return False\n            return all(", "            return all(")]},
    {"id": "c08-e-str-eq-ignores-colour", "expect": "fire", "edits": [(C, "            return p.is_plain() and p.text == other", "            return p.text == other")]},
    {"id": "c08-e-empty-text-eq-any-str", "expect": "fire", "edits": [(C, "                return not self.chunks and not other", "                return not self.chunks")]},
    {"id": "c08-e-n-len-test-reordered", "expect": "silent", "edits": [(C, "            if len(self.chunks) != 1:\n                return not self.chunks and not other", "            if 1 != len(self.chunks):\n                return not other and not self.chunks")]},
    {"id": "c08-n-tuple-copy", "expect": "silent", "edits": [(C, "            for part in list(other.chunks):", "            for part in tuple(other.chunks):")]},
    {"id": "c08-n-guarded-alias", "expect": "silent", "edits": [(C, "            for part in list(other.chunks):\n                self._append_chunk(part)", "            parts = other.chunks[:]\n            for part in parts:\n                self._append_chunk(part)")]},
    {"id": "c08-n-calc-len", "expect": "silent", "edits": [(C, "        result.scrlen = sum(len(c.text) for c in chunks_list)", "        result.scrlen = cls.calc_chunks_len(chunks_list)")]},
    # R08j join language
    {"id": "c08-join-sep-only-after-nonempty", "expect": "fire", "edits": [(C, '        is_first = True\n        for chunk in iterable:\n            if is_first:\n                is_first = False\n            else:\n                result += self\n            result += chunk\n', "        for chunk in iterable:\n            if result.chunks:\n                result += self\n            result += chunk\n")]},
    {"id": "c08-n-join-enumerate", "expect": "silent", "edits": [(C, '        is_first = True\n        for chunk in iterable:\n            if is_first:\n                is_first = False\n            else:\n                result += self\n            result += chunk\n', "        for pos, chunk in enumerate(iterable):\n            if pos > 0:\n                result += self\n            result += chunk\n")]},
    {"id": "c08-join-sep-after-every-item", "expect": "fire", "edits": [(C, '        is_first = True\n        for chunk in iterable:\n            if is_first:\n                is_first = False\n            else:\n                result += self\n            result += chunk\n', "        for chunk in iterable:\n            result += chunk\n            result += self\n")]},
]
