F = "ak/cli_tools.py"
MUTANTS = [
    {"id": "c19-unguarded-transitive", "expect": "fire", "edits": [(F, """                    if (p in parser._dependent_parsers
                            and parser_name not in parser._dependent_parsers):""", """                    if p in parser._dependent_parsers:""")]},
    {"id": "c19-unguarded-direct", "expect": "fire", "edits": [(F, """                if parser_name not in parent_parser._dependent_parsers:
                    parent_parser.register_dependent(parser_name, cmd_parser)""", """                parent_parser.register_dependent(parser_name, cmd_parser)""")]},
    {"id": "c19-no-transitive", "expect": "fire", "edits": [(F, """                for parser in self.command_parsers.values():
                    if (p in parser._dependent_parsers
                            and parser_name not in parser._dependent_parsers):
                        parser.register_dependent(parser_name, cmd_parser)
""", "")]},
    {"id": "c19-transitive-wrong-cond", "expect": "fire", "edits": [(F, "                    if (p in parser._dependent_parsers\n", "                    if (parser_name in parser._dependent_parsers\n")]},
    {"id": "c19-skip-super-when-propagating", "expect": "fire", "edits": [(F, """                dependent_parser.add_argument(*args, _propagate=False, **kwargs)
        super().add_argument(*args, **kwargs)""", """                dependent_parser.add_argument(*args, _propagate=False, **kwargs)
            if not self._dependent_parsers:
                return
        super().add_argument(*args, **kwargs)""")]},
    {"id": "c19-no-forward", "expect": "fire", "edits": [(F, "        propagate = kwargs.pop('_propagate', True)\n", "        propagate = kwargs.pop('_propagate', False)\n")]},
    {"id": "c19-no-common-parent", "expect": "fire", "edits": [(F, """                cmd_parser = AkArgumentParser(
                    parents=[self.common_options, ],
                    add_help=False,""", """                cmd_parser = AkArgumentParser(
                    add_help=False,""")]},
    {"id": "c19-std-args-wrong-parser", "expect": "fire", "edits": [(F, "        self._mk_std_args(self.common_options)\n", "        self._mk_std_args(self.parser)\n")]},
    {"id": "c19-default-when-help-only", "expect": "fire", "edits": [(F, "for choices in [['-h', '--help'], self.command_parsers]", "for choices in [['--help'], self.command_parsers]")]},
    {"id": "c19-no-color-kept", "expect": "fire", "edits": [(F, "        if args.no_color:\n            args.color = False\n", "        if args.no_color:\n            args.color = 'never'\n")]},
    {"id": "c19-internal-default", "expect": "fire", "edits": [(F, """                    help=help_text, description=descr)
                commands_names.append(parser_name)
""", """                    help=help_text, description=descr)
            commands_names.append(parser_name)
""")]},
    {"id": "c19-registry-before-ancestors", "expect": "fire", "edits": [(F, """            # register newly created cmd_parser in parents...
""", """            self.command_parsers[parser_name] = cmd_parser
            # register newly created cmd_parser in parents...
"""), (F, """                        parser.register_dependent(parser_name, cmd_parser)

            self.command_parsers[parser_name] = cmd_parser
""", """                        parser.register_dependent(parser_name, cmd_parser)

""")], "note": "harmless for the closure but the new parser can see itself; rule demands after-loop registration"},
    {"id": "c19-class-level-dependents", "expect": "fire", "edits": [(F, "    __slots__ = ('_dependent_parsers', )\n\n    def __init__(self, *args, **kwargs):\n        super().__init__(*args, **kwargs)\n        self._dependent_parsers = {}\n", "    _dependent_parsers = {}\n\n    def __init__(self, *args, **kwargs):\n        super().__init__(*args, **kwargs)\n")]},
    {"id": "c19-argparser-propagates", "expect": "fire", "edits": [(F, "                cmd_parser.add_argument(*args, _propagate=False, **kwargs)", "                cmd_parser.add_argument(*args, **kwargs)")]},
    # neutral
    {"id": "c19-n-idempotent-insert", "expect": "silent", "edits": [(F, "        assert name not in self._dependent_parsers\n        self._dependent_parsers[name] = parser", "        if name in self._dependent_parsers:\n            return\n        self._dependent_parsers[name] = parser"),
        (F, """                if parser_name not in parent_parser._dependent_parsers:
                    parent_parser.register_dependent(parser_name, cmd_parser)""", """                parent_parser.register_dependent(parser_name, cmd_parser)""")]},
    {"id": "c19-n-items", "expect": "silent", "edits": [(F, """                for parser in self.command_parsers.values():
                    if (p in parser._dependent_parsers""", """                for _nm, parser in self.command_parsers.items():
                    if (p in parser._dependent_parsers""")]},
    {"id": "c19-n-nested-ifs", "expect": "silent", "edits": [(F, """                    if (p in parser._dependent_parsers
                            and parser_name not in parser._dependent_parsers):
                        parser.register_dependent(parser_name, cmd_parser)""", """                    if p in parser._dependent_parsers:
                        if parser_name not in parser._dependent_parsers:
                            parser.register_dependent(parser_name, cmd_parser)""")]},
    # forms of the default-command test and of the _propagate guard (R19e by model evaluation, R19b by polarity)
    {"id": "c19-n-nested-not-in", "expect": "silent", "edits": [(F, "            first_arg = args[0] if args else None\n            if all(\n                first_arg not in choices\n                for choices in [['-h', '--help'], self.command_parsers]\n            ):\n                args.insert(0, self.default_command)\n", """            first_arg = args[0] if args else None
            if first_arg not in ('-h', '--help'):
                if first_arg not in self.command_parsers:
                    args.insert(0, self.default_command)
""")]},
    {"id": "c19-n-empty-args-first", "expect": "silent", "edits": [(F, "            first_arg = args[0] if args else None\n            if all(\n                first_arg not in choices\n                for choices in [['-h', '--help'], self.command_parsers]\n            ):\n                args.insert(0, self.default_command)\n", """            if not args or (args[0] not in ['-h', '--help'] and args[0] not in self.command_parsers):
                args.insert(0, self.default_command)
""")]},
    {"id": "c19-default-index-error", "expect": "fire", "edits": [(F, "            first_arg = args[0] if args else None\n            if all(\n                first_arg not in choices\n                for choices in [['-h', '--help'], self.command_parsers]\n            ):\n                args.insert(0, self.default_command)\n", """            first_arg = args[0]
            if first_arg not in ['-h', '--help'] and first_arg not in self.command_parsers:
                args.insert(0, self.default_command)
""")], "note": "IndexError for an empty argument vector"},
    {"id": "c19-default-not-for-empty", "expect": "fire", "edits": [(F, "            first_arg = args[0] if args else None\n            if all(\n                first_arg not in choices\n                for choices in [['-h', '--help'], self.command_parsers]\n            ):\n                args.insert(0, self.default_command)\n", """            if args and args[0] not in ['-h', '--help'] and args[0] not in self.command_parsers:
                args.insert(0, self.default_command)
""")], "note": "an empty argument vector no longer runs the default command"},
    {"id": "c19-default-appended", "expect": "fire", "edits": [(F, "                args.insert(0, self.default_command)", "                args.append(self.default_command)")]},
    {"id": "c19-n-propagate-is-not-false", "expect": "silent", "edits": [(F, "        if propagate:\n", "        if propagate is not False:\n")]},
    {"id": "c19-propagate-inverted", "expect": "fire", "edits": [(F, "        if propagate:\n", "        if propagate is False:\n")]},
    # registration through one loop over [parent, *ancestors] (receiver terms of R19a)
    {"id": 'c19-n-parent-and-ascendants-list', "expect": 'silent', "edits": [(F, '            for p in parents:\n                parent_parser = self.command_parsers[p]\n                if parser_name not in parent_parser._dependent_parsers:\n                    parent_parser.register_dependent(parser_name, cmd_parser)\n                # ... and all ascendants\n                for parser in self.command_parsers.values():\n                    if (p in parser._dependent_parsers\n                            and parser_name not in parser._dependent_parsers):\n                        parser.register_dependent(parser_name, cmd_parser)\n', '            for p in parents:\n                parent_parser = self.command_parsers[p]\n                ascendants = [\n                    parser for parser in self.command_parsers.values()\n                    if p in parser._dependent_parsers\n                ]\n                for parser in [parent_parser, *ascendants]:\n                    if parser_name not in parser._dependent_parsers:\n                        parser.register_dependent(parser_name, cmd_parser)\n')]},
    {"id": 'c19-list-form-ascendants-wrong-cond', "expect": 'fire', "edits": [(F, '            for p in parents:\n                parent_parser = self.command_parsers[p]\n                if parser_name not in parent_parser._dependent_parsers:\n                    parent_parser.register_dependent(parser_name, cmd_parser)\n                # ... and all ascendants\n                for parser in self.command_parsers.values():\n                    if (p in parser._dependent_parsers\n                            and parser_name not in parser._dependent_parsers):\n                        parser.register_dependent(parser_name, cmd_parser)\n', '            for p in parents:\n                parent_parser = self.command_parsers[p]\n                ascendants = [\n                    parser for parser in self.command_parsers.values()\n                    if parser_name in parser._dependent_parsers\n                ]\n                for parser in [parent_parser, *ascendants]:\n                    if parser_name not in parser._dependent_parsers:\n                        parser.register_dependent(parser_name, cmd_parser)\n')]},
    {"id": 'c19-list-form-without-parent', "expect": 'fire', "edits": [(F, '            for p in parents:\n                parent_parser = self.command_parsers[p]\n                if parser_name not in parent_parser._dependent_parsers:\n                    parent_parser.register_dependent(parser_name, cmd_parser)\n                # ... and all ascendants\n                for parser in self.command_parsers.values():\n                    if (p in parser._dependent_parsers\n                            and parser_name not in parser._dependent_parsers):\n                        parser.register_dependent(parser_name, cmd_parser)\n', '            for p in parents:\n                parent_parser = self.command_parsers[p]\n                ascendants = [\n                    parser for parser in self.command_parsers.values()\n                    if p in parser._dependent_parsers\n                ]\n                for parser in ascendants:\n                    if parser_name not in parser._dependent_parsers:\n                        parser.register_dependent(parser_name, cmd_parser)\n')]},
    {"id": 'c19-list-form-only-parent', "expect": 'fire', "edits": [(F, '            for p in parents:\n                parent_parser = self.command_parsers[p]\n                if parser_name not in parent_parser._dependent_parsers:\n                    parent_parser.register_dependent(parser_name, cmd_parser)\n                # ... and all ascendants\n                for parser in self.command_parsers.values():\n                    if (p in parser._dependent_parsers\n                            and parser_name not in parser._dependent_parsers):\n                        parser.register_dependent(parser_name, cmd_parser)\n', '            for p in parents:\n                parent_parser = self.command_parsers[p]\n                ascendants = [\n                    parser for parser in self.command_parsers.values()\n                    if p in parser._dependent_parsers\n                ]\n                for parser in [parent_parser]:\n                    if parser_name not in parser._dependent_parsers:\n                        parser.register_dependent(parser_name, cmd_parser)\n')]},
    {"id": 'c19-list-form-break-after-first', "expect": 'fire', "edits": [(F, '            for p in parents:\n                parent_parser = self.command_parsers[p]\n                if parser_name not in parent_parser._dependent_parsers:\n                    parent_parser.register_dependent(parser_name, cmd_parser)\n                # ... and all ascendants\n                for parser in self.command_parsers.values():\n                    if (p in parser._dependent_parsers\n                            and parser_name not in parser._dependent_parsers):\n                        parser.register_dependent(parser_name, cmd_parser)\n', '            for p in parents:\n                parent_parser = self.command_parsers[p]\n                ascendants = [\n                    parser for parser in self.command_parsers.values()\n                    if p in parser._dependent_parsers\n                ]\n                for parser in [parent_parser, *ascendants]:\n                    if parser_name not in parser._dependent_parsers:\n                        parser.register_dependent(parser_name, cmd_parser)\n                        break\n')]},
]
