F = "ak/color.py"
MUTANTS = [
    {"id": "c09-strip-no-colon", "expect": "fire", "edits": [(F, 're.compile("\\033\\\\[[;:\\\\d]*m")', 're.compile("\\033\\\\[[;\\\\d]*m")')]},
    {"id": "c09-strip-greedy-any", "expect": "fire", "edits": [(F, 're.compile("\\033\\\\[[;:\\\\d]*m")', 're.compile("\\033\\\\[.*m")')]},
    {"id": "c09-strip-digits-only", "expect": "fire", "edits": [(F, 're.compile("\\033\\\\[[;:\\\\d]*m")', 're.compile("\\033\\\\[\\\\d+m")')]},
    {"id": "c09-strip-count1", "expect": "fire", "edits": [(F, 'return re.sub(cls._SEQ_RE, "", text)', 'return re.sub(cls._SEQ_RE, "", text, 1)')]},
    {"id": "c09-no-reset", "expect": "fire", "edits": [(F, '            color_suffix = "\\033[0m"\n', '            color_suffix = ""\n')]},
    {"id": "c09-reset-when-empty", "expect": "fire", "edits": [(F, '            color_prefix = ""\n            color_suffix = ""\n', '            color_prefix = ""\n            color_suffix = "\\033[0m"\n')]},
    {"id": "c09-sep-comma", "expect": "fire", "edits": [(F, '";".join(c for c in color_codes)', '",".join(c for c in color_codes)')]},
    {"id": "c09-cube-swap", "expect": "fire", "edits": [(F, "color = 16 + r * 36 + g * 6 + b", "color = 16 + r * 6 + g * 36 + b")]},
    {"id": "c09-cube-base", "expect": "fire", "edits": [(F, "color = 16 + r * 36 + g * 6 + b", "color = 15 + r * 36 + g * 6 + b")]},
    {"id": "c09-gray-base", "expect": "fire", "edits": [(F, "color = 232 + shade", "color = 231 + shade")]},
    {"id": "c09-bg-fg-swapped", "expect": "fire", "edits": [(F, 'fg_bg_id = "4" if is_bg else "3"', 'fg_bg_id = "3" if is_bg else "4"')]},
    {"id": "c09-bg-as-fg", "expect": "fire", "edits": [(F, "color_codes.append(cls._make_seq_element(bg_color, True))", "color_codes.append(cls._make_seq_element(bg_color, False))")]},
    {"id": "c09-underline-code", "expect": "fire", "edits": [(F, '            if underline:\n                color_codes.append("4")', '            if underline:\n                color_codes.append("3")')]},
    {"id": "c09-effect-ignores-nocolor", "expect": "fire", "edits": [(F, """            if crossed:
                color_codes.append("9")
""", """        if crossed:
            color_codes.append("9")
""")]},
    {"id": "c09-no-upper-bound", "expect": "fire", "edits": [(F, "            if color < 0 or color > 255:", "            if color < 0:")]},
    {"id": "c09-no-lower-bound", "expect": "fire", "edits": [(F, "            if color < 0 or color > 255:", "            if color > 255:")]},
    {"id": "c09-cube-bound-6", "expect": "fire", "edits": [(F, "any(c < 0 or c > 5 for c in color)", "any(c < 0 or c > 6 for c in color)")]},
    {"id": "c09-invalid-typeerror", "expect": "fire", "edits": [(F, '        raise ValueError(f"Invalid {param_name} object: {type(color)}: {color!r}")', '        raise TypeError(f"Invalid {param_name} object: {type(color)}: {color!r}")')]},
    {"id": "c09-fall-off-end", "expect": "fire", "edits": [(F, '        raise ValueError(f"Invalid {param_name} object: {type(color)}: {color!r}")\n', '        pass\n')]},
    {"id": "c09-bytes-prefix-only", "expect": "fire", "edits": [(F, "            color_suffix = color_suffix.encode()\n", "")]},
    {"id": "c09-bytes-args-shifted", "expect": "fire", "edits": [(F, """            color, bg_color, bold, faint, underline, blink, crossed,
            no_color, make_bytes=True)""", """            color, bg_color, faint, bold, underline, blink, crossed,
            no_color, make_bytes=True)""")]},
    {"id": "c09-clone-mixes-pair", "expect": "fire", "edits": [(F, "return type(self)(self.c_prefix, new_text, self.c_suffix)", 'return type(self)(self.c_prefix, new_text, "")')]},
    {"id": "c09-str-no-suffix", "expect": "fire", "edits": [(F, '        return "".join(f"{p.c_prefix}{p.text}{p.c_suffix}" for p in self.chunks)', '        return "".join(f"{p.c_prefix}{p.text}" for p in self.chunks) + (self.chunks[-1].c_suffix if self.chunks else "")')]},
    {"id": "c09-color-table", "expect": "fire", "edits": [(F, """        'CYAN'   : "6",""", """        'CYAN'   : "5",""")]},
    {"id": "c09-256-semicolon-form-unstripped", "expect": "fire", "edits": [(F, 'return f"{fg_bg_id}8:5:{color}"', 'return f"{fg_bg_id}8/5/{color}"')]},
    {"id": "c09-lru-cache-validator", "expect": "fire", "edits": [(F, "import re\nfrom dataclasses import dataclass\n", "import re\nfrom functools import lru_cache\nfrom dataclasses import dataclass\n"), (F, "    @classmethod\n    def _make_seq_element(cls, color, is_bg=False):", "    @classmethod\n    @lru_cache(maxsize=None)\n    def _make_seq_element(cls, color, is_bg=False):")]},
    # neutral
    {"id": "c09-n-raw-pattern", "expect": "silent", "edits": [(F, 're.compile("\\033\\\\[[;:\\\\d]*m")', 're.compile(r"\\x1b\\[[0-9;:]*m")')]},
    {"id": "c09-n-horner-cube", "expect": "silent", "edits": [(F, "color = 16 + r * 36 + g * 6 + b", "color = 16 + (r * 6 + g) * 6 + b")]},
    {"id": "c09-n-join-list", "expect": "silent", "edits": [(F, '";".join(c for c in color_codes)', '";".join(color_codes)')]},
    {"id": "c09-n-format-elem", "expect": "silent", "edits": [(F, 'return f"{fg_bg_id}8:5:{color}"', 'return fg_bg_id + "8:5:" + str(color)')]},
    # R09i
    {"id": "c09-no-color-returns-str-before-encoding", "expect": "fire", "edits": [(F, "        color_codes = []\n        if not no_color:\n", "        if no_color:\n            return \"\", \"\"\n        color_codes = []\n        if not no_color:\n")]},
]
