P = "ak/ppobj.py"
MUTANTS = [
    {"id": "c13-reader-no-annotation", "expect": "fire", "edits": [(P, """            i = width_fmt.find('(')
            if i >= 0 and width_fmt.endswith(')'):
                # "3-10(7)": actual width annotation produced by to_fmt_str; ignore it
                width_fmt = width_fmt[:i]
""", "")]},
    {"id": "c13-writer-new-suffix", "expect": "fire", "edits": [(P, '                fmt_str += f"({self.width})"', '                fmt_str += f"[{self.width}]"')]},
    {"id": "c13-writer-dotdot", "expect": "fire", "edits": [(P, 'fmt_str += f":{self.min_width}-{self.max_width}"', 'fmt_str += f":{self.min_width}..{self.max_width}"')]},
    {"id": "c13-writer-swapped", "expect": "fire", "edits": [(P, 'fmt_str += f":{self.min_width}-{self.max_width}"', 'fmt_str += f":{self.max_width}-{self.min_width}"')]},
    {"id": "c13-writer-bang-before-mod", "expect": "fire", "edits": [(P, """        if self.fmt_modifier is not None:
            fmt_str += f"/{self.fmt_modifier}"

        if self.break_by:
            fmt_str += "!"
""", """        if self.break_by:
            fmt_str += "!"

        if self.fmt_modifier is not None:
            fmt_str += f"/{self.fmt_modifier}"
""")]},
    {"id": "c13-writer-drops-mod", "expect": "fire", "edits": [(P, """        if self.fmt_modifier is not None:
            fmt_str += f"/{self.fmt_modifier}"

        if self.break_by:""", """        if self.break_by:""")]},
    {"id": "c13-reader-minmax-swapped", "expect": "fire", "edits": [(P, "                result.min_w, result.max_w = widths", "                result.max_w, result.min_w = widths")]},
    {"id": "c13-reader-fixed-no-max", "expect": "fire", "edits": [(P, "                result.min_w = widths[0]\n                result.max_w = result.min_w", "                result.min_w = widths[0]")]},
    {"id": "c13-ctor-site-swapped", "expect": "fire", "edits": [(P, """                columns.append(ReprColumn(
                    field,
                    c.fmt_modifier, c.break_by,
                    c.min_w, c.max_w))""", """                columns.append(ReprColumn(
                    field,
                    c.fmt_modifier, c.break_by,
                    c.max_w, c.min_w))""")]},
    {"id": "c13-clone-drops-breakby", "expect": "fire", "edits": [(P, """            self.fmt_modifier,
            self.break_by,
            self.min_width,
            self.max_width,
        )""", """            self.fmt_modifier,
            False,
            self.min_width,
            self.max_width,
        )""")]},
    {"id": "c13-table-limits-sep", "expect": "fire", "edits": [(P, 'parts.append(f"{self.limit_flines}:{self.limit_llines}")', 'parts.append(f"{self.limit_flines}-{self.limit_llines}")')]},
    {"id": "c13-table-limits-swapped", "expect": "fire", "edits": [(P, 'parts.append(f"{self.limit_flines}:{self.limit_llines}")', 'parts.append(f"{self.limit_llines}:{self.limit_flines}")')]},
    {"id": "c13-table-section-sep", "expect": "fire", "edits": [(P, '        return ";".join(parts)', '        return "|".join(parts)')]},
    {"id": "c13-table-keeps-trailing", "expect": "silent", "edits": [(P, """        while parts and parts[-1] == "":
            parts.pop()
""", "")], "note": "trailing empty sections are harmless for the reader"},
    {"id": "c13-empty-resets-columns", "expect": "fire", "edits": [(P, """        if parsed_fmt.columns == "" and other is not None:
            # copy columns from the other
            columns = [c.clone() for c in other.columns]
        elif parsed_fmt.columns in ("", "*"):""", """        if parsed_fmt.columns in ("", "*"):""")]},
    {"id": "c13-empty-resets-limits", "expect": "fire", "edits": [(P, """            else:
                self.limit_flines = other.limit_flines
                self.limit_llines = other.limit_llines""", """            else:
                self.set_limits(self._DFLT_LIMIT_LINES)""")]},
    {"id": "c13-star-read-as-none", "expect": "fire", "edits": [(P, """        if fmt_s_lines == "*":
            return (None, None)
""", """        if fmt_s_lines == "*":
            return None
""")]},
    {"id": "c13-cols-sep-semicolon", "expect": "fire", "edits": [(P, '        return ",".join(c.to_fmt_str() for c in self.columns)', '        return ";".join(c.to_fmt_str() for c in self.columns)')]},
    {"id": "c13-n-cols-sep-blank", "expect": "silent", "edits": [(P, '        return ",".join(c.to_fmt_str() for c in self.columns)', '        return ", ".join(c.to_fmt_str() for c in self.columns)')],
     "note": "', ' vs ',': reader strips, so this one is actually harmless -> see expectation below"},
    {"id": "c13-clone-keeps-skipped-flag", "expect": "fire", "edits": [(P, """        return PPTableFormat(
            self.repr_structure.clone(), self.limit_flines, self.limit_llines)

    def remove_columns""", """        result = PPTableFormat(
            self.repr_structure.clone(), self.limit_flines, self.limit_llines)
        result.any_lines_skipped = self.any_lines_skipped
        return result

    def remove_columns""")]},
    # neutral
    {"id": "c13-n-one-fstring", "expect": "silent", "edits": [(P, """        if self.min_width == self.max_width:
            fmt_str += f":{self.min_width}"
        else:
            fmt_str += f":{self.min_width}-{self.max_width}"
            if self.width is not None:
                fmt_str += f"({self.width})"
""", """        if self.min_width == self.max_width:
            fmt_str = fmt_str + ":" + str(self.min_width)
        else:
            fmt_str = f"{fmt_str}:{self.min_width}-{self.max_width}"
            if self.width is not None:
                fmt_str += "(" + str(self.width) + ")"
""")]},
    {"id": "c13-n-reader-partition", "expect": "silent", "edits": [(P, """            i = width_fmt.find('(')
            if i >= 0 and width_fmt.endswith(')'):
                # "3-10(7)": actual width annotation produced by to_fmt_str; ignore it
                width_fmt = width_fmt[:i]
""", """            if width_fmt.endswith(')'):
                width_fmt = width_fmt.split('(')[0]
""")]},
    {"id": "c13-reader-strips-blanks-around-separators", "expect": "fire", "edits": [(P, "from typing import Iterator\n", "import re\nfrom typing import Iterator\n"), (P, "        # 1.1. find field name\n        chunks = [s.strip() for s in fmt.split(\":\")]", "        fmt = re.sub(r\"\\s*(<-|[-/!:()])\\s*\", r\"\\1\", fmt)\n        # 1.1. find field name\n        chunks = [s.strip() for s in fmt.split(\":\")]")]},
    {"id": "c13-reader-lowercases", "expect": "fire", "edits": [(P, "        # 1.1. find field name\n        chunks = [s.strip() for s in fmt.split(\":\")]", "        fmt = fmt.lower()\n        # 1.1. find field name\n        chunks = [s.strip() for s in fmt.split(\":\")]")]},
    {"id": "c13-n-reader-strips-ends", "expect": "silent", "edits": [(P, "        # 1.1. find field name\n        chunks = [s.strip() for s in fmt.split(\":\")]", "        fmt = fmt.strip()\n        # 1.1. find field name\n        chunks = [s.strip() for s in fmt.split(\":\")]")]},
    # R13d, path form: a limits-only fast path that keeps the current format object
    {"id": "c13-set-fmt-limits-only-fast-path", "expect": "fire", "edits": [(P, "        new_fmt_obj = self._ppt_fmt.clone()\n        parsed_fmt = PPTableFormat._parse_fmt(fmt)\n", "        parsed_fmt = PPTableFormat._parse_fmt(fmt)\n        if parsed_fmt.cols_parsed_fmt.columns == \"\":\n            self._ppt_fmt.set_limits(parsed_fmt.vis_lines)\n            return self\n        new_fmt_obj = self._ppt_fmt.clone()\n")],
     "note": "print, then fmt=';1:1', then str(fmt): the lines-skipped flag of the earlier print survives"},
    {"id": "c13-n-set-fmt-parse-first", "expect": "silent", "edits": [(P, "        new_fmt_obj = self._ppt_fmt.clone()\n        parsed_fmt = PPTableFormat._parse_fmt(fmt)\n", "        parsed_fmt = PPTableFormat._parse_fmt(fmt)\n        new_fmt_obj = self._ppt_fmt.clone()\n")]},
]
