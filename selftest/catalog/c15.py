F = "ak/mtd_sql.py"
MUTANTS = [
    {"id": "c15-interpolate-like", "expect": "fire", "edits": [(F, """        elif self.op in ('LIKE', 'NOT LIKE'):
            values_list.append(self.value)
            sql = self.field_name + sql_clauses[self.op]""", """        elif self.op in ('LIKE', 'NOT LIKE'):
            sql = self.field_name + " " + self.op + " '" + self.value + "'\"""")]},
    {"id": "c15-interpolate-int", "expect": "fire", "edits": [(F, """            values_list.append(self.value)
            sql = self.field_name + sql_clauses[self.op]
        elif self.op in ('IN', 'NOT IN'):""", """            if isinstance(self.value, int):
                sql = f"{self.field_name} {self.op} {self.value}"
            else:
                values_list.append(self.value)
                sql = self.field_name + sql_clauses[self.op]
        elif self.op in ('IN', 'NOT IN'):""")]},
    {"id": "c15-drop-append", "expect": "fire", "edits": [(F, """        elif self.op in ('LIKE', 'NOT LIKE'):
            values_list.append(self.value)
""", """        elif self.op in ('LIKE', 'NOT LIKE'):
""")]},
    {"id": "c15-in-literal-list", "expect": "fire", "edits": [(F, """                values_list.extend(self.value)
                sql = (self.field_name + sql_clauses[self.op] + "(" +
                       ", ".join(sql_clauses['PLACEHOLDER'] for _ in self.value)
                       + ")")""", """                sql = (self.field_name + sql_clauses[self.op] + "(" +
                       ", ".join(repr(v) for v in self.value)
                       + ")")""")]},
    {"id": "c15-in-dedup-placeholders", "expect": "fire", "edits": [(F, "for _ in self.value)", "for _ in set(self.value))")]},
    {"id": "c15-sorted-fragments", "expect": "fire", "edits": [(F, """            sql += " WHERE " + " AND ".join(
                f.make_text_update_values(req_params, placeholders_type)
                for f in filters)""", """            sql += " WHERE " + " AND ".join(sorted(
                f.make_text_update_values(req_params, placeholders_type)
                for f in filters))""")]},
    {"id": "c15-reversed-or", "expect": "fire", "edits": [(F, "            for op in self.operands)", "            for op in reversed(self.operands))")]},
    {"id": "c15-table-key-missing", "expect": "fire", "edits": [(F, "            'NOT LIKE': ' NOT LIKE %s',\n", "")]},
    {"id": "c15-table-wrong-op", "expect": "fire", "edits": [(F, "            '>=': ' >= ?',", "            '>=': ' > ?',")]},
    {"id": "c15-table-two-ph", "expect": "fire", "edits": [(F, "            'LIKE': ' LIKE %s',", "            'LIKE': ' LIKE %s ESCAPE %s',")]},
    {"id": "c15-list-only-normalisation", "expect": "fire", "edits": [(F, """            elif isinstance(value, (list, tuple, set)):
                self.op = 'IN' if self.op == '=' else 'NOT IN'""", """            elif isinstance(value, (list, tuple)):
                self.op = 'IN' if self.op == '=' else 'NOT IN'""")]},
    {"id": "c15-null-swapped", "expect": "fire", "edits": [(F, "self.op = 'IS NULL' if self.op == '=' else 'IS NOT NULL'", "self.op = 'IS NOT NULL' if self.op == '=' else 'IS NULL'")]},
    {"id": "c15-empty-in-true", "expect": "fire", "edits": [(F, """sql = "0" if self.op == 'IN' else "1\"""", """sql = "1" if self.op == 'IN' else "0\"""")]},
    {"id": "c15-empty-in-not-special", "expect": "fire", "edits": [(F, "            if self.value:\n                values_list.extend", "            if self.value is not None:\n                values_list.extend")]},
    {"id": "c15-no-parens-or", "expect": "fire", "edits": [(F, '        result = "("\n', '        result = ""\n'), (F, '        result += ")"\n', '        result += ""\n')]},
    {"id": "c15-or-joined-and", "expect": "fire", "edits": [(F, 'result += " OR ".join(', 'result += " AND ".join(')]},
    {"id": "c15-none-not-dropped", "expect": "fire", "edits": [(F, "filters = [SqlFilterCondition.make(x) for x in args if x is not None]", "filters = [SqlFilterCondition.make(x) for x in args if x]")],
     "note": "drops also '' ... and changes which args are filters"},
    {"id": "c15-two-tuple-op", "expect": "fire", "edits": [(F, "            field_name, value = src_obj\n            op = '='", "            field_name, value = src_obj\n            op = 'LIKE'")]},
    {"id": "c15-unsupported-op-passes", "expect": "fire", "edits": [(F, """        else:
            raise ValueError(
                f"unsupported sql operation '{self.op}'. Supported operations "
                f"are: {self.SUPPORTED_OPS}")""", """        else:
            pass""")]},
    {"id": "c15-like-nonstr-ok", "expect": "fire", "edits": [(F, "            if not isinstance(value, str):\n                raise ValueError(", "            if value is None:\n                raise ValueError(")]},
    {"id": "c15-second-execute", "expect": "fire", "edits": [(F, "    def _init_record_type(self, cur):\n", "    def _count(self, conn, where):\n        cur = conn.cursor()\n        cur.execute(self.sql_select_from + ' WHERE ' + where)\n        return cur.fetchall()\n\n    def _init_record_type(self, cur):\n")]},
    {"id": "c15-value-stringified", "expect": "fire", "edits": [(F, "        self.value = value\n", "        self.value = str(value) if isinstance(value, bool) else value\n")]},
    {"id": "c15-kwargs-in-text", "expect": "fire", "edits": [(F, """        if kwargs:
            args = list(args)
            args.extend(sorted(kwargs.items()))

        filters = [""", """        extra = ""
        if kwargs:
            extra = " AND ".join(f"{k} = '{v}'" for k, v in sorted(kwargs.items()))
            kwargs = {}

        filters = ["""), (F, """        if self.group_by:
            sql += " GROUP BY " + self.group_by""", """        if extra:
            sql += (" AND " if filters else " WHERE ") + extra
        if self.group_by:
            sql += " GROUP BY " + self.group_by""")]},
    {"id": "c15-order-before-where", "expect": "fire", "edits": [(F, """        if self.group_by:
            sql += " GROUP BY " + self.group_by
        if order_by_clause is not None:
            sql += " ORDER BY " + order_by_clause
""", """        if order_by_clause is not None:
            sql += " ORDER BY " + order_by_clause
        if self.group_by:
            sql += " GROUP BY " + self.group_by
""")]},
    # neutral
    {"id": "c15-n-rename", "expect": "silent", "edits": [(F, "req_params", "bound_values", 5)]},
    {"id": "c15-n-merge-branches", "expect": "silent", "edits": [(F, """        elif self.op in ('=', '!=', '>', '<', '>=', '<='):
            values_list.append(self.value)
            sql = self.field_name + sql_clauses[self.op]
        elif self.op in ('IN', 'NOT IN'):""", """        elif self.op in ('=', '!=', '>', '<', '>=', '<=', 'LIKE', 'NOT LIKE'):
            values_list.append(self.value)
            sql = self.field_name + sql_clauses[self.op]
        elif self.op in ('IN', 'NOT IN'):""")]},
    {"id": "c15-n-listcomp-join", "expect": "silent", "edits": [(F, """", ".join(sql_clauses['PLACEHOLDER'] for _ in self.value)""", """", ".join([sql_clauses['PLACEHOLDER'] for _ in self.value])""")]},
    {"id": "c15-n-debug-log", "expect": "silent", "edits": [(F, "        sql_clauses = self._SQL_CLAUSES[placeholders_type]\n", "        sql_clauses = self._SQL_CLAUSES[placeholders_type]\n        logger.debug('condition %s %s %r', self.field_name, self.op, self.value)\n")]},
    {"id": "c15-value-becomes-operator", "expect": "fire", "edits": [(F, "            field_name, value = src_obj\n            op = '='\n", "            field_name, value = src_obj\n            op = '='\n            if isinstance(value, str) and value.upper() in ('IS NULL', 'IS NOT NULL'):\n                op, value = value, None\n")]},
    {"id": "c15-n-factory-op-constant-first", "expect": "silent", "edits": [(F, "            field_name, value = src_obj\n            op = '='\n", "            op = '='\n            field_name, value = src_obj\n")]},
    # sources of the conditions (R15f by following the sequence)
    {"id": 'c15-n-sources-one-expression', "expect": 'silent', "edits": [(F, '        # convert remaining kwargs to conditions\n        if kwargs:\n            args = list(args)\n            args.extend(sorted(kwargs.items()))\n\n        filters = [SqlFilterCondition.make(x) for x in args if x is not None]\n', '        filters = [SqlFilterCondition.make(x) for x in list(args) + sorted(kwargs.items()) if x is not None]\n')]},
    {"id": 'c15-sources-kwargs-dropped', "expect": 'fire', "edits": [(F, '        # convert remaining kwargs to conditions\n        if kwargs:\n            args = list(args)\n            args.extend(sorted(kwargs.items()))\n\n        filters = [SqlFilterCondition.make(x) for x in args if x is not None]\n', '        filters = [SqlFilterCondition.make(x) for x in list(args) if x is not None]\n')]},
    {"id": 'c15-sources-kwargs-twice', "expect": 'fire', "edits": [(F, '        # convert remaining kwargs to conditions\n        if kwargs:\n            args = list(args)\n            args.extend(sorted(kwargs.items()))\n\n        filters = [SqlFilterCondition.make(x) for x in args if x is not None]\n', '        args = list(args) + sorted(kwargs.items())\n        filters = [SqlFilterCondition.make(x) for x in args + sorted(kwargs.items()) if x is not None]\n')]},
    {"id": 'c15-none-filter-truthiness', "expect": 'fire', "edits": [(F, '        # convert remaining kwargs to conditions\n        if kwargs:\n            args = list(args)\n            args.extend(sorted(kwargs.items()))\n\n        filters = [SqlFilterCondition.make(x) for x in args if x is not None]\n', '        if kwargs:\n            args = list(args)\n            args.extend(sorted(kwargs.items()))\n\n        filters = [SqlFilterCondition.make(x) for x in args if x]\n')]},
]
