L = "ak/llparser.py"
MUTANTS = [
    {"id": "c02-follow-sibling-edge", "expect": "fire", "edits": [(L, """                            follow_sets[cur_symbol].update(first_sets[next_symbol])
                        if next_symbol not in nullables:""", """                            follow_sets[cur_symbol].update(first_sets[next_symbol])
                            if next_symbol in nullables:
                                follows_deps[cur_symbol].add(next_symbol)
                        if next_symbol not in nullables:""")]},
    {"id": "c02-follow-no-break", "expect": "fire", "edits": [(L, """                        if next_symbol not in nullables:
                            break
                    else:
                        # all the symbols after cur_symbol are nullable""", """                    else:
                        # all the symbols after cur_symbol are nullable""")]},
    {"id": "c02-follow-missing-tail-dep", "expect": "fire", "edits": [(L, "                        follows_deps[cur_symbol].add(non_term)\n", "                        pass\n")]},
    {"id": "c02-follow-dep-reversed", "expect": "fire", "edits": [(L, "                        follows_deps[cur_symbol].add(non_term)\n", "                        follows_deps[non_term].add(cur_symbol)\n")]},
    {"id": "c02-follow-only-next", "expect": "fire", "edits": [(L, "                    for next_symbol in prod_r.production[i+1:]:", "                    for next_symbol in prod_r.production[i+1:i+2]:")]},
    {"id": "c02-follow-no-end-seed", "expect": "fire", "edits": [(L, "        follow_sets[start_symbol_name].add(cls._END_TOKEN_NAME)\n", "")]},
    {"id": "c02-follow-closure-once", "expect": "fire", "edits": [(L, "            if not sets_updated:\n                break\n\n        return follow_sets", "            break\n\n        return follow_sets")]},
    {"id": "c02-first-no-nullable-stop", "expect": "fire", "edits": [(L, """                            fsets_updated |= len(cur_fset) != orig_size
                        if symbol not in nullables:
                            break""", """                            fsets_updated |= len(cur_fset) != orig_size
                            if symbol not in nullables:
                                break""")], "note": "terminals no longer stop the walk"},
    {"id": "c02-first-stop-always", "expect": "fire", "edits": [(L, """                            fsets_updated |= len(cur_fset) != orig_size
                        if symbol not in nullables:
                            break""", """                            fsets_updated |= len(cur_fset) != orig_size
                        break""")], "note": "nullable prefixes are not looked through -> FIRST too small (sound w1, but table misses entries)"},
    {"id": "c02-first-once", "expect": "fire", "edits": [(L, "            if not fsets_updated:\n                break\n\n        return fsets", "            break\n\n        return fsets")]},
    {"id": "c02-table-follow-of-symbol", "expect": "fire", "edits": [(L, "                    start_symbols |= follow_sets[non_term]", "                    start_symbols |= follow_sets[symbol]")]},
    {"id": "c02-table-no-break-terminal", "expect": "fire", "edits": [(L, """                    if symbol in terminals:
                        start_symbols.add(symbol)
                        break""", """                    if symbol in terminals:
                        start_symbols.add(symbol)
                        continue""")]},
    {"id": "c02-table-unsorted", "expect": "fire", "edits": [(L, "        for prod_rs in parse_table.values():\n            prod_rs.sort(key=lambda r: r.sort_n)\n", "")]},
    {"id": "c02-table-reverse-sort", "expect": "fire", "edits": [(L, "            prod_rs.sort(key=lambda r: r.sort_n)", "            prod_rs.sort(key=lambda r: r.sort_n, reverse=True)")]},
    {"id": "c02-nullable-any-symbol", "expect": "fire", "edits": [(L, "                    all(s in cur_set for s in prod_r.production)", "                    any(s in cur_set for s in prod_r.production)")]},
    {"id": "c02-nullable-one-round", "expect": "fire", "edits": [(L, "        while len(cur_set) != len(next_set):", "        for _ in range(2):")]},
    {"id": "c02-lookup-key-swapped", "expect": "fire", "edits": [(L, "prods = self.parse_table.get((cur_symbol, next_token.name))", "prods = self.parse_table.get((next_token.name, cur_symbol))")]},
    {"id": "c02-ambiguous-gt2", "expect": "fire", "edits": [(L, "return any(len(prods) != 1 for prods in self.parse_table.values())", "return any(len(prods) > 2 for prods in self.parse_table.values())")]},
    {"id": "c02-subscript-lookup", "expect": "fire", "edits": [(L, "                prods = self.parse_table.get((cur_symbol, next_token.name))\n                if prods is not None:", "                prods = self.parse_table[cur_symbol, next_token.name]\n                if prods:")]},
    # neutral
    {"id": "c02-n-ior", "expect": "silent", "edits": [(L, "                            follow_sets[cur_symbol].update(first_sets[next_symbol])", "                            follow_sets[cur_symbol] |= first_sets[next_symbol]")]},
    {"id": "c02-n-table-update", "expect": "silent", "edits": [(L, "                    start_symbols |= first_sets[symbol]", "                    start_symbols.update(first_sets[symbol])")]},
    {"id": "c02-n-rename", "expect": "silent", "edits": [(L, "next_symbol", "following", 8)]},
    {"id": "c02-prefix-of-last-pair", "expect": "fire", "edits": [(L, """        max_len = min(len(r.production) for r in prods_chunk)
        common_prefix = list(prods_chunk[0].production[:max_len])
        for prod_rule in prods_chunk[1:]:
            for i, (s1, s2) in enumerate(zip(common_prefix, prod_rule.production)):
                if s1 != s2:
                    common_prefix = common_prefix[:i]
                    break
""", """        common_prefix = prods_chunk[0].production
        for prev_rule, prod_rule in zip(prods_chunk, prods_chunk[1:]):
            common_len = 0
            for s1, s2 in zip(prev_rule.production, prod_rule.production):
                if s1 != s2:
                    break
                common_len += 1
            common_prefix = prod_rule.production[:common_len]
        common_prefix = list(common_prefix)
""")]},
    {"id": "c02-n-prefix-loop-whole-chunk", "expect": "silent", "edits": [(L, "        for prod_rule in prods_chunk[1:]:\n            for i, (s1, s2) in enumerate(zip(common_prefix, prod_rule.production)):", "        for prod_rule in prods_chunk:\n            for i, (s1, s2) in enumerate(zip(common_prefix, prod_rule.production)):")]},
]
