F = "ak/conn_http.py"
M = "ak/mcaller_http.py"
MUTANTS = [
    {"id": "c17-clone-inverted", "expect": "fire", "edits": [(M, "        elif not isinstance(http_conn_adapters, (list, tuple)):", "        elif isinstance(http_conn_adapters, (list, tuple)):")]},
    {"id": "c17-base-inverted", "expect": "fire", "edits": [(F, "        if not isinstance(adapters, (list, tuple)):\n            # 'adapters' is not", "        if isinstance(adapters, (list, tuple)):\n            # 'adapters' is not")]},
    {"id": "c17-base-always-wrap", "expect": "fire", "edits": [(F, "        if not isinstance(adapters, (list, tuple)):\n            # 'adapters' is not a list, but a single adapter. Make it a list\n            adapters = [adapters, ]", "        adapters = [adapters, ]")]},
    {"id": "c17-headers-not-copied", "expect": "fire", "edits": [(F, "self.headers = headers.copy() if headers else {}", "self.headers = headers if headers else {}")]},
    {"id": "c17-headers-mutated-before-copy", "expect": "fire", "edits": [(F, "        # 1. use adapters to pre-process arguments\n", "        if headers is not None:\n            headers.setdefault('Accept', 'application/json')\n        # 1. use adapters to pre-process arguments\n")]},
    {"id": "c17-params-mutated", "expect": "fire", "edits": [(F, "        if params:\n            path += \"?\" + urlencode(params)", "        if params:\n            params['_'] = '1'\n            path += \"?\" + urlencode(params)")]},
    {"id": "c17-adapters-aliased", "expect": "fire", "edits": [(F, "        self.adapters = self.own_adapters + self.parent_conn.adapters\n", "        self.adapters = self.parent_conn.adapters\n        self.adapters.extend(self.own_adapters)\n")]},
    {"id": "c17-add-adapter-own", "expect": "fire", "edits": [(F, "        self.adapters.append(adapter)\n        self.descr = None", "        self.own_adapters.append(adapter)\n        self.adapters.append(adapter)\n        self.descr = None")]},
    {"id": "c17-parent-first", "expect": "fire", "edits": [(F, "self.adapters = self.own_adapters + self.parent_conn.adapters", "self.adapters = self.parent_conn.adapters + self.own_adapters")]},
    {"id": "c17-response-forward", "expect": "fire", "edits": [(F, "        for adapter in adapters[::-1]:\n            ret_val", "        for adapter in adapters:\n            ret_val")]},
    {"id": "c17-auth-no-assert", "expect": "fire", "edits": [(F, """            assert 'Authorization' not in req_args.headers
            req_args.headers['Authorization'] = self.header""", """            req_args.headers['Authorization'] = self.header""")]},
    {"id": "c17-auth-key-case", "expect": "fire", "edits": [(F, """            assert 'Authorization' not in req_args.headers
            req_args.headers['Authorization'] = self.header""", """            assert 'authorization' not in req_args.headers
            req_args.headers['Authorization'] = self.header""")]},
    {"id": "c17-basic-swapped", "expect": "fire", "edits": [(F, 'f"{client_id}:{client_secret}".encode(\'utf-8\'))', 'f"{client_secret}:{client_id}".encode(\'utf-8\'))')]},
    {"id": "c17-basic-sep", "expect": "fire", "edits": [(F, 'f"{login}:{password}".encode(\'utf-8\'))', 'f"{login};{password}".encode(\'utf-8\'))')]},
    {"id": "c17-auth-type-none", "expect": "fire", "edits": [(F, '        AUTH_TYPE = "client"\n', '        AUTH_TYPE = None\n')]},
    {"id": "c17-class-level-cache", "expect": "fire", "edits": [(M, "    _HTTP_PREFIX_MAP = {}  # {component: http_prefix}\n", "    _HTTP_PREFIX_MAP = {}  # {component: http_prefix}\n    _mc_conns_by_prefix = {}\n"), (M, "        self._mc_conns_by_prefix = {}\n", "")]},
    {"id": "c17-clone-mutates-self", "expect": "fire", "edits": [(M, """        cloned_http_conn = conn_http.HttpConn(
            self.http_conn, adapters=http_conn_adapters)
        return type(self)(cloned_http_conn)""", """        for a in http_conn_adapters:
            self.http_conn.add_adapter(a)
        return type(self)(self.http_conn)""")]},
    {"id": "c17-cache-wrong-key", "expect": "fire", "edits": [(M, "                conns_by_prefix[prefix] = conn", "                conns_by_prefix[component] = conn")]},
    {"id": "c17-request-data-swapped", "expect": "fire", "edits": [(F, "            data=req_data,\n            method=method,\n            headers=headers)", "            data=req_data,\n            method=method,\n            headers=req_args.params or {})")]},
    {"id": "c17-verb-put-as-post", "expect": "fire", "edits": [(F, 'self.adapters, path, "PUT", params, data, headers, raw_response)', 'self.adapters, path, "POST", params, data, headers, raw_response)')]},
    {"id": "c17-prefix-appended", "expect": "fire", "edits": [(F, "        req_args.path = self.prefix + suffix_path", "        req_args.path = suffix_path + self.prefix")]},
    {"id": "c17-authtypes-wrap", "expect": "fire", "edits": [(M, "        if auth_types is None or isinstance(auth_types, str):\n            self.auth_types = [auth_types, ]", "        if auth_types is None or not isinstance(auth_types, str):\n            self.auth_types = [auth_types, ]")]},
    {"id": "c17-str-body-jsoned", "expect": "fire", "edits": [(F, "            if isinstance(data, str):\n                str_data = data\n            else:", "            if isinstance(data, str) and not data.startswith('{'):\n                str_data = data\n            else:")]},
    {"id": "c17-body-latin1", "expect": "fire", "edits": [(F, "            req_data = str_data.encode(encoding='utf-8')", "            req_data = str_data.encode(encoding='latin-1', errors='replace')")]},
    {"id": "c17-content-type-overrides", "expect": "fire", "edits": [(F, "                if 'Content-Type' not in headers:\n                    headers['Content-Type'] = 'application/json'", "                headers['Content-Type'] = 'application/json'")]},
    {"id": "c17-empty-body-dropped", "expect": "fire", "edits": [(F, "        if data is None:\n            req_data = None", "        if not data:\n            req_data = None")], "note": "b'' / '' / {} / [] / 0 bodies are not sent"},
    # neutral
    {"id": "c17-n-star-list", "expect": "silent", "edits": [(F, "self.adapters = self.own_adapters + self.parent_conn.adapters", "self.adapters = [*self.own_adapters, *self.parent_conn.adapters]")]},
    {"id": "c17-n-dict-copy", "expect": "silent", "edits": [(F, "self.headers = headers.copy() if headers else {}", "self.headers = dict(headers) if headers else {}")]},
    {"id": "c17-n-reversed", "expect": "silent", "edits": [(F, "        for adapter in adapters[::-1]:\n            ret_val", "        for adapter in reversed(adapters):\n            ret_val")]},
    {"id": "c17-n-clone-positive-test", "expect": "silent", "edits": [(M, """        if http_conn_adapters is None:
            http_conn_adapters = []
        elif not isinstance(http_conn_adapters, (list, tuple)):
            # it's a single adapter
            http_conn_adapters = [http_conn_adapters]
""", """        if http_conn_adapters is None:
            http_conn_adapters = []
        elif isinstance(http_conn_adapters, (list, tuple)):
            pass
        else:
            # it's a single adapter
            http_conn_adapters = [http_conn_adapters]
""")]},
]
