L = "ak/llparser.py"
MUTANTS = [
    {"id": "c01-no-register-helper", "expect": "fire", "edits": [(L, "        assert grp_symbol_suffix not in suffix_symbols\n        suffix_symbols.add(grp_symbol_suffix)\n", "")]},
    {"id": "c01-register-conditionally", "expect": "fire", "edits": [(L, "        suffix_symbols.add(grp_symbol_suffix)\n", "        if len(prods_chunk) > 2:\n            suffix_symbols.add(grp_symbol_suffix)\n")]},
    {"id": "c01-helper-not-last", "expect": "fire", "edits": [(L, "            tuple(list(common_prefix) + [grp_symbol_suffix]),", "            tuple([grp_symbol_suffix] + list(common_prefix)),")]},
    {"id": "c01-remove-unpaired", "expect": "fire", "edits": [(L, "                del result_rules[s]\n                suffix_symbols.remove(s)", "                del result_rules[s]")]},
    {"id": "c01-n-splice-extra-harmless-conjunct", "expect": "silent", "edits": [(L, """                if (len(cur_prod.production) > 0
                    and cur_prod.production[-1] in self._suffix_symbols
                ):""", """                if (len(cur_prod.production) > 0
                    and len(parse_stack) > 1
                    and cur_prod.production[-1] in self._suffix_symbols
                ):""")], "note": "extra condition is harmless for $START$ only; but our rule looks for the test being evaluated: still passes -> expect silent? the condition changes when the splice runs"},
    {"id": "c01-splice-after-handover", "expect": "fire", "edits": [(L, """                if (len(cur_prod.production) > 0
                    and cur_prod.production[-1] in self._suffix_symbols
                ):
                    # this production corresponds to a factorized group
                    # X -> (..common prefix.., X_Sxx)
                    # It's time to merge suffix contents into self
                    suffix_elem = t_elem.value.pop()
                    if suffix_elem.value is not None:
                        t_elem.value.extend(suffix_elem.value)

                new_token_pos = top.cur_token_pos
                parse_stack.pop()
""", """                new_token_pos = top.cur_token_pos
                parse_stack.pop()
                if parse_stack and len(new_elem_value or []) == 1:
                    parse_stack[-1].next_matched(t_elem, new_token_pos)
                    continue

                if (len(cur_prod.production) > 0
                    and cur_prod.production[-1] in self._suffix_symbols
                ):
                    suffix_elem = t_elem.value.pop()
                    if suffix_elem.value is not None:
                        t_elem.value.extend(suffix_elem.value)
""")]},
    {"id": "c01-splice-no-extend", "expect": "fire", "edits": [(L, "                    if suffix_elem.value is not None:\n                        t_elem.value.extend(suffix_elem.value)\n", "")]},
    {"id": "c01-switch-keeps-values", "expect": "fire", "edits": [(L, "    def switch_to_next_prod(self):\n        self.values = []\n", "    def switch_to_next_prod(self):\n")]},
    {"id": "c01-switch-keeps-cursor", "expect": "fire", "edits": [(L, "        self.cur_token_pos = self.start_token_pos\n        self.cur_prod_id += 1", "        self.cur_prod_id += 1")]},
    {"id": "c01-clone-shares-values", "expect": "fire", "edits": [(L, "        clone.values = self.values[:]", "        clone.values = self.values")]},
    {"id": "c01-extra-token-filter", "expect": "fire", "edits": [(L, "            if t.name not in self.skip_tokens\n        ]", "            if t.name not in self.skip_tokens and t.value != ''\n        ]")]},
    {"id": "c01-leaf-any-terminal", "expect": "fire", "edits": [(L, "                if next_token.name == cur_symbol:\n                    top.next_matched(", "                if next_token.name in self.terminals:\n                    top.next_matched(")]},
    {"id": "c01-cursor-plus-two", "expect": "fire", "edits": [(L, "                        top.cur_token_pos+1)", "                        top.cur_token_pos+2)")]},
    {"id": "c01-root-whole-start-node", "expect": "fire", "edits": [(L, "                    root = t_elem.value[0]", "                    root = t_elem")]},
    {"id": "c01-user-double-underscore-ok", "expect": "fire", "edits": [(L, """                assert '__' not in symbol, (
                    f"Invalid production symbol '{symbol}'. Symbol names containing "
                    f"'__' are reserved")
""", "")]},
    {"id": "c01-undo-marks-before-merge", "expect": "fire", "edits": [(L, """                    for suffix_rule in suffix_productions:
                        new_rules.append(
                            tuple([first_symbol] + list(suffix_rule.production))
                        )
                    suffixes_to_remove.add(last_symbol)""", """                    suffixes_to_remove.add(last_symbol)
                    for suffix_rule in suffix_productions[:5]:
                        new_rules.append(
                            tuple([first_symbol] + list(suffix_rule.production))
                        )""")]},
    # neutral
    {"id": "c01-n-reorder-resets", "expect": "silent", "edits": [(L, "        self.values = []\n        self.cur_token_pos = self.start_token_pos\n        self.cur_prod_id += 1", "        self.cur_prod_id += 1\n        self.cur_token_pos = self.start_token_pos\n        self.values = []")]},
    {"id": "c01-n-values-copy", "expect": "silent", "edits": [(L, "        clone.values = self.values[:]", "        clone.values = list(self.values)")]},
    {"id": "c01-prefix-of-last-pair", "expect": "fire", "edits": [(L, """        max_len = min(len(r.production) for r in prods_chunk)
        common_prefix = list(prods_chunk[0].production[:max_len])
        for prod_rule in prods_chunk[1:]:
            for i, (s1, s2) in enumerate(zip(common_prefix, prod_rule.production)):
                if s1 != s2:
                    common_prefix = common_prefix[:i]
                    break
""", """        common_prefix = prods_chunk[0].production
        for prev_rule, prod_rule in zip(prods_chunk, prods_chunk[1:]):
            common_len = 0
            for s1, s2 in zip(prev_rule.production, prod_rule.production):
                if s1 != s2:
                    break
                common_len += 1
            common_prefix = prod_rule.production[:common_len]
        common_prefix = list(common_prefix)
""")]},
    {"id": "c01-n-prefix-loop-whole-chunk", "expect": "silent", "edits": [(L, "        for prod_rule in prods_chunk[1:]:\n            for i, (s1, s2) in enumerate(zip(common_prefix, prod_rule.production)):", "        for prod_rule in prods_chunk:\n            for i, (s1, s2) in enumerate(zip(common_prefix, prod_rule.production)):")]},
]

# ---- the splice decided by a flag carried on ProdRule instead of a look-up in the suffix set (refactoring of seeds s15/s33)
_FLAG = [
    (L, "    __slots__ = 'symbol', 'production', 'sort_n'\n\n    def __init__(self, symbol, production, sort_n):\n        self.symbol = symbol\n        self.production = production\n        self.sort_n = sort_n\n",
        "    __slots__ = 'symbol', 'production', 'sort_n', 'has_suffix'\n\n    def __init__(self, symbol, production, sort_n, has_suffix=False):\n        self.symbol = symbol\n        self.production = production\n        self.sort_n = sort_n\n        self.has_suffix = has_suffix\n"),
    (L, "                if (len(cur_prod.production) > 0\n                    and cur_prod.production[-1] in self._suffix_symbols\n                ):", "                if cur_prod.has_suffix:"),
    (L, "            tuple(list(common_prefix) + [grp_symbol_suffix]),\n            prods_chunk[0].sort_n)", "            tuple(list(common_prefix) + [grp_symbol_suffix]),\n            prods_chunk[0].sort_n,\n            has_suffix=True)"),
]
_FLAG_COPY = (L, "                            final_new_rules.append(ProdRule(symbol, r.production, i))", "                            final_new_rules.append(ProdRule(symbol, r.production, i, r.has_suffix))")
_FLAG_MERGE_OK = (L, "                        new_rules.append(\n                            tuple([first_symbol] + list(suffix_rule.production))\n                        )",
                  "                        new_rules.append(ProdRule(\n                            symbol,\n                            tuple([first_symbol] + list(suffix_rule.production)),\n                            0, suffix_rule.has_suffix))")
MUTANTS += [
    {"id": "c01-flag-lost-on-merged-suffix", "expect": "fire", "edits": _FLAG + [_FLAG_COPY]},
    {"id": "c01-flag-lost-on-copy", "expect": "fire", "edits": _FLAG + [_FLAG_MERGE_OK]},
    {"id": "c01-flag-never-set", "expect": "fire", "edits": _FLAG[:2] + [_FLAG_COPY, _FLAG_MERGE_OK]},
    {"id": "c01-flag-set-on-user-production", "expect": "fire", "edits": _FLAG + [_FLAG_COPY, _FLAG_MERGE_OK, (L, "                result.append(ProdRule(symbol, production, next(sort_n_gen)))", "                result.append(ProdRule(symbol, production, next(sort_n_gen), True))")]},
    {"id": "c01-n-flag-carried-everywhere", "expect": "silent", "edits": _FLAG + [_FLAG_COPY, _FLAG_MERGE_OK]},
]
