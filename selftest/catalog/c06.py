G = "ak/ghist.py"
U = "ak/utils.py"
MUTANTS = [
    {"id": "c06-int-above-str", "expect": "fire", "edits": [(G, "            if is_int_0:  # other is not int\n                return -1  # string is always bigger", "            if is_int_0:  # other is not int\n                return 1  # string is always bigger")]},
    {"id": "c06-asymmetric", "expect": "fire", "edits": [(G, "            if is_int_1:  # self must be not int\n                return 1\n            # both are strings", "            if is_int_1:  # self must be not int\n                return -1\n            # both are strings")]},
    {"id": "c06-str-lt-missing", "expect": "fire", "edits": [(G, "            if item_0 < item_1:\n                return -1\n            return 0", "            return 0")]},
    {"id": "c06-int-diff-reversed", "expect": "fire", "edits": [(G, "                return item_0 - item_1\n            if is_int_0:  # other is not int\n                return -1  # string", "                return item_1 - item_0\n            if is_int_0:  # other is not int\n                return -1  # string")]},
    {"id": "c06-first-item-only", "expect": "fire", "edits": [(G, "            if result != 0:\n                return result\n\n        return len(self._sort_items) - len(other._sort_items)", "            return result\n\n        return len(self._sort_items) - len(other._sort_items)")]},
    {"id": "c06-lt-uses-le", "expect": "fire", "edits": [(U, "    def __lt__(self, other):\n        return self.cmp(other) < 0", "    def __lt__(self, other):\n        return self.cmp(other) <= 0")]},
    {"id": "c06-master-no-prefix", "expect": "fire", "edits": [(G, 'bn = BranchName(ref.name, sort_prefix=["zzzzzzzzzzzzzz", ])', 'bn = BranchName(ref.name)')]},
    {"id": "c06-master-int-prefix", "expect": "fire", "edits": [(G, 'bn = BranchName(ref.name, sort_prefix=["zzzzzzzzzzzzzz", ])', 'bn = BranchName(ref.name, sort_prefix=[999999, ])')]},
    {"id": "c06-sort-by-name-string", "expect": "fire", "edits": [(G, "branches_data.sort(key=lambda item: item[2])", "branches_data.sort(key=lambda item: item[1])")]},
    {"id": "c06-prefix-appended", "expect": "fire", "edits": [(G, "self._sort_items = sort_prefix + self._sort_items", "self._sort_items = self._sort_items + sort_prefix")]},
    {"id": "c06-list-all-commits", "expect": "fire", "edits": [(G, "            for rcommit in sorted(self.rcommits.values(), key=lambda c: -c.iid)\n            if rcommit.is_explicit]", "            for rcommit in sorted(self.rcommits.values(), key=lambda c: -c.iid)]")]},
    {"id": "c06-formatter-raw-commits", "expect": "fire", "edits": [(G, "        for rc in rbuild.get_printable_rcommits():", "        for rc in rbuild.rcommits.values():")]},
    {"id": "c06-not-merged-all", "expect": "fire", "edits": [(G, "            if rcommit.is_explicit\n            and iid not in all_commits_in_this_branch", "            if iid not in all_commits_in_this_branch")]},
    {"id": "c06-predicate-first-line", "expect": "fire", "edits": [(G, "        search_predicate = lambda commit: search_text in commit.message\n", "        search_predicate = lambda commit: search_text.lower() in commit.message\n")]},
    {"id": "c06-explicit-from-parent", "expect": "fire", "edits": [(G, "                cur_commit, search_predicate(cur_commit),", "                cur_commit, search_predicate(cur_commit) or prev_accumdat.selected_explicitely,")]},
    # neutral
    {"id": "c06-n-cmp-style", "expect": "silent", "edits": [(G, "            if item_0 > item_1:\n                return 1\n            if item_0 < item_1:\n                return -1\n            return 0", "            if item_0 == item_1:\n                return 0\n            return 1 if item_0 > item_1 else -1")]},
    {"id": "c06-cached-list-aliased", "expect": "fire", "edits": [(G, """                for rc in repo_cache.visited_commits[comm_hex]:
                    if rc not in prev_accumdat.rc_parents:
                        prev_accumdat.rc_parents.append(rc)""", """                if not prev_accumdat.rc_parents:
                    prev_accumdat.rc_parents = repo_cache.visited_commits[comm_hex]
                else:
                    for rc in repo_cache.visited_commits[comm_hex]:
                        if rc not in prev_accumdat.rc_parents:
                            prev_accumdat.rc_parents.append(rc)""")]},
    {"id": "c06-cache-written-while-live", "expect": "fire", "edits": [(G, "            dfs_accumdata.append(new_accumdat)\n", "            dfs_accumdata.append(new_accumdat)\n            repo_cache.visited_commits.pop(comm_hex, None)\n")]},
    {"id": "c06-n-cached-list-copied", "expect": "silent", "edits": [(G, """                for rc in repo_cache.visited_commits[comm_hex]:
                    if rc not in prev_accumdat.rc_parents:
                        prev_accumdat.rc_parents.append(rc)""", """                if not prev_accumdat.rc_parents:
                    prev_accumdat.rc_parents = list(repo_cache.visited_commits[comm_hex])
                else:
                    for rc in repo_cache.visited_commits[comm_hex]:
                        if rc not in prev_accumdat.rc_parents:
                            prev_accumdat.rc_parents.append(rc)""")]},
    {"id": "c06-not-merged-ignores-head-reach", "expect": "fire", "edits": [(G, "            and iid not in all_commits_in_this_branch\n            and iid not in reachable_from_head\n", "            and iid not in all_commits_in_this_branch\n")]},
    {"id": "c06-not-merged-direct-parents-only", "expect": "fire", "edits": [(G, "                reachable_from_head.add(rc.iid)\n                rc_stack.extend(rc.parents)\n", "                reachable_from_head.add(rc.iid)\n")]},
    {"id": "c06-n-reach-set-renamed", "expect": "silent", "edits": [(G, "reachable_from_head", "head_closure", 4)]},
    # R06f: candidates of 'not merged'
    {"id": "c06-candidates-only-listed", "expect": "fire", "edits": [(G, '        if prev_branch is not None:\n            # the head of the previous branch may belong to one of the even\n            # earlier branches. Commits reachable from it are not included\n            # into builds of the previous branch, but still are candidates\n            visited = set()\n            rc_stack = list(prev_branch.rheads)\n            while rc_stack:\n                rc = rc_stack.pop()\n                if rc.iid not in visited:\n                    visited.add(rc.iid)\n                    all_commits_prev_branch.setdefault(rc.iid, rc)\n                    rc_stack.extend(rc.parents)\n', "")], "note": "the state before fix 99d09f0"},
    {"id": "c06-candidates-closure-from-this-head", "expect": "fire", "edits": [(G, "            rc_stack = list(prev_branch.rheads)\n", "            rc_stack = list(result_accumdata.rc_parents)\n")]},
]
