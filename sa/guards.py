"""Must-facts at a program point, syntax-directed.

facts(node) returns the list of (test expression, polarity) that hold on every
path from the entry of the enclosing function to `node`:

* tests of enclosing `if` / `while` / conditional expressions / comprehension
  filters / short-circuit operands (with the polarity of the branch);
* `assert T` executed earlier in an enclosing block;
* early exits: an earlier sibling `if T: ...` whose body always leaves the
  block (return / raise / continue / break) and has no else gives `not T`.

A fact is dropped when one of the names it mentions may be re-bound between
the test and the node (conservative: any binding in the statements in
between).  Conjunctions are split: `if a and b:` gives both facts on the true
branch; `if a or b:` gives both negated facts on the false branch.
"""
import ast

from .core import FUNC, parent, names_in, assigned_names, norm, dotted
from .core import clone as _clone


def always_leaves(stmts):
    """Every path through the statement list ends in return/raise/continue/break."""
    if not stmts:
        return False
    last = stmts[-1]
    if isinstance(last, (ast.Return, ast.Raise, ast.Continue, ast.Break)):
        return True
    if isinstance(last, ast.Assert) and isinstance(last.test, ast.Constant) and not last.test.value:
        return True
    if isinstance(last, ast.If):
        return always_leaves(last.body) and always_leaves(last.orelse)
    if isinstance(last, ast.With):
        return always_leaves(last.body)
    if isinstance(last, ast.Try):
        if last.finalbody and always_leaves(last.finalbody):
            return True
        return (always_leaves(last.body) or (last.orelse and always_leaves(last.orelse))) and all(always_leaves(h.body) for h in last.handlers)
    return False


def split(test, pol):
    """Split a test under a polarity into atomic (expr, polarity) facts."""
    if isinstance(test, ast.UnaryOp) and isinstance(test.op, ast.Not):
        return split(test.operand, not pol)
    if isinstance(test, ast.BoolOp):
        if isinstance(test.op, ast.And) and pol:
            return [f for v in test.values for f in split(v, True)]
        if isinstance(test.op, ast.Or) and not pol:
            return [f for v in test.values for f in split(v, False)]
        return [(test, pol)]
    if isinstance(test, ast.Compare) and len(test.ops) > 1 and pol:
        # a <= b <= c  holds  ==  a <= b and b <= c
        out = []
        left = test.left
        for op, right in zip(test.ops, test.comparators):
            c = ast.Compare(left=left, ops=[op], comparators=[right])
            ast.copy_location(c, test)
            c._parent = getattr(test, "_parent", None)
            out.append((c, True))
            left = right
        return out
    return [(test, pol)]


MUTATORS = {"append", "extend", "insert", "pop", "remove", "clear", "update", "add", "discard",
            "setdefault", "popitem", "sort", "reverse", "appendleft", "popleft"}


def _mutated_names(stmts):
    """Names re-bound, plus dotted paths (as "@a.b") stored to / mutated in place."""
    out = set()
    for s in stmts:
        out |= assigned_names(s)
        for n in ast.walk(s):
            if isinstance(n, (ast.Attribute, ast.Subscript)) and isinstance(n.ctx, (ast.Store, ast.Del)):
                d = dotted(n) if isinstance(n, ast.Attribute) else dotted(n.value)
                if d:
                    out.add("@" + d)
            elif isinstance(n, ast.Call) and isinstance(n.func, ast.Attribute) and n.func.attr in MUTATORS:
                d = dotted(n.func.value)
                if d:
                    out.add("@" + d)
    return out


def _hits(e, killed):
    """Does fact expression e mention something in the killed set?"""
    if names_in(e) & killed:
        return True
    paths = [k[1:] for k in killed if k.startswith("@")]
    if not paths:
        return False
    for n in ast.walk(e):
        if isinstance(n, ast.Attribute):
            d = dotted(n)
            if d and any(d == p or d.startswith(p + ".") for p in paths):
                return True
    return False


def _block_of(node):
    """(owner, field name, list) of the statement list containing stmt `node`."""
    p = parent(node)
    if p is None:
        return None, None, None
    for field in ("body", "orelse", "finalbody"):
        lst = getattr(p, field, None)
        if isinstance(lst, list) and any(x is node for x in lst):
            return p, field, lst
    if isinstance(p, ast.ExceptHandler):
        return p, "body", p.body
    if isinstance(p, ast.Try):
        for h in p.handlers:
            if h is node:
                return p, "handlers", p.handlers
    return p, None, None


def facts(node, stop=None, expand_tests=False):
    """Must-facts at `node` (list of (expr, polarity)); stops at the enclosing
    function (or at `stop`).  With expand_tests the local names of a statement-level test are first replaced by their
    reaching definitions at the test (see expand_at), so that `v = x.items; if len(v) == 0: v = None; use` still yields
    `len(x.items) == 0` at `use`; the returned expressions are then copies without parent links."""
    def _xt(test, at):
        return expand_at(test, at) if expand_tests else test
    out = []
    cur = node
    killed = set()  # names re-bound between the fact and the node
    while cur is not None and cur is not stop and not isinstance(cur, FUNC + (ast.Lambda, ast.ClassDef, ast.Module)):
        p = parent(cur)
        if p is None:
            break
        new = []
        # ---- expression-level contexts
        if isinstance(p, ast.IfExp):
            if cur is p.body:
                new += split(p.test, True)
            elif cur is p.orelse:
                new += split(p.test, False)
        elif isinstance(p, ast.BoolOp):
            idx = [i for i, v in enumerate(p.values) if v is cur]
            if idx:
                for v in p.values[: idx[0]]:
                    new += split(v, isinstance(p.op, ast.And))
        elif isinstance(p, (ast.ListComp, ast.SetComp, ast.GeneratorExp, ast.DictComp)):
            if cur is getattr(p, "elt", None) or cur is getattr(p, "key", None) or cur is getattr(p, "value", None):
                for g in p.generators:
                    for c in g.ifs:
                        new += split(c, True)
        elif isinstance(p, ast.comprehension):
            pass
        # ---- statement-level contexts
        elif isinstance(cur, (ast.stmt, ast.ExceptHandler)):
            owner, field, lst = _block_of(cur)
            if lst is not None and field in ("body", "orelse", "finalbody") and isinstance(cur, ast.stmt):
                i = [k for k, x in enumerate(lst) if x is cur][0]
                before = lst[:i]
                for k, s in enumerate(before):
                    between = _mutated_names(before[k + 1:])
                    fs = []
                    if isinstance(s, ast.Assert):
                        fs = split(_xt(s.test, s), True)
                    elif isinstance(s, ast.If) and not s.orelse and always_leaves(s.body):
                        fs = split(_xt(s.test, s), False)
                    elif isinstance(s, ast.If) and s.orelse and always_leaves(s.orelse) and not always_leaves(s.body):
                        fs = split(_xt(s.test, s), True)
                        between = between | _mutated_names(s.body)
                    for (e, pol) in fs:
                        if not _hits(e, between | killed):
                            new.append((e, pol))
                # names bound earlier in this block, after an enclosing test,
                # kill the facts collected further out:
                killed_here = _mutated_names(before)
                if isinstance(owner, ast.If):
                    if field == "body":
                        for (e, pol) in split(_xt(owner.test, owner), True):
                            if not _hits(e, killed_here | killed):
                                new.append((e, pol))
                    elif field == "orelse":
                        for (e, pol) in split(_xt(owner.test, owner), False):
                            if not _hits(e, killed_here | killed):
                                new.append((e, pol))
                elif isinstance(owner, ast.While) and field == "body":
                    for (e, pol) in split(_xt(owner.test, owner), True):
                        if not _hits(e, killed_here | killed):
                            new.append((e, pol))
                killed |= killed_here
                if isinstance(owner, (ast.For, ast.While, ast.AsyncFor)) and field == "body":
                    # a later iteration may have re-bound anything the loop binds
                    killed |= _mutated_names([owner])
        out.extend(new)
        cur = p
    # de-duplicate by text
    seen, res = set(), []
    for e, pol in out:
        k = (norm(e), pol)
        if k not in seen:
            seen.add(k)
            res.append((e, pol))
    return res


def fact_texts(node, stop=None):
    return {(norm(e), pol) for e, pol in facts(node, stop)}


def has_fact(node, pred, stop=None):
    """pred(expr, polarity) -> bool for some must-fact."""
    return any(pred(e, pol) for e, pol in facts(node, stop))


def enclosing_loops(node, stop=None):
    out = []
    cur = parent(node)
    prev = node
    while cur is not None and cur is not stop and not isinstance(cur, FUNC + (ast.Lambda, ast.ClassDef, ast.Module)):
        if isinstance(cur, (ast.For, ast.While, ast.AsyncFor)) and any(prev is s for s in cur.body):
            out.append(cur)
        prev, cur = cur, parent(cur)
    return out


def in_loop_orelse(node, loop):
    cur = node
    while cur is not None and parent(cur) is not loop:
        cur = parent(cur)
    return cur is not None and any(cur is s for s in loop.orelse)


def int_bounds(fs, name):
    """(lower, upper) bounds of integer variable `name` implied by must-facts that compare it with integer constants
    (either operand order, either polarity, chained comparisons already split).  None = unbounded."""
    lo = hi = None

    def upd(kind, v):
        nonlocal lo, hi
        if kind == "ge":
            lo = v if lo is None else max(lo, v)
        else:
            hi = v if hi is None else min(hi, v)
    for e, pol in fs:
        if not (isinstance(e, ast.Compare) and len(e.ops) == 1):
            continue
        l, r, op = e.left, e.comparators[0], type(e.ops[0])

        def cval(x):
            if isinstance(x, ast.Constant) and isinstance(x.value, int) and not isinstance(x.value, bool):
                return x.value
            if isinstance(x, ast.UnaryOp) and isinstance(x.op, ast.USub) and isinstance(x.operand, ast.Constant) and isinstance(x.operand.value, int):
                return -x.operand.value
            return None
        if isinstance(l, ast.Name) and l.id == name and cval(r) is not None:
            c = cval(r)
        elif isinstance(r, ast.Name) and r.id == name and cval(l) is not None:
            c = cval(l)
            op = {ast.Lt: ast.Gt, ast.Gt: ast.Lt, ast.LtE: ast.GtE, ast.GtE: ast.LtE}.get(op, op)
        else:
            continue
        if not pol:
            op = {ast.Lt: ast.GtE, ast.GtE: ast.Lt, ast.Gt: ast.LtE, ast.LtE: ast.Gt, ast.Eq: ast.NotEq, ast.NotEq: ast.Eq}.get(op, op)
        if op is ast.GtE:
            upd("ge", c)
        elif op is ast.Gt:
            upd("ge", c + 1)
        elif op is ast.LtE:
            upd("le", c)
        elif op is ast.Lt:
            upd("le", c - 1)
        elif op is ast.Eq:
            upd("ge", c)
            upd("le", c)
    return lo, hi


def canon_fact(e, pol):
    """Canonical form of one must-fact, independent of how the test was spelled:
         x is not None / not (x is None)        -> ("is", "x", "None", False)
         a not in b                             -> ("in", "a", "b", False)
         a != b                                 -> ("==", "a", "b", False)        (operands sorted)
         a > b, b < a, not a <= b               -> ("<", "b", "a", True)
         a >= b, not a < b                      -> ("<", "a", "b", False)
         anything else                          -> ("expr", text, "", polarity)"""
    if isinstance(e, ast.Compare) and len(e.ops) == 1:
        l, r, op = norm(e.left), norm(e.comparators[0]), type(e.ops[0])
        if op in (ast.Is, ast.IsNot):
            return ("is", l, r, pol == (op is ast.Is))
        if op in (ast.In, ast.NotIn):
            return ("in", l, r, pol == (op is ast.In))
        if op in (ast.Eq, ast.NotEq):
            a, b = sorted((l, r))
            return ("==", a, b, pol == (op is ast.Eq))
        if op is ast.Lt:
            return ("<", l, r, pol)
        if op is ast.Gt:
            return ("<", r, l, pol)
        if op is ast.GtE:
            return ("<", l, r, not pol)
        if op is ast.LtE:
            return ("<", r, l, not pol)
    return ("expr", norm(e), "", pol)


def canon_facts(node, stop=None):
    """Set of canonical must-facts at `node` (see canon_fact)."""
    return {canon_fact(e, pol) for e, pol in facts(node, stop)}


def canon_test(test, pol=True):
    """Canonical conjuncts of a test taken with the given polarity."""
    return {canon_fact(e, p) for e, p in split(test, pol)}


def alias_env(func):
    """Local names bound exactly once in `func` (plain assignment or element-wise tuple unpacking; not loop targets, not
    augmented) -> the expression they stand for.  Used to compare expressions modulo local naming."""
    import copy
    from .core import walk_local
    binds = {}
    stmt_of = {}
    for n in walk_local(func):
        if isinstance(n, ast.Assign):
            for t in n.targets:
                if isinstance(t, ast.Name):
                    binds.setdefault(t.id, []).append(n.value)
                    stmt_of[t.id] = n
                elif isinstance(t, (ast.Tuple, ast.List)) and isinstance(n.value, (ast.Tuple, ast.List)) and len(t.elts) == len(n.value.elts):
                    for a, b in zip(t.elts, n.value.elts):
                        if isinstance(a, ast.Name):
                            binds.setdefault(a.id, []).append(b)
                            stmt_of[a.id] = n
                        else:
                            for x in ast.walk(a):
                                if isinstance(x, ast.Name):
                                    binds.setdefault(x.id, []).append(None)
                else:
                    for x in ast.walk(t):
                        if isinstance(x, ast.Name) and isinstance(x.ctx, ast.Store):
                            binds.setdefault(x.id, []).append(None)
        elif isinstance(n, (ast.AugAssign, ast.AnnAssign)) and isinstance(n.target, ast.Name):
            binds.setdefault(n.target.id, []).append(None)
        elif isinstance(n, (ast.For, ast.comprehension)):
            for x in ast.walk(n.target):
                if isinstance(x, ast.Name):
                    binds.setdefault(x.id, []).append(None)
        elif isinstance(n, ast.withitem) and n.optional_vars is not None:
            for x in ast.walk(n.optional_vars):
                if isinstance(x, ast.Name):
                    binds.setdefault(x.id, []).append(None)
    args = {a.arg for a in func.args.args + func.args.kwonlyargs} if hasattr(func, "args") else set()
    env = {k: v[0] for k, v in binds.items() if len(v) == 1 and v[0] is not None and k not in args and
           not isinstance(v[0], (ast.Call, ast.ListComp, ast.GeneratorExp, ast.List, ast.Dict, ast.Set, ast.DictComp, ast.SetComp, ast.Lambda, ast.Yield, ast.Await))}
    env = AliasEnv(env)
    env.stmt_of = {k: stmt_of[k] for k in env if k in stmt_of}
    return env


class AliasEnv(dict):
    """name -> expression, plus the statement that binds each name (stmt_of)"""
    stmt_of = {}


def _stmt_chain(node):
    """[(statement, statement list that contains it)] from the innermost statement around `node` outwards"""
    from .core import parent, FUNC
    chain = []
    n = node
    while n is not None and not isinstance(n, FUNC + (ast.Module, ast.ClassDef, ast.Lambda)):
        p = parent(n)
        if isinstance(n, ast.stmt) and p is not None:
            for field in ("body", "orelse", "finalbody"):
                lst = getattr(p, field, None)
                if isinstance(lst, list) and any(x is n for x in lst):
                    chain.append((n, lst))
        n = p
    if isinstance(n, FUNC) and isinstance(node, ast.stmt) is False:
        pass
    return chain


def _binds(stmts, names):
    """does any statement of `stmts` (re)bind one of `names`?"""
    for st in stmts:
        for x in ast.walk(st):
            if isinstance(x, ast.Name) and isinstance(x.ctx, (ast.Store, ast.Del)) and x.id in names:
                return True
    return False


def alias_valid_at(env, name, at):
    """May `name` be replaced by the expression it was bound to, at the program point of node `at`?  Yes when the binding
    statement is an earlier sibling of `at` or of one of its ancestors (so it was executed before `at` in the same pass through
    that block) and no name mentioned in the bound expression is re-bound in the statements in between (the statement containing
    `at` included).  Without this, `tok = tokens[top.pos]` would be taken for the current `tokens[top.pos]` after `top` moved on,
    or before `tok` was assigned in this iteration at all."""
    b = getattr(env, "stmt_of", {}).get(name)
    if b is None:
        return False
    for a, lst in _stmt_chain(at):
        ib = next((i for i, x in enumerate(lst) if x is b), None)
        if ib is None:
            continue
        ia = next(i for i, x in enumerate(lst) if x is a)
        if ib >= ia:
            return False
        used = {x.id for x in ast.walk(env[name]) if isinstance(x, ast.Name)} | {name}
        return not _binds(lst[ib + 1:ia + 1], used)
    return False


def expand(e, env, depth=0, at=None):
    """copy of expression `e` with the names of `env` replaced by what they stand for (recursively).  With `at` (a node of the
    analysed function, normally the place where `e` is evaluated) a name is replaced only where that is valid, see alias_valid_at."""
    import copy

    class _T(ast.NodeTransformer):
        def visit_Name(self, n):
            if isinstance(n.ctx, ast.Load) and n.id in env and depth < 6 and (at is None or alias_valid_at(env, n.id, at)):
                b = getattr(env, "stmt_of", {}).get(n.id)
                return expand(env[n.id], env, depth + 1, at=(b if at is not None else None))
            return n
    return _T().visit(_clone(e))


_NO_SUBST = (ast.Call, ast.ListComp, ast.GeneratorExp, ast.List, ast.Dict, ast.Set, ast.DictComp, ast.SetComp, ast.Lambda, ast.Yield, ast.Await)


def reaching_def(name, at, calls=False, containers=False):
    """The expression the local `name` certainly stands for at node `at`, or None.  Syntax-directed reaching definition: the
    nearest earlier sibling (of `at`'s statement or of one of its ancestors) that binds `name` must be a plain assignment
    `name = expr`; nothing between it and `at` may re-bind `name` or a name mentioned in `expr`; a loop around `at` that re-binds
    any of them anywhere in its body (back edge) gives None.  Returns (expr, binding statement)."""
    from .core import parent
    chain = _stmt_chain(at)
    loops = []        # loops left behind on the way outwards: `at` runs once per iteration of each
    for a, lst in chain:
        if isinstance(a, (ast.For, ast.While, ast.AsyncFor)) and a is not at:
            in_header = any(at is x or any(y is at for y in ast.walk(x)) for x in ([a.iter] if not isinstance(a, ast.While) else []))
            if not in_header:
                if _binds([a], {name}):
                    return None       # bound somewhere in the loop: may reach `at` round the back edge
                loops.append(a)
        ia = next(i for i, x in enumerate(lst) if x is a)
        for i in range(ia - 1, -1, -1):
            st = lst[i]
            if not _binds([st], {name}):
                continue
            val = None
            if isinstance(st, ast.Assign) and len(st.targets) == 1:
                t = st.targets[0]
                if isinstance(t, ast.Name) and t.id == name:
                    val = st.value
                elif isinstance(t, (ast.Tuple, ast.List)) and isinstance(st.value, (ast.Tuple, ast.List)) and len(t.elts) == len(st.value.elts):
                    for x, y in zip(t.elts, st.value.elts):
                        if isinstance(x, ast.Name) and x.id == name:
                            val = y
            if val is None or (isinstance(val, _NO_SUBST) and not (calls and isinstance(val, ast.Call)) and not (containers and not isinstance(val, (ast.Call, ast.Lambda, ast.Yield, ast.Await)))):
                return None
            used = {x.id for x in ast.walk(val) if isinstance(x, ast.Name)}
            # names bound inside the expression itself (comprehension / lambda variables) are not the function's variables
            own_ = {x.id for c_ in ast.walk(val) if isinstance(c_, ast.comprehension) for x in ast.walk(c_.target) if isinstance(x, ast.Name)} | \
                   {a_.arg for l_ in ast.walk(val) if isinstance(l_, ast.Lambda) for a_ in l_.args.args}
            used -= own_
            if _binds(lst[i + 1:ia], used | {name}):
                return None
            # loops entered after the binding must not change what the expression mentions
            if used and _binds([l for l in loops if not any(l is y for y in ast.walk(st))], used):
                return None
            return val, st
    return None


def expand_at(e, at, calls=False, depth=0):
    """copy of `e` (evaluated at node `at`) with local names replaced by their reaching definitions, recursively"""
    import copy

    class _T(ast.NodeTransformer):
        def visit_Name(self, n):
            if isinstance(n.ctx, ast.Load) and depth < 8:
                r = reaching_def(n.id, at, calls)
                if r is not None:
                    val, st = r
                    # names of the definition are evaluated at the binding; they are unchanged up to `at` except through an
                    # enclosing loop that re-binds them (checked by the recursive call from the binding statement)
                    return expand_at(val, st, calls, depth + 1)
            return n
    return _T().visit(_clone(e))


def xnorm_at(e, at, calls=False):
    return norm(expand_at(e, at, calls))


def xnorm(e, env, at=None):
    return norm(expand(e, env, at=at))


def xcanon_facts(node, env, stop=None, positional=False):
    """canonical must-facts with local single-assignment names expanded"""
    out = set()
    for e, pol in facts(node, stop):
        out.add(canon_fact(expand(e, env, at=(e if positional else None)), pol))
    return out


def iter_source(loop):
    """For `for <target> in <iter>`: when the iterable is (a view of) a comprehension reachable through local names, return
    (comprehension node, base expression of the loop's iterable, view) with view in ('items', 'keys', 'values', None)."""
    it = loop.iter
    view = None
    if isinstance(it, ast.Call) and isinstance(it.func, ast.Attribute) and it.func.attr in ("items", "keys", "values") and not it.args:
        view, it = it.func.attr, it.func.value
    base = it
    if isinstance(it, ast.Name):
        r = reaching_def(it.id, loop, calls=False, containers=True)
        if r is None:
            return None, base, view
        it = r[0]
    if isinstance(it, (ast.DictComp, ast.ListComp, ast.SetComp, ast.GeneratorExp)) and len(it.generators) == 1:
        return it, base, view
    return None, base, view


def iter_facts(loop):
    """Conditions that held for every element when the collection the loop iterates was built: the `if` clauses of the
    comprehension behind the loop's iterable, rewritten in terms of the loop's own target names.  Only for dict comprehensions
    iterated by .items() / keys (keys are distinct) and with (key, value) / key targets that mirror the comprehension.
    -> list of (expr copy, polarity); empty when nothing can be said.  The facts speak about the moment the collection was built:
    the caller decides whether they still hold."""
    comp, base, view = iter_source(loop)
    if not isinstance(comp, ast.DictComp):
        return []
    g = comp.generators[0]
    ren = {}
    if view == "items" and isinstance(loop.target, ast.Tuple) and len(loop.target.elts) == 2 and all(isinstance(x, ast.Name) for x in loop.target.elts):
        if isinstance(comp.key, ast.Name):
            ren[comp.key.id] = loop.target.elts[0].id
        if isinstance(comp.value, ast.Name):
            ren[comp.value.id] = loop.target.elts[1].id
    elif view in (None, "keys") and isinstance(loop.target, ast.Name) and isinstance(comp.key, ast.Name):
        ren[comp.key.id] = loop.target.id
    else:
        return []
    out = []
    for i_ in g.ifs:
        for e, pol in split(i_, True):
            names = {x.id for x in ast.walk(e) if isinstance(x, ast.Name)}
            comp_locals = {x.id for x in ast.walk(g.target) if isinstance(x, ast.Name)}
            if (names & comp_locals) - set(ren):
                continue
            e2 = _clone(e)
            for x in ast.walk(e2):
                if isinstance(x, ast.Name) and x.id in ren:
                    x.id = ren[x.id]
            out.append((e2, pol))
    return out
