"""Small regular-language toolkit: regex AST -> NFA, python `re` patterns ->
regex AST (via re._parser), inclusion / intersection-emptiness with witnesses.

Regex AST (tuples):
  ('eps',)  ('set', frozenset_of_chars)  ('cat', [r...])  ('alt', [r...])
  ('star', r)  ('any',)   # any = SIGMA*
Alphabet: 7-bit ASCII plus two representatives for non-ASCII (a letter and a
digit): enough to separate every character class the repository uses.
"""
import re
try:
    import re._parser as sre_parse
    import re._constants as sre_c
except ImportError:  # python < 3.11
    import sre_parse
    import sre_constants as sre_c

from .core import AnalysisError

NON_ASCII_LETTER = "é"
NON_ASCII_DIGIT = "٣"
SIGMA = frozenset([chr(i) for i in range(128)] + [NON_ASCII_LETTER, NON_ASCII_DIGIT])
DIGITS = frozenset("0123456789")
ESC = "\x1b"


def lit(s):
    if s == "":
        return ("eps",)
    return ("cat", [("set", frozenset([c])) for c in s]) if len(s) > 1 else ("set", frozenset([s]))


def cat(*rs):
    out = []
    for r in rs:
        if r == ("eps",):
            continue
        if r[0] == "cat":
            out.extend(r[1])
        else:
            out.append(r)
    if not out:
        return ("eps",)
    return out[0] if len(out) == 1 else ("cat", out)


def alt(*rs):
    out = []
    for r in rs:
        if r[0] == "alt":
            for x in r[1]:
                if x not in out:
                    out.append(x)
        elif r not in out:
            out.append(r)
    if not out:
        return ("set", frozenset())
    return out[0] if len(out) == 1 else ("alt", out)


def star(r):
    return ("star", r)


def plus(r):
    return cat(r, star(r))


def opt(r):
    return alt(("eps",), r)


def charset(chars):
    return ("set", frozenset(chars))


ANY = ("any",)
NAT = plus(charset(DIGITS))              # \d+ (ASCII)
INT = cat(opt(lit("-")), NAT)


def show(r, depth=0):
    k = r[0]
    if k == "eps":
        return "''"
    if k == "any":
        return ".*"
    if k == "set":
        s = r[1]
        if len(s) == 1:
            c = next(iter(s))
            return repr(c)[1:-1] if c.isprintable() and c not in "()[]|*+?.\\" else repr(c)[1:-1].replace("\\x1b", "ESC")
        if s == DIGITS:
            return "\\d"
        if len(s) > 40:
            return "[^" + "".join(sorted(repr(c)[1:-1] for c in (SIGMA - s)))[:30] + "]"
        return "[" + "".join(sorted(repr(c)[1:-1] for c in s)) + "]"
    if k == "cat":
        return "".join(show(x, depth + 1) for x in r[1])
    if k == "alt":
        return "(" + "|".join(show(x, depth + 1) for x in r[1]) + ")"
    if k == "star":
        return "(" + show(r[1], depth + 1) + ")*"
    return "?"


# ---------------------------------------------------------------- python re -> AST
def from_pattern(pattern, flags=0):
    try:
        p = sre_parse.parse(pattern, flags)
    except Exception as e:
        raise AnalysisError("regex", pattern, f"pattern does not parse: {e}")
    return _conv_seq(list(p))


def accepted_language(pattern, method="match", flags=0):
    """Regular expression (this module's AST) of the *whole strings* s for which re.<method>(pattern, s) succeeds, method in
    match / fullmatch (no flags).  `^` / `\\A` are accepted at the start only; at the end `$` stands for "end, or just before a
    final newline" and `\\Z` for the end; without an end anchor `match` accepts any continuation."""
    if flags:
        raise AnalysisError("regex", pattern, "flags are not modelled")
    try:
        items = list(sre_parse.parse(pattern, flags))
    except Exception as e:
        raise AnalysisError("regex", pattern, f"pattern does not parse: {e}")
    C = sre_c
    while items and items[0][0] is C.AT and "BEGINNING" in str(items[0][1]):
        items = items[1:]
    tail = ("eps",) if method == "fullmatch" else star(charset(SIGMA))
    if items and items[-1][0] is C.AT:
        kind = str(items[-1][1])
        if kind.endswith("AT_END"):
            tail = opt(lit("\n"))
        elif kind.endswith("AT_END_STRING"):
            tail = ("eps",)
        else:
            raise AnalysisError("regex", pattern, f"anchor {kind} at the end is not modelled")
        items = items[:-1]

    def no_anchor(seq):
        for op, av in seq:
            if op is C.AT:
                raise AnalysisError("regex", pattern, "anchor inside the pattern is not modelled")
            if op in (C.MAX_REPEAT, C.MIN_REPEAT):
                no_anchor(list(av[2]))
            elif op is C.SUBPATTERN:
                no_anchor(list(av[-1]))
            elif op is C.BRANCH:
                for b in av[1]:
                    no_anchor(list(b))
    no_anchor(items)
    return cat(_conv_seq(items), tail)


def _cat_set(code):
    C = sre_c
    name = str(code)
    if "CATEGORY_DIGIT" in name and "NOT" not in name:
        return DIGITS | {NON_ASCII_DIGIT}
    if "CATEGORY_NOT_DIGIT" in name:
        return SIGMA - DIGITS - {NON_ASCII_DIGIT}
    if "CATEGORY_SPACE" in name and "NOT" not in name:
        return frozenset(" \t\n\r\f\v")
    if "CATEGORY_NOT_SPACE" in name:
        return SIGMA - frozenset(" \t\n\r\f\v")
    if "CATEGORY_WORD" in name and "NOT" not in name:
        return frozenset(c for c in SIGMA if c.isalnum() or c == "_")
    if "CATEGORY_NOT_WORD" in name:
        return frozenset(c for c in SIGMA if not (c.isalnum() or c == "_"))
    raise AnalysisError("regex", name, "unsupported category")


def _conv_seq(items):
    return cat(*[_conv(op, av) for op, av in items])


def _conv(op, av):
    C = sre_c
    if op is C.LITERAL:
        return charset([chr(av)] if av < 128 else [NON_ASCII_LETTER])
    if op is C.NOT_LITERAL:
        return charset(SIGMA - {chr(av)})
    if op is C.ANY:
        return charset(SIGMA - {"\n"})
    if op is C.IN:
        s, neg = set(), False
        for o2, a2 in av:
            if o2 is C.NEGATE:
                neg = True
            elif o2 is C.LITERAL:
                s.add(chr(a2) if a2 < 128 else NON_ASCII_LETTER)
            elif o2 is C.RANGE:
                lo, hi = a2
                s |= {chr(i) for i in range(lo, min(hi, 127) + 1)}
                if hi > 127:
                    s.add(NON_ASCII_LETTER)
            elif o2 is C.CATEGORY:
                s |= _cat_set(a2)
            else:
                raise AnalysisError("regex", str(o2), "unsupported set item")
        return charset(SIGMA - s if neg else s)
    if op in (C.MAX_REPEAT, C.MIN_REPEAT) or str(op) == "POSSESSIVE_REPEAT":
        lo, hi, sub = av
        r = _conv_seq(list(sub))
        parts = [r] * lo
        if hi is C.MAXREPEAT or hi >= 1 << 16:
            parts.append(star(r))
        else:
            if hi - lo > 64:
                raise AnalysisError("regex", "repeat", "bounded repeat too large")
            tail = ("eps",)
            for _ in range(hi - lo):
                tail = opt(cat(r, tail))
            parts.append(tail)
        return cat(*parts)
    if op is C.SUBPATTERN:
        return _conv_seq(list(av[-1]))
    if op is C.BRANCH:
        return alt(*[_conv_seq(list(b)) for b in av[1]])
    if op is C.AT:
        return ("eps",)
    if str(op) == "ATOMIC_GROUP":
        return _conv_seq(list(av))
    raise AnalysisError("regex", str(op), "unsupported regex construct")


# ---------------------------------------------------------------- NFA
class NFA:
    def __init__(self):
        self.n = 0
        self.eps = {}     # state -> set(states)
        self.tr = {}      # state -> list of (charset, state)
        self.start = None
        self.accept = set()

    def new(self):
        s = self.n
        self.n += 1
        self.eps[s] = set()
        self.tr[s] = []
        return s

    def closure(self, states):
        out, work = set(states), list(states)
        while work:
            s = work.pop()
            for t in self.eps[s]:
                if t not in out:
                    out.add(t)
                    work.append(t)
        return frozenset(out)

    def step(self, states, ch):
        nxt = set()
        for s in states:
            for cs, t in self.tr[s]:
                if ch in cs:
                    nxt.add(t)
        return self.closure(nxt)


def build(r):
    a = NFA()

    def go(r):
        k = r[0]
        s, e = a.new(), a.new()
        if k == "eps":
            a.eps[s].add(e)
        elif k == "set":
            if r[1]:
                a.tr[s].append((r[1], e))
        elif k == "any":
            a.eps[s].add(e)
            a.tr[e].append((SIGMA, e))
        elif k == "cat":
            cur = s
            for x in r[1]:
                xs, xe = go(x)
                a.eps[cur].add(xs)
                cur = xe
            a.eps[cur].add(e)
        elif k == "alt":
            for x in r[1]:
                xs, xe = go(x)
                a.eps[s].add(xs)
                a.eps[xe].add(e)
        elif k == "star":
            xs, xe = go(r[1])
            a.eps[s].add(xs)
            a.eps[s].add(e)
            a.eps[xe].add(xs)
            a.eps[xe].add(e)
        else:
            raise AnalysisError("automata", str(k), "unknown regex node")
        return s, e
    s, e = go(r)
    a.start, a.accept = s, {e}
    return a


def _symbols(*nfas):
    """Representative symbols: one per block of the coarsest partition of SIGMA
    that respects every character set used by the automata."""
    sets = set()
    for a in nfas:
        for lst in a.tr.values():
            for cs, _ in lst:
                sets.add(cs)
    blocks = [set(SIGMA)]
    for cs in sets:
        nb = []
        for b in blocks:
            i, o = b & cs, b - cs
            if i:
                nb.append(i)
            if o:
                nb.append(o)
        blocks = nb
    return [min(b) for b in blocks]


def find_in_a_not_b(ra, rb, limit=200000):
    """Shortest-ish word in L(ra) \\ L(rb), or None when L(ra) ⊆ L(rb).
    Returns (word or None, explored product states)."""
    A, B = build(ra), build(rb)
    syms = _symbols(A, B)
    start = (A.closure({A.start}), B.closure({B.start}))
    seen = {start: None}
    work = [start]
    i = 0
    while i < len(work):
        cur = work[i]
        i += 1
        sa, sb = cur
        if (sa & A.accept) and not (sb & B.accept):
            w = []
            c = cur
            while seen[c] is not None:
                c, ch = seen[c]
                w.append(ch)
            return "".join(reversed(w)), len(seen)
        for ch in syms:
            na = A.step(sa, ch)
            if not na:
                continue
            nb = B.step(sb, ch)
            nxt = (na, nb)
            if nxt not in seen:
                seen[nxt] = (cur, ch)
                work.append(nxt)
                if len(seen) > limit:
                    raise AnalysisError("automata", "product", "state limit exceeded")
    return None, len(seen)


def find_common(ra, rb, limit=200000):
    """A word in L(ra) ∩ L(rb) or None; returns (word, states)."""
    A, B = build(ra), build(rb)
    syms = _symbols(A, B)
    start = (A.closure({A.start}), B.closure({B.start}))
    seen = {start: None}
    work = [start]
    i = 0
    while i < len(work):
        cur = work[i]
        i += 1
        sa, sb = cur
        if (sa & A.accept) and (sb & B.accept):
            w = []
            c = cur
            while seen[c] is not None:
                c, ch = seen[c]
                w.append(ch)
            return "".join(reversed(w)), len(seen)
        for ch in syms:
            na, nb = A.step(sa, ch), B.step(sb, ch)
            if not na or not nb:
                continue
            nxt = (na, nb)
            if nxt not in seen:
                seen[nxt] = (cur, ch)
                work.append(nxt)
                if len(seen) > limit:
                    raise AnalysisError("automata", "product", "state limit exceeded")
    return None, len(seen)


def proper_prefixes(r):
    """Regex AST for the set of *proper* prefixes of words of L(r) is awkward
    to express; instead return an NFA-level helper: words w such that w·v ∈ L(r)
    for some non-empty v.  Implemented on the NFA and exposed through
    `find_prefix_in`."""
    raise NotImplementedError


def find_proper_prefix_in(ra, rb, limit=200000):
    """A word p in L(rb) that is a proper prefix of some word of L(ra), or None."""
    A, B = build(ra), build(rb)
    syms = _symbols(A, B)
    # states of A from which an accepting state is reachable by >= 1 symbol
    # (co-reachability with at least one real transition)
    # compute set of A-states that can reach accept (possibly by eps only) first
    can = set(A.accept)
    changed = True
    rev_eps = {s: set() for s in range(A.n)}
    rev_tr = {s: set() for s in range(A.n)}
    for s in range(A.n):
        for t in A.eps[s]:
            rev_eps[t].add(s)
        for cs, t in A.tr[s]:
            if cs:
                rev_tr[t].add(s)
    work = list(can)
    while work:
        t = work.pop()
        for s in rev_eps[t] | rev_tr[t]:
            if s not in can:
                can.add(s)
                work.append(s)
    # states that can reach accept using at least one symbol transition
    can1 = set()
    for s in range(A.n):
        for cs, t in A.tr[s]:
            if cs and t in can:
                can1.add(s)
    work = list(can1)
    while work:
        t = work.pop()
        for s in rev_eps[t]:
            if s not in can1:
                can1.add(s)
                work.append(s)
    start = (A.closure({A.start}), B.closure({B.start}))
    seen = {start: None}
    work = [start]
    i = 0
    while i < len(work):
        cur = work[i]
        i += 1
        sa, sb = cur
        if (sa & can1) and (sb & B.accept):
            w = []
            c = cur
            while seen[c] is not None:
                c, ch = seen[c]
                w.append(ch)
            return "".join(reversed(w)), len(seen)
        for ch in syms:
            na, nb = A.step(sa, ch), B.step(sb, ch)
            if not na or not nb:
                continue
            nxt = (na, nb)
            if nxt not in seen:
                seen[nxt] = (cur, ch)
                work.append(nxt)
                if len(seen) > limit:
                    raise AnalysisError("automata", "product", "state limit exceeded")
    return None, len(seen)


def is_empty_word_only(r):
    w, _ = find_in_a_not_b(r, ("eps",))
    return w is None


def accepts_empty(r):
    a = build(r)
    return bool(a.closure({a.start}) & a.accept)
