"""Normalisation by inlining: a copy of a function in which calls to small private helpers are replaced by the helper's body.

Extracting a helper (or moving code into a local function) is the most common behaviour-preserving refactoring; rules that look at
one function body would otherwise lose sight of the moved code.  `inlined(repo_module, func)` returns a deep copy of `func`
(parent links rebuilt, line numbers of the original statements kept) in which statements of the forms

    target = self.h(args) | cls.h(args) | Class.h(args) | h(args)        (h: private method of the same class, module-level
    self.h(args)   (expression statement)                                  private function, or function defined locally)
    return self.h(args)
    if self.h(args): ... / if not self.h(args): ...

are replaced by the body of h with parameters bound to the arguments, locals renamed apart, and `return e` turned into an
assignment to the target (code after an early return moves into the else branch).  Helpers that contain loops with returns,
yields, try/with around returns, *args/**kwargs, or that are recursive are left alone.  The result is used for analysis only.
"""
import ast
import copy

from .core import FUNC, clone as _clone

_COUNTER = [0]


def _link(node, parent=None):
    node._parent = parent
    for c in ast.iter_child_nodes(node):
        _link(c, node)


def _has_yield(n):
    return any(isinstance(x, (ast.Yield, ast.YieldFrom)) for x in ast.walk(n))


def _has_return(n):
    return any(isinstance(x, ast.Return) for x in ast.walk(n))


def _simple_helper(h):
    a = h.args
    if a.vararg or a.kwarg or a.kwonlyargs or a.posonlyargs:
        return False
    for x in ast.walk(h):
        if isinstance(x, (ast.Yield, ast.YieldFrom, ast.Await, ast.Global, ast.Nonlocal)):
            return False
        if isinstance(x, (ast.Lambda, ast.ClassDef)):
            return False
        if isinstance(x, FUNC) and x is not h and (_has_yield(x) or x.name in {n.id for n in ast.walk(h) if isinstance(n, ast.Name) and isinstance(n.ctx, ast.Load)
                                                                               and not isinstance(getattr(n, "_parent", None), ast.Call)}):
            return False        # a nested function is fine while it is only called, never passed around
        if isinstance(x, (ast.Try, ast.With)) and _has_return(x):
            return False
        if isinstance(x, (ast.For, ast.While)) and _has_return(x) and not _returning_loop_ok(x, h):
            return False
    return True


def _own(loop):
    """nodes of the loop body that belong to this loop level (inner loops are not descended)"""
    todo = list(loop.body)
    while todo:
        n = todo.pop()
        yield n
        if isinstance(n, (ast.For, ast.While, ast.AsyncFor)):
            continue
        todo.extend(ast.iter_child_nodes(n))


def _returning_loop_ok(loop, h):
    """A loop with `return` inside can be expanded in place when `return e` can become `target = e; break` and the statements
    after the loop can move into the loop's `else:` - i.e. the loop is a top-level statement of the helper, has no `break` of
    its own and no `else`, and its returns are not buried in inner loops / try / with."""
    if not any(loop is x for x in h.body) or loop.orelse:
        return False
    own = list(_own(loop))
    if any(isinstance(n, ast.Break) for n in own):
        return False
    inner_ret = [n for n in ast.walk(loop) if isinstance(n, ast.Return)]
    return all(any(r is n for n in own) for r in inner_ret) and not any(isinstance(n, (ast.Try, ast.With)) and _has_return(n) for n in own)


def _structured(stmts, on_return):
    """Rewrite a statement list so that `return e` becomes on_return(e) and nothing follows a return on any path."""
    out = []
    for i, st in enumerate(stmts):
        rest = stmts[i + 1:]
        if isinstance(st, ast.Return):
            out.extend(on_return(st))
            return out, True
        if isinstance(st, (ast.For, ast.While)) and _has_return(st):
            # `return e` inside the loop -> <on_return(e)>; break      the rest of the helper -> the loop's else clause
            def brk(r):
                out_ = on_return(r)
                return out_ if out_ and isinstance(out_[-1], ast.Return) else out_ + [ast.copy_location(ast.Break(), r)]
            body, _ = _structured_loop_body(st.body, brk)
            tail, t_ret = _structured(rest, on_return)
            new = _clone(st)
            new.body = body
            new.orelse = tail
            out.append(new)
            forever = isinstance(st, ast.While) and isinstance(st.test, ast.Constant) and bool(st.test.value)
            return out, t_ret or forever
        if isinstance(st, ast.If) and _has_return(st):
            body, b_ret = _structured(st.body, on_return)
            orelse, o_ret = _structured(st.orelse, on_return)
            if b_ret and o_ret and st.orelse:
                new = ast.If(test=st.test, body=body, orelse=orelse)
                ast.copy_location(new, st)
                out.append(new)
                return out, True
            tail, t_ret = _structured(rest, on_return)
            if b_ret and not o_ret:
                new = ast.If(test=st.test, body=body, orelse=orelse + tail)
            elif o_ret and not b_ret:
                new = ast.If(test=st.test, body=body + tail, orelse=orelse)
            else:
                # returns only on some nested paths of both branches: duplicate the tail (small helpers only)
                new = ast.If(test=st.test, body=body + _clone(tail), orelse=orelse + tail)
            ast.copy_location(new, st)
            out.append(new)
            return out, t_ret or (b_ret and o_ret)
        out.append(st)
    return out, False


def _names(fn):
    """every name bound or read in the function (parameters included), nested helper definitions excluded"""
    out = {a.arg for a in fn.args.args + fn.args.kwonlyargs}
    todo = list(fn.body)
    while todo:
        n = todo.pop()
        if isinstance(n, FUNC + (ast.ClassDef,)):
            out.add(n.name)
            continue
        if isinstance(n, ast.Name):
            out.add(n.id)
        todo.extend(ast.iter_child_nodes(n))
    return out


def _always_returns(stmts):
    for st in stmts:
        if isinstance(st, (ast.Return, ast.Raise)):
            return True
        if isinstance(st, ast.If) and st.orelse and _always_returns(st.body) and _always_returns(st.orelse):
            return True
    return False


def _structured_loop_body(stmts, brk):
    """inside a returning loop: every `return e` becomes brk(e); nothing else moves"""
    out = []
    for st in stmts:
        if isinstance(st, ast.Return):
            out.extend(brk(st))
            return out, True
        if isinstance(st, ast.If) and _has_return(st):
            new = _clone(st)
            new.body, _ = _structured_loop_body(st.body, brk)
            new.orelse, _ = _structured_loop_body(st.orelse, brk)
            out.append(new)
            continue
        out.append(st)
    return out, False


class _Rename(ast.NodeTransformer):
    def __init__(self, mapping):
        self.m = mapping

    def visit_Name(self, n):
        if n.id in self.m:
            r = self.m[n.id]
            if isinstance(r, str):
                return ast.copy_location(ast.Name(id=r, ctx=n.ctx), n)
            if isinstance(n.ctx, ast.Load):
                return _clone(r)
        return n


def _expand(call, target_kind, target, helper, is_method, taken=frozenset()):
    """-> list of statements replacing the call statement, or None"""
    ps = [a.arg for a in helper.args.args]
    if is_method and ps and ps[0] in ("self", "cls"):
        ps = ps[1:]
    defaults = helper.args.defaults
    n_req = len(ps) - len(defaults)
    if any(isinstance(a, ast.Starred) for a in call.args) or any(k.arg is None for k in call.keywords):
        return None
    bound = {}
    for p, a in zip(ps, call.args):
        bound[p] = a
    for k in call.keywords:
        if k.arg not in ps or k.arg in bound:
            return None
        bound[k.arg] = k.value
    for i, p in enumerate(ps):
        if p not in bound:
            if i < n_req:
                return None
            bound[p] = defaults[i - n_req]
    if len(call.args) > len(ps):
        return None
    _COUNTER[0] += 1
    tag = f"__{helper.name.strip('_')}{_COUNTER[0]}"
    stored = {x.id for x in ast.walk(helper) if isinstance(x, ast.Name) and isinstance(x.ctx, (ast.Store, ast.Del))}
    for x in ast.walk(helper):
        if isinstance(x, (ast.For, ast.comprehension)):
            stored |= {y.id for y in ast.walk(x.target) if isinstance(y, ast.Name)}
    mapping = {}
    pre = []
    # `T = helper(..)` where every return of the helper is `return v` for one helper-local v: let v be T itself
    # (no temporary, the expanded code reads like the code before the helper was extracted)
    ret_local = None
    rets = [x for x in ast.walk(helper) if isinstance(x, ast.Return)]
    if target_kind == "assign" and len(target) == 1 and isinstance(target[0], ast.Name) and rets and \
            all(isinstance(r.value, ast.Name) for r in rets) and len({r.value.id for r in rets}) == 1:
        v = rets[0].value.id
        T = target[0].id
        helper_names = {x.id for x in ast.walk(helper) if isinstance(x, ast.Name)}
        arg_names = {x.id for a in list(call.args) + [k.value for k in call.keywords] for x in ast.walk(a) if isinstance(x, ast.Name)}
        if v in stored and v not in ps and T not in (helper_names - {v}) and T not in arg_names and _always_returns(helper.body):
            ret_local = v
            mapping[v] = T
    for p in ps:
        a = bound[p]
        if p in stored or not isinstance(a, (ast.Name, ast.Constant)):
            # the parameter is re-bound in the helper, or the argument is an expression: evaluate it once into a fresh local.
            # A plain name that the helper re-binds keeps the caller's name only if the caller does not use it afterwards - not
            # decided here, so a fresh local is used.
            if isinstance(a, ast.Name) and p in stored:
                mapping[p] = p + tag
                pre.append(ast.Assign(targets=[ast.Name(id=p + tag, ctx=ast.Store())], value=_clone(a), lineno=call.lineno, col_offset=0))
            elif isinstance(a, (ast.Attribute, ast.Subscript)) and p not in stored:
                mapping[p] = a          # side-effect free access path: substitute
            else:
                mapping[p] = p + tag
                pre.append(ast.Assign(targets=[ast.Name(id=p + tag, ctx=ast.Store())], value=_clone(a), lineno=call.lineno, col_offset=0))
        else:
            mapping[p] = a if isinstance(a, ast.Constant) else a.id
    for v in stored:
        if v not in mapping:
            # a helper local keeps its name unless the caller already uses that name (then it is renamed apart)
            mapping[v] = v + tag if v in taken else v
    body = [_clone(s) for s in helper.body if not (isinstance(s, ast.Expr) and isinstance(s.value, ast.Constant))]
    body = [_Rename(mapping).visit(s) for s in body]

    def on_return(r):
        val = r.value if r.value is not None else ast.Constant(value=None)
        if target_kind == "assign" and ret_local is not None:
            st = ast.Pass()
        elif target_kind == "assign" and len(target) == 1 and isinstance(target[0], ast.Tuple) and isinstance(val, ast.Tuple) and len(val.elts) == len(target[0].elts) \
                and all(isinstance(t, ast.Name) for t in target[0].elts) \
                and not ({t.id for t in target[0].elts} & {x.id for x in ast.walk(val) if isinstance(x, ast.Name)} - {t.id for t, v in zip(target[0].elts, val.elts) if isinstance(v, ast.Name) and v.id == t.id}):
            # `a, b = x, y` with no target read on the right: element-wise, so each name has a plain definition
            sts = [ast.copy_location(ast.Assign(targets=[_clone(t)], value=v), r) for t, v in zip(target[0].elts, val.elts)
                   if not (isinstance(v, ast.Name) and v.id == t.id)]
            return sts or [ast.copy_location(ast.Pass(), r)]
        elif target_kind == "assign":
            st = ast.Assign(targets=[_clone(t) for t in target], value=val)
        elif target_kind == "return":
            st = ast.Return(value=val)
        else:
            st = ast.Expr(value=val) if not isinstance(val, ast.Constant) else ast.Pass()
        return [ast.copy_location(st, r)]
    new, always = _structured(body, on_return)
    if not always and target_kind == "assign":
        # a path that falls off the end returns None: pre-set the target, the converted returns overwrite it
        tnames = {x.id for t in target for x in ast.walk(t) if isinstance(x, ast.Name)}
        anames = {x.id for a in list(call.args) + [k.value for k in call.keywords] for x in ast.walk(a) if isinstance(x, ast.Name)}
        if tnames & anames:
            return None
        new = [ast.Assign(targets=[_clone(t) for t in target], value=ast.Constant(value=None), lineno=call.lineno, col_offset=0)] + new
    for s in pre + new:
        ast.fix_missing_locations(s)
    return pre + new


def inlined(module, func, depth=2, tests=False, exclude=(), nested=False):
    """module: sa.core.Module.  Returns (new function node, names of helpers that were inlined).
    tests=True also expands predicate helpers called as the whole test of an `if`; helpers named in `exclude` are kept as calls;
    nested=True also expands a helper call buried inside a statement's expression (evaluated into a fresh local first)."""
    cls = getattr(func, "_parent", None)
    while cls is not None and not isinstance(cls, ast.ClassDef):
        cls = getattr(cls, "_parent", None)
    methods = {f.name: f for f in (cls.body if cls is not None else []) if isinstance(f, FUNC)}
    module_funcs = {f.name: f for f in module.tree.body if isinstance(f, FUNC)}
    new = _clone(func)
    used = []
    for _ in range(depth):
        locals_ = {f.name: f for f in ast.walk(new) if isinstance(f, FUNC) and f is not new}
        changed = [False]

        def resolve(call):
            f = call.func
            if (isinstance(f, ast.Attribute) and f.attr in exclude) or (isinstance(f, ast.Name) and f.id in exclude):
                return None, False
            if isinstance(f, ast.Attribute) and isinstance(f.value, ast.Name) and (f.value.id in ("self", "cls") or (cls is not None and f.value.id == cls.name)):
                h = methods.get(f.attr)
                if h is not None and h.name != func.name and h.name.startswith("_") and not h.name.startswith("__") and _simple_helper(h):
                    return h, True
            if isinstance(f, ast.Name):
                h = locals_.get(f.id)
                if h is not None and _simple_helper(h):
                    return h, False
                h = module_funcs.get(f.id)
                if h is not None and h.name.startswith("_") and h is not func and _simple_helper(h):
                    return h, False
            return None, False

        def process(stmts):
            out = []
            for st in stmts:
                rep = None
                call = None
                if isinstance(st, ast.Assign) and isinstance(st.value, ast.Call):
                    call, kind, tgt = st.value, "assign", st.targets
                elif isinstance(st, ast.Expr) and isinstance(st.value, ast.Call):
                    call, kind, tgt = st.value, "expr", None
                elif isinstance(st, ast.Return) and isinstance(st.value, ast.Call):
                    call, kind, tgt = st.value, "return", None
                if call is not None:
                    h, is_m = resolve(call)
                    if h is not None:
                        rep = _expand(call, kind, tgt, h, is_m, taken=_names(new) - ({t.id for t in tgt if isinstance(t, ast.Name)} if tgt else set()))
                        if rep is not None:
                            used.append(h.name)
                            changed[0] = True
                if rep is not None:
                    out.extend(rep)
                    continue
                if rep is None and nested:
                    # one helper call buried in the statement's expression (`acc.update(self._h(x))`, `if self._h(x) > 0:`):
                    # evaluate it into a fresh local first, when nothing else in the expression can have an effect
                    root = st.value if isinstance(st, (ast.Expr, ast.Assign, ast.Return, ast.AugAssign)) and st.value is not None else st.test if isinstance(st, ast.If) else None
                    if root is not None:
                        found = [(c_, resolve(c_)) for c_ in ast.walk(root) if isinstance(c_, ast.Call)]
                        found = [(c_, r_) for c_, r_ in found if r_[0] is not None]
                        if len(found) == 1 and ((found[0][0] is not root and not isinstance(st, ast.If)) or isinstance(st, ast.AugAssign) or (isinstance(st, ast.If) and tests)):
                            hc, (h, is_m) = found[0]
                            chain = set()
                            def mark(n, acc):
                                if n is hc:
                                    chain.update(id(x) for x in acc)
                                    return True
                                return any(mark(c2, acc + [n]) for c2 in ast.iter_child_nodes(n))
                            mark(root, [])
                            inside = {id(x) for x in ast.walk(hc)}
                            pure = True
                            for n in ast.walk(root):
                                if id(n) in inside:
                                    continue
                                if id(n) in chain:
                                    if isinstance(n, (ast.ListComp, ast.SetComp, ast.GeneratorExp, ast.DictComp)):
                                        # the iterable of the first `for` of a comprehension is evaluated once, at once
                                        g0 = n.generators[0]
                                        if not (g0.iter is hc or id(g0.iter) in chain):
                                            pure = False
                                    elif isinstance(n, ast.comprehension):
                                        pass
                                    elif not isinstance(n, (ast.Call, ast.UnaryOp, ast.Compare, ast.BinOp, ast.keyword)):
                                        pure = False
                                elif isinstance(n, (ast.Call, ast.Await, ast.Yield, ast.YieldFrom, ast.NamedExpr, ast.Lambda, ast.ListComp, ast.SetComp, ast.DictComp, ast.GeneratorExp, ast.IfExp, ast.BoolOp)):
                                    # parts of a comprehension that contains the call (its element / filters) run after the call anyway
                                    if not any(isinstance(c_, (ast.ListComp, ast.SetComp, ast.GeneratorExp, ast.DictComp)) and id(c_) in chain and any(x is n for x in ast.walk(c_)) for c_ in ast.walk(root)):
                                        pure = False
                            if pure:
                                _COUNTER[0] += 1
                                tmp = f"__v{_COUNTER[0]}"
                                pre = _expand(hc, "assign", [ast.Name(id=tmp, ctx=ast.Store())], h, is_m, taken=_names(new))
                                if pre is not None:
                                    used.append(h.name)
                                    changed[0] = True

                                    class _Sub(ast.NodeTransformer):
                                        def visit_Call(self, n):
                                            if n is hc:
                                                return ast.copy_location(ast.Name(id=tmp, ctx=ast.Load()), n)
                                            return self.generic_visit(n)
                                    if isinstance(st, ast.If):
                                        st.test = _Sub().visit(st.test)
                                    else:
                                        st.value = _Sub().visit(st.value)
                                    out.extend(pre)
                if tests and isinstance(st, ast.If):
                    # `if self._pred(x):` / `if not self._pred(x):` - the predicate's body decides a fresh local first
                    t = st.test
                    neg = isinstance(t, ast.UnaryOp) and isinstance(t.op, ast.Not)
                    tc = t.operand if neg else t
                    if isinstance(tc, ast.Call):
                        h, is_m = resolve(tc)
                        if h is not None:
                            _COUNTER[0] += 1
                            tmp = f"__t{_COUNTER[0]}"
                            pre = _expand(tc, "assign", [ast.Name(id=tmp, ctx=ast.Store())], h, is_m, taken=_names(new))
                            if pre is not None:
                                used.append(h.name)
                                changed[0] = True
                                nm = ast.copy_location(ast.Name(id=tmp, ctx=ast.Load()), tc)
                                st.test = ast.copy_location(ast.UnaryOp(op=ast.Not(), operand=nm), t) if neg else nm
                                out.extend(pre)
                for field in ("body", "orelse", "finalbody"):
                    if hasattr(st, field) and isinstance(getattr(st, field), list) and not isinstance(st, FUNC):
                        setattr(st, field, process(getattr(st, field)))
                if isinstance(st, ast.Try):
                    for hnd in st.handlers:
                        hnd.body = process(hnd.body)
                out.append(st)
            return out
        new.body = process(new.body)
        if not changed[0]:
            break
    if used:
        # the expanded helpers' locals and spellings are brought to those of the reference function of the same name: there the
        # code may stand in place (a helper that was factored out keeps its own variable names)
        from . import alpha
        quals, p_ = [func.name], getattr(func, "_parent", None)
        while p_ is not None:
            if isinstance(p_, FUNC + (ast.ClassDef,)):
                quals.append(p_.name)
            p_ = getattr(p_, "_parent", None)
        fr = alpha.reference_function(module.rel, ".".join(reversed(quals)))
        if fr is not None:
            alpha.normalise_function(new, fr)
            ast.fix_missing_locations(new)
    _link(new, getattr(func, "_parent", None))
    new._inlined_from = func
    return new, sorted(set(used))
