"""Abstract interpreter for writer / reader agreement of small text formats.

Strings are *symbolic token sequences* (TS): literal characters and atoms.
An atom stands for every string of its class:

  NAME-like atoms ('NAME', 'MOD', 'COLS', ...): non-empty, no character of
      PUNCT, no leading / trailing blank;
  'INT' atoms: a non-empty run of ASCII digits (a non-negative integer).

Every string operation used by the repository's serialisers / parsers
(split, find, slicing by a found position, strip, endswith, join, ==, int())
is evaluated exactly on token sequences when its result is the same for every
string the atoms stand for; otherwise Undetermined is raised (the rule then
ends in ANALYSIS-ERROR, never in a verdict).  Integers parsed from INT atoms
are symbolic (SInt) and keep the atom's identity, so "which slot received
which number" can be compared between writer and reader.

No repository code runs: the AST is interpreted over these abstract values.
"""
import ast

from .core import AnalysisError, norm, FUNC, call_name

PUNCT = set(":/!<>()-,;*[]{}=+|&.'\" \t\n")


class Undetermined(Exception):
    pass


class Rewrite(Exception):
    """The interpreted code rewrites (not merely cuts) a string that contains an opaque atom, and a concrete value of the atom
    is changed by the rewriting: the component that produced the string verbatim and this one disagree on that value."""

    def __init__(self, node, detail):
        super().__init__(detail)
        self.node, self.detail = node, detail


NAME_ALPHABET = "aB1 -()._"


def rewrite_witness(fn, max_len=4):
    """A field-name-like string (no ':' ',' ';' '/' '!' '<-', no outer blanks) that `fn` changes, or None.  Bounded search over
    a small alphabet; the function is a constant string transformation taken from the source (regex / replace / case)."""
    import itertools as _it
    for n in range(1, max_len + 1):
        for tup in _it.product(NAME_ALPHABET, repeat=n):
            w = "".join(tup)
            if w != w.strip() or "<-" in w:
                continue
            try:
                r = fn(w)
            except Exception:
                continue
            if r != w:
                return w, r
    return None


class PyExc(Exception):
    """An exception raised by the interpreted code."""

    def __init__(self, name, node=None):
        super().__init__(name)
        self.name, self.node = name, node


class SInt:
    __slots__ = ("id",)

    def __init__(self, id_):
        self.id = id_

    def __eq__(self, o):
        return isinstance(o, SInt) and o.id == self.id

    def __hash__(self):
        return hash(("SInt", self.id))

    def __repr__(self):
        return f"<int {self.id}>"


class Pos:
    """Position in a TS expressed as a token index (before token k)."""
    __slots__ = ("k",)

    def __init__(self, k):
        self.k = k

    def __repr__(self):
        return f"<pos {self.k}>"


class TS:
    __slots__ = ("t",)

    def __init__(self, toks=()):
        self.t = tuple(toks)

    @staticmethod
    def lit(s):
        return TS(("c", ch) for ch in s)

    @staticmethod
    def atom(kind, id_):
        return TS([("a", kind, id_)])

    def __eq__(self, o):
        return isinstance(o, TS) and o.t == self.t

    def __hash__(self):
        return hash(self.t)

    def __repr__(self):
        out = []
        for x in self.t:
            out.append(x[1] if x[0] == "c" else f"<{x[1]}:{x[2]}>")
        return "TS'" + "".join(out) + "'"

    def all_lit(self):
        return all(x[0] == "c" for x in self.t)

    def text(self):
        assert self.all_lit()
        return "".join(x[1] for x in self.t)

    def __add__(self, o):
        return TS(self.t + o.t)

    # ---- matching helpers
    def could_equal(self, o):
        """True / False / None(undetermined) for self == o."""
        if self.t == o.t:
            # identical atoms denote the same string (same object identity)
            return True
        a, b = self, o
        if not a.all_lit() and not b.all_lit():
            # both symbolic and structurally different
            return None if _may_match_sym(a.t, b.t) else False
        if a.all_lit() and b.all_lit():
            return a.text() == b.text()
        if a.all_lit():
            a, b = b, a
        return None if _match(a.t, b.text()) else False

    def find(self, sub):
        if not sub.all_lit() or not sub.t:
            raise Undetermined("find() of a symbolic / empty pattern")
        s = sub.text()
        if not all(ch in PUNCT for ch in s):
            raise Undetermined(f"find({s!r}): pattern may occur inside an atom")
        n = len(s)
        for i in range(len(self.t) - n + 1):
            if all(self.t[i + j] == ("c", s[j]) for j in range(n)):
                return Pos(i)
        return -1

    def split(self, sep, maxsplit=-1):
        if not sep.all_lit() or not sep.t:
            raise Undetermined("split() on a symbolic separator")
        s = sep.text()
        if not all(ch in PUNCT for ch in s):
            raise Undetermined(f"split({s!r}): separator may occur inside an atom")
        out, cur, i, n = [], [], 0, len(s)
        while i < len(self.t):
            if (maxsplit < 0 or len(out) < maxsplit) and i + n <= len(self.t) and all(self.t[i + j] == ("c", s[j]) for j in range(n)):
                out.append(TS(cur))
                cur = []
                i += n
            else:
                cur.append(self.t[i])
                i += 1
        out.append(TS(cur))
        return out

    def partition(self, sep, last=False):
        """(head, sep, tail) like str.partition / rpartition; exact for punctuation separators."""
        if not sep.all_lit() or not sep.t:
            raise Undetermined("partition on a symbolic separator")
        s = sep.text()
        if not all(ch in PUNCT for ch in s):
            raise Undetermined(f"partition({s!r}): separator may occur inside an atom")
        n = len(s)
        idxs = [i for i in range(len(self.t) - n + 1) if all(self.t[i + j] == ("c", s[j]) for j in range(n))]
        if not idxs:
            return (TS(), TS(), self) if last else (self, TS(), TS())
        i = idxs[-1] if last else idxs[0]
        return (TS(self.t[:i]), TS(self.t[i:i + n]), TS(self.t[i + n:]))

    def strip(self):
        t = list(self.t)
        while t and t[0][0] == "c" and t[0][1] in " \t\n":
            t.pop(0)
        while t and t[-1][0] == "c" and t[-1][1] in " \t\n":
            t.pop()
        return TS(t)

    def endswith(self, suf):
        if not suf.all_lit():
            raise Undetermined("endswith(symbolic)")
        s = suf.text()
        if not s:
            return True
        if len(self.t) >= len(s) and all(self.t[len(self.t) - len(s) + j] == ("c", s[j]) for j in range(len(s))):
            return True
        # could an atom end with s?  atoms have no PUNCT
        tail = self.t[-len(s):] if len(self.t) >= len(s) else self.t
        if all(ch in PUNCT for ch in s):
            return False
        if any(x[0] == "a" for x in tail):
            raise Undetermined(f"endswith({s!r}) depends on an atom")
        return False

    def startswith(self, pre):
        if not pre.all_lit():
            raise Undetermined("startswith(symbolic)")
        s = pre.text()
        if not s:
            return True
        if len(self.t) >= len(s) and all(self.t[j] == ("c", s[j]) for j in range(len(s))):
            return True
        if all(ch in PUNCT for ch in s):
            return False
        if any(x[0] == "a" for x in self.t[:len(s)]):
            raise Undetermined(f"startswith({s!r}) depends on an atom")
        return False

    def slice(self, lo, hi):
        def idx(p, default):
            if p is None:
                return default
            if isinstance(p, Pos):
                return p.k
            if isinstance(p, int):
                if p >= 0:
                    if any(x[0] == "a" for x in self.t[:p]) or p > len(self.t):
                        if p == 0:
                            return 0
                        raise Undetermined(f"slice index {p} crosses an atom")
                    return p
                k = len(self.t) + p
                if k < 0 or any(x[0] == "a" for x in self.t[k:]):
                    raise Undetermined(f"slice index {p} crosses an atom")
                return k
            raise Undetermined(f"slice index {p!r}")
        a, b = idx(lo, 0), idx(hi, len(self.t))
        return TS(self.t[a:b])

    def to_int(self):
        if len(self.t) == 1 and self.t[0][0] == "a" and self.t[0][1] == "INT":
            return SInt(self.t[0][2])
        if self.all_lit():
            s = self.text().strip()
            try:
                return int(s)
            except ValueError:
                raise PyExc("ValueError")
        # mixture: any non-digit literal or non-INT atom makes it invalid
        for x in self.t:
            if x[0] == "c" and not x[1].isdigit():
                raise PyExc("ValueError")
            if x[0] == "a" and x[1] != "INT":
                raise Undetermined("int() of a NAME-like atom")
        # digits and INT atoms concatenated: a valid number but not a slot value
        raise Undetermined("int() of concatenated digit atoms")


def _atom_ok(kind, s):
    if not s:
        return False
    if kind == "INT":
        return s.isdigit()
    return not any(ch in PUNCT for ch in s)


def _match(toks, s):
    """Can the token sequence denote the literal string s?"""
    if not toks:
        return s == ""
    x = toks[0]
    if x[0] == "c":
        return s[:1] == x[1] and _match(toks[1:], s[1:])
    for k in range(1, len(s) + 1):
        if _atom_ok(x[1], s[:k]) and _match(toks[1:], s[k:]):
            return True
    return False


def _may_match_sym(a, b):
    # conservative: different symbolic structures with PUNCT literals in different places cannot be equal
    la = [x[1] for x in a if x[0] == "c" and x[1] in PUNCT]
    lb = [x[1] for x in b if x[0] == "c" and x[1] in PUNCT]
    return la == lb


class Obj:
    def __init__(self, cls=None, **attrs):
        self.cls = cls
        self.attrs = dict(attrs)

    def __repr__(self):
        return f"Obj({self.cls}, {self.attrs})"


class _Return(Exception):
    def __init__(self, v):
        self.v = v


class _Break(Exception):
    pass


class _Continue(Exception):
    pass


def truthy(v):
    if isinstance(v, TS):
        return bool(v.t)
    if isinstance(v, SInt):
        raise Undetermined("truthiness of a symbolic int")
    if isinstance(v, Pos):
        return v.k != 0 or True
    if isinstance(v, Obj):
        return True
    return bool(v)


def to_ts(v):
    if isinstance(v, TS):
        return v
    if isinstance(v, SInt):
        return TS.atom("INT", v.id)
    if isinstance(v, (int, bool)) or v is None:
        return TS.lit(str(v))
    if isinstance(v, str):
        return TS.lit(v)
    raise Undetermined(f"str() of {type(v).__name__}")


class SymEval:
    def __init__(self, repo, resolver=None, max_loop=64):
        self.repo = repo
        self.resolver = resolver     # resolver(call_node, receiver_value, method_name, args, kwargs, env) -> value or NotImplemented
        self.max_loop = max_loop
        self.steps = 0

    # ---------------------------------------------------------------- functions
    def call(self, func, args, kwargs=None, self_val=None):
        """Interpret function node `func` with positional args (without self/cls)."""
        kwargs = kwargs or {}
        a = func.args
        names = [x.arg for x in a.posonlyargs + a.args]
        env = {}
        deco = {norm(d) for d in func.decorator_list}
        if names and names[0] in ("self", "cls") and "staticmethod" not in deco:
            env[names[0]] = self_val
            names = names[1:]
        defaults = a.defaults
        for i, n in enumerate(names):
            if i < len(args):
                env[n] = args[i]
            elif n in kwargs:
                env[n] = kwargs[n]
            else:
                di = i - (len(names) - len(defaults))
                if di < 0:
                    raise Undetermined(f"missing argument {n} for {func.name}")
                env[n] = self.ev(defaults[di], {})
        for k, d in zip(a.kwonlyargs, a.kw_defaults):
            env[k.arg] = kwargs[k.arg] if k.arg in kwargs else (self.ev(d, {}) if d is not None else None)
        env["@func"] = func
        try:
            self.block(func.body, env)
        except _Return as r:
            return r.v
        return None

    # ---------------------------------------------------------------- statements
    def block(self, stmts, env):
        for st in stmts:
            self.stmt(st, env)

    def stmt(self, st, env):
        self.steps += 1
        if self.steps > 200000:
            raise Undetermined("step limit")
        if isinstance(st, ast.Expr):
            if isinstance(st.value, ast.Constant):
                return
            self.ev(st.value, env)
        elif isinstance(st, ast.Assign):
            v = self.ev(st.value, env)
            for t in st.targets:
                self.assign(t, v, env)
        elif isinstance(st, ast.AugAssign):
            cur = self.ev(_as_load(st.target), env)
            v = self.binop(st.op, cur, self.ev(st.value, env))
            self.assign(st.target, v, env)
        elif isinstance(st, ast.AnnAssign):
            if st.value is not None:
                self.assign(st.target, self.ev(st.value, env), env)
        elif isinstance(st, ast.If):
            self.block(st.body if truthy(self.ev(st.test, env)) else st.orelse, env)
        elif isinstance(st, ast.For):
            it = self.ev(st.iter, env)
            if not isinstance(it, (list, tuple)):
                raise Undetermined(f"for over {type(it).__name__}")
            broke = False
            for x in list(it):
                self.assign(st.target, x, env)
                try:
                    self.block(st.body, env)
                except _Break:
                    broke = True
                    break
                except _Continue:
                    continue
            if not broke:
                self.block(st.orelse, env)
        elif isinstance(st, ast.While):
            n = 0
            while truthy(self.ev(st.test, env)):
                n += 1
                if n > self.max_loop:
                    raise Undetermined("loop bound")
                try:
                    self.block(st.body, env)
                except _Break:
                    break
                except _Continue:
                    continue
        elif isinstance(st, ast.Return):
            raise _Return(self.ev(st.value, env) if st.value is not None else None)
        elif isinstance(st, ast.Raise):
            nm = "Exception"
            if st.exc is not None:
                nm = call_name(st.exc) if isinstance(st.exc, ast.Call) else norm(st.exc)
            raise PyExc(nm, st)
        elif isinstance(st, ast.Assert):
            if not truthy(self.ev(st.test, env)):
                raise PyExc("AssertionError", st)
        elif isinstance(st, ast.Try):
            try:
                self.block(st.body, env)
            except PyExc as e:
                for h in st.handlers:
                    names = [] if h.type is None else [norm(x) for x in (h.type.elts if isinstance(h.type, ast.Tuple) else [h.type])]
                    if h.type is None or e.name in names or "Exception" in names or "BaseException" in names:
                        if h.name:
                            env[h.name] = Obj("exc", name=e.name)
                        self.block(h.body, env)
                        break
                else:
                    raise
            else:
                self.block(st.orelse, env)
            finally:
                if st.finalbody:
                    self.block(st.finalbody, env)
        elif isinstance(st, ast.Pass):
            pass
        elif isinstance(st, ast.Break):
            raise _Break()
        elif isinstance(st, ast.Continue):
            raise _Continue()
        else:
            raise Undetermined(f"statement {type(st).__name__}")

    def assign(self, t, v, env):
        if isinstance(t, ast.Name):
            env[t.id] = v
        elif isinstance(t, ast.Attribute):
            o = self.ev(t.value, env)
            if not isinstance(o, Obj):
                raise Undetermined(f"attribute store on {type(o).__name__}")
            o.attrs[t.attr] = v
        elif isinstance(t, (ast.Tuple, ast.List)):
            if not isinstance(v, (list, tuple)):
                raise Undetermined("unpacking a non-sequence")
            if len(v) != len(t.elts):
                raise PyExc("ValueError")
            for x, y in zip(t.elts, v):
                self.assign(x, y, env)
        elif isinstance(t, ast.Subscript):
            o = self.ev(t.value, env)
            k = self.ev(t.slice, env)
            if isinstance(o, list) and isinstance(k, int):
                o[k] = v
            elif isinstance(o, dict):
                o[k] = v
            else:
                raise Undetermined("subscript store")
        else:
            raise Undetermined(f"assignment target {type(t).__name__}")

    # ---------------------------------------------------------------- expressions
    def ev(self, e, env):
        if isinstance(e, ast.Constant):
            return TS.lit(e.value) if isinstance(e.value, str) else e.value
        if isinstance(e, ast.Name):
            if e.id in env:
                return env[e.id]
            if e.id in ("True", "False", "None"):
                return {"True": True, "False": False, "None": None}[e.id]
            raise Undetermined(f"unbound name {e.id}")
        if isinstance(e, ast.Attribute):
            o = self.ev(e.value, env)
            if isinstance(o, Obj):
                if e.attr in o.attrs:
                    return o.attrs[e.attr]
                if self.resolver is not None:
                    r = self.resolver(e, o, e.attr, None, None, env)
                    if r is not NotImplemented:
                        return r
                raise Undetermined(f"attribute {e.attr} of {o.cls}")
            raise Undetermined(f"attribute {e.attr} of {type(o).__name__}")
        if isinstance(e, ast.JoinedStr):
            out = TS()
            for v in e.values:
                if isinstance(v, ast.Constant):
                    out = out + TS.lit(v.value)
                else:
                    if v.format_spec is not None or v.conversion not in (-1, 115):
                        raise Undetermined("format spec / conversion in f-string")
                    out = out + to_ts(self.ev(v.value, env))
            return out
        if isinstance(e, ast.BinOp):
            return self.binop(e.op, self.ev(e.left, env), self.ev(e.right, env))
        if isinstance(e, ast.UnaryOp):
            v = self.ev(e.operand, env)
            if isinstance(e.op, ast.Not):
                return not truthy(v)
            if isinstance(e.op, ast.USub) and isinstance(v, int):
                return -v
            raise Undetermined("unary op")
        if isinstance(e, ast.BoolOp):
            is_and = isinstance(e.op, ast.And)
            v = None
            for x in e.values:
                v = self.ev(x, env)
                if truthy(v) != is_and:
                    return v
            return v
        if isinstance(e, ast.Compare):
            l = self.ev(e.left, env)
            for op, r in zip(e.ops, e.comparators):
                rv = self.ev(r, env)
                if not self.compare(op, l, rv):
                    return False
                l = rv
            return True
        if isinstance(e, ast.IfExp):
            return self.ev(e.body if truthy(self.ev(e.test, env)) else e.orelse, env)
        if isinstance(e, (ast.List, ast.Tuple)):
            vals = [self.ev(x, env) for x in e.elts]
            return vals if isinstance(e, ast.List) else tuple(vals)
        if isinstance(e, ast.Dict):
            return {self.ev(k, env): self.ev(v, env) for k, v in zip(e.keys, e.values)}
        if isinstance(e, (ast.ListComp, ast.GeneratorExp)):
            return self.comp(e, env)
        if isinstance(e, ast.Subscript):
            o = self.ev(e.value, env)
            if isinstance(e.slice, ast.Slice):
                lo = self.ev(e.slice.lower, env) if e.slice.lower is not None else None
                hi = self.ev(e.slice.upper, env) if e.slice.upper is not None else None
                if e.slice.step is not None:
                    raise Undetermined("slice step")
                if isinstance(o, TS):
                    return o.slice(lo, hi)
                if isinstance(o, (list, tuple)) and all(x is None or isinstance(x, int) for x in (lo, hi)):
                    return o[lo:hi]
                raise Undetermined("slice")
            k = self.ev(e.slice, env)
            if isinstance(o, (list, tuple)) and isinstance(k, int):
                try:
                    return o[k]
                except IndexError:
                    raise PyExc("IndexError")
            if isinstance(o, dict):
                if k in o:
                    return o[k]
                raise PyExc("KeyError")
            raise Undetermined("subscript")
        if isinstance(e, ast.Call):
            return self.callexpr(e, env)
        if isinstance(e, ast.NamedExpr):
            v = self.ev(e.value, env)
            env[e.target.id] = v
            return v
        raise Undetermined(f"expression {type(e).__name__}")

    def comp(self, e, env):
        out = []
        env2 = dict(env)

        def rec(i):
            if i == len(e.generators):
                out.append(self.ev(e.elt, env2))
                return
            g = e.generators[i]
            it = self.ev(g.iter, env2)
            if not isinstance(it, (list, tuple)):
                raise Undetermined("comprehension over a non-list")
            for x in it:
                self.assign(g.target, x, env2)
                if all(truthy(self.ev(c, env2)) for c in g.ifs):
                    rec(i + 1)
        rec(0)
        return out

    def binop(self, op, a, b):
        if isinstance(op, ast.Add):
            if isinstance(a, TS) and isinstance(b, TS):
                return a + b
            if isinstance(a, list) and isinstance(b, list):
                return a + b
            if isinstance(a, Pos) and isinstance(b, int):
                return Pos(a.k + b) if b >= 0 else Pos(a.k + b)
            if isinstance(a, int) and isinstance(b, int):
                return a + b
        if isinstance(op, ast.Sub) and isinstance(a, int) and isinstance(b, int):
            return a - b
        if isinstance(op, ast.Mult) and isinstance(a, TS) and isinstance(b, int):
            return TS(a.t * b)
        if isinstance(op, ast.Mult) and isinstance(a, list) and isinstance(b, int) and not isinstance(b, bool):
            return list(a) * max(b, 0)
        if isinstance(op, ast.Mult) and isinstance(b, list) and isinstance(a, int) and not isinstance(a, bool):
            return list(b) * max(a, 0)
        raise Undetermined(f"binary op {type(op).__name__} on {type(a).__name__}, {type(b).__name__}")

    def compare(self, op, l, r):
        if isinstance(op, (ast.Is, ast.IsNot)):
            res = (l is r) or (l is None and r is None) or (isinstance(l, bool) and isinstance(r, bool) and l == r)
            return res if isinstance(op, ast.Is) else not res
        if isinstance(op, (ast.Eq, ast.NotEq)):
            if isinstance(l, TS) and isinstance(r, TS):
                res = l.could_equal(r)
                if res is None:
                    raise Undetermined(f"{l!r} == {r!r}")
            elif isinstance(l, (TS, SInt, Pos)) != isinstance(r, (TS, SInt, Pos)) and not (isinstance(l, Pos) or isinstance(r, Pos)):
                if isinstance(l, SInt) or isinstance(r, SInt):
                    o = r if isinstance(l, SInt) else l
                    if isinstance(o, int) and o < 0:
                        res = False
                    elif o is None:
                        res = False
                    else:
                        raise Undetermined("symbolic int == int")
                else:
                    res = False
            elif isinstance(l, Pos) or isinstance(r, Pos):
                p, o = (l, r) if isinstance(l, Pos) else (r, l)
                if isinstance(o, int) and o < 0:
                    res = False
                elif isinstance(o, Pos):
                    res = p.k == o.k
                else:
                    raise Undetermined("position == int")
            else:
                res = l == r
            return res if isinstance(op, ast.Eq) else not res
        if isinstance(op, (ast.Lt, ast.LtE, ast.Gt, ast.GtE)):
            def cmpnum(a, b):
                if isinstance(a, (SInt, Pos)) and isinstance(b, int) and b <= 0:
                    # symbolic ints / positions are >= 0
                    return {ast.Lt: False, ast.LtE: (None if b == 0 else False), ast.Gt: (None if b == 0 else True), ast.GtE: True}[type(op)]
                if isinstance(a, int) and isinstance(b, int):
                    return {ast.Lt: a < b, ast.LtE: a <= b, ast.Gt: a > b, ast.GtE: a >= b}[type(op)]
                return None
            res = cmpnum(l, r)
            if res is None and isinstance(r, (SInt, Pos)) and isinstance(l, int):
                flip = {ast.Lt: ast.Gt, ast.LtE: ast.GtE, ast.Gt: ast.Lt, ast.GtE: ast.LtE}[type(op)]
                saved = op
                op = flip()
                res = cmpnum(r, l)
                op = saved
            if res is None:
                raise Undetermined(f"comparison {l!r} {type(op).__name__} {r!r}")
            return res
        if isinstance(op, (ast.In, ast.NotIn)):
            if isinstance(r, (list, tuple)):
                res = False
                for x in r:
                    if self.compare(ast.Eq(), l, x):
                        res = True
                        break
            elif isinstance(r, dict):
                res = l in r
            elif isinstance(r, TS) and isinstance(l, TS):
                res = (r.find(l) != -1) if l.t else True
            else:
                raise Undetermined("membership")
            return res if isinstance(op, ast.In) else not res
        raise Undetermined("comparison operator")

    def callexpr(self, e, env):
        f = e.func
        args = []
        for a in e.args:
            if isinstance(a, ast.Starred):
                args.extend(self.ev(a.value, env))
            else:
                args.append(self.ev(a, env))
        kwargs = {k.arg: self.ev(k.value, env) for k in e.keywords if k.arg}
        if isinstance(f, ast.Name):
            n = f.id
            if n == "len" and isinstance(args[0], (list, tuple, dict)):
                return len(args[0])
            if n == "len" and isinstance(args[0], TS) and args[0].all_lit():
                return len(args[0].t)
            if n == "int":
                v = args[0]
                if isinstance(v, TS):
                    return v.to_int()
                if isinstance(v, (int, SInt)):
                    return v
                raise Undetermined("int()")
            if n == "str":
                return to_ts(args[0])
            if n in ("list", "tuple") and isinstance(args[0], (list, tuple)):
                return list(args[0]) if n == "list" else tuple(args[0])
            if n == "all":
                return all(truthy(x) for x in args[0])
            if n == "any":
                return any(truthy(x) for x in args[0])
            if n == "isinstance":
                v = args[0] if args else None
                tn = {norm(x).split(".")[-1] for x in (e.args[1].elts if isinstance(e.args[1], ast.Tuple) else [e.args[1]])}
                if isinstance(v, TS):
                    return "str" in tn
                if isinstance(v, (list, tuple)):
                    return ("list" in tn and isinstance(v, list)) or ("tuple" in tn and isinstance(v, tuple))
                if isinstance(v, Obj):
                    return v.cls in tn
                if v is None:
                    return False
                if isinstance(v, (int, SInt)):
                    return "int" in tn
                raise Undetermined("isinstance")
            if self.resolver is not None:
                r = self.resolver(e, None, n, args, kwargs, env)
                if r is not NotImplemented:
                    return r
            raise Undetermined(f"call of {n}")
        if isinstance(f, ast.Attribute) and isinstance(f.value, ast.Name) and f.value.id == "re" and f.value.id not in env:
            if f.attr == "sub" and len(args) >= 3 and all(isinstance(a, TS) for a in args[:3]) and args[0].all_lit() and args[1].all_lit():
                import re as _re
                pat, rep, subj = args[0].text(), args[1].text(), args[2]
                if subj.all_lit():
                    return TS.lit(_re.sub(pat, rep, subj.text()))
                w = rewrite_witness(lambda x: _re.sub(pat, rep, x))
                if w:
                    raise Rewrite(e, f"re.sub({pat!r}, {rep!r}, ..) is applied to text that still contains a field name: the name {w[0]!r} is turned into {w[1]!r}")
                raise Undetermined("re.sub on a symbolic string")
            raise Undetermined(f"re.{f.attr}")
        if isinstance(f, ast.Attribute):
            recv = self.ev(f.value, env)
            m = f.attr
            if isinstance(recv, TS) and not recv.all_lit() and m in ("replace", "lower", "upper", "casefold", "title", "capitalize", "swapcase", "translate", "expandtabs"):
                lits = [a.text() for a in args if isinstance(a, TS) and a.all_lit()]
                if len(lits) == len(args):
                    w = rewrite_witness(lambda x: getattr(x, m)(*lits))
                    if w:
                        raise Rewrite(e, f".{m}({', '.join(map(repr, lits))}) is applied to text that still contains a field name: the name {w[0]!r} is turned into {w[1]!r}")
                raise Undetermined(f"str.{m} on a symbolic string")
            if isinstance(recv, TS):
                if m == "split":
                    ms = args[1] if len(args) > 1 else kwargs.get("maxsplit", -1)
                    return recv.split(args[0], ms)
                if m == "strip" and not args:
                    return recv.strip()
                if m in ("partition", "rpartition") and len(args) == 1:
                    return tuple(recv.partition(args[0], last=(m == "rpartition")))
                if m in ("lstrip", "rstrip") and not args:
                    t = list(recv.t)
                    if m == "lstrip":
                        while t and t[0][0] == "c" and t[0][1] in " \t\n":
                            t.pop(0)
                    else:
                        while t and t[-1][0] == "c" and t[-1][1] in " \t\n":
                            t.pop()
                    return TS(t)
                if m == "rsplit":
                    if len(args) == 1:
                        return recv.split(args[0])
                    raise Undetermined("rsplit with maxsplit")
                if m == "find":
                    return recv.find(args[0])
                if m == "endswith":
                    return recv.endswith(args[0])
                if m == "startswith":
                    return recv.startswith(args[0])
                if m == "join":
                    out = TS()
                    for i, x in enumerate(args[0]):
                        if i:
                            out = out + recv
                        out = out + to_ts(x) if isinstance(x, TS) else _no_join(x)
                    return out
                if m in ("upper", "lower") and recv.all_lit():
                    return TS.lit(getattr(recv.text(), m)())
                raise Undetermined(f"str.{m}")
            if isinstance(recv, list):
                if m == "append":
                    recv.append(args[0])
                    return None
                if m == "pop":
                    if not recv:
                        raise PyExc("IndexError")
                    return recv.pop(*args)
                if m == "extend":
                    recv.extend(args[0])
                    return None
                if m == "insert":
                    recv.insert(args[0], args[1])
                    return None
                if m == "copy":
                    return list(recv)
                raise Undetermined(f"list.{m}")
            if isinstance(recv, dict) and m == "get":
                return recv.get(args[0], args[1] if len(args) > 1 else None)
            if self.resolver is not None:
                r = self.resolver(e, recv, m, args, kwargs, env)
                if r is not NotImplemented:
                    return r
            if isinstance(recv, Obj) and recv.cls and m.startswith("_") and not m.startswith("__") and getattr(self, "_mdepth", 0) < 3:
                # a private helper method of the object's own class: interpret it (helper extraction is the commonest refactoring)
                for _m, _q, cnode in self.repo.all_classes():
                    if cnode.name == recv.cls:
                        meth = self.repo.method(cnode, m)
                        if meth is not None:
                            self._mdepth = getattr(self, "_mdepth", 0) + 1
                            try:
                                return self.call(meth, args, kwargs, self_val=recv)
                            finally:
                                self._mdepth -= 1
            raise Undetermined(f"method {m} on {type(recv).__name__}")
        raise Undetermined("call form")


def _no_join(x):
    raise Undetermined(f"join of a non-string {type(x).__name__}")


def _as_load(t):
    import copy
    t2 = copy.copy(t)
    t2.ctx = ast.Load()
    return t2
