"""Obligations, known findings, evidence, verdict protocol."""
import ast
import hashlib
import json
import os
import re
import time

from .core import AnalysisError, Repo, norm, head, qual, where, enclosing_stmt

VERIF = os.path.dirname(os.path.dirname(os.path.abspath(__file__)))
KNOWN_FILE = os.path.join(VERIF, "known_findings.txt")


class Ob:
    __slots__ = ("rule", "construct", "stmt", "ok", "detail", "loc", "extra")

    def __init__(self, rule, construct, stmt, ok, detail, loc, extra=None):
        self.rule, self.construct, self.stmt, self.ok, self.detail, self.loc = rule, construct, stmt, ok, detail, loc
        self.extra = extra

    def key(self):
        return (self.rule, self.construct, self.stmt)

    def as_dict(self):
        d = {"rule": self.rule, "construct": self.construct, "stmt": self.stmt,
             "verdict": "discharged" if self.ok else "refuted", "at": self.loc, "detail": self.detail}
        if self.extra:
            d["extra"] = self.extra
        return d


class Ctx:
    """What a rule module sees."""

    def __init__(self, prop, repo, tier="quick"):
        self.prop, self.repo, self.tier = prop, repo, tier
        self.obs = []
        self.counts = {}
        self.notes = []
        self.rules = {}   # rule id -> one-line statement of the rule
        self.assumptions = []
        self.trusted = []
        self._keys = {}
        self._dups = 0

    # ---- declaring
    def rule(self, rid, text):
        self.rules[rid] = text

    def assume(self, text):
        if text not in self.assumptions:
            self.assumptions.append(text)

    def trust(self, text):
        if text not in self.trusted:
            self.trusted.append(text)

    def count(self, name, n=1):
        self.counts[name] = self.counts.get(name, 0) + n

    def note(self, text):
        self.notes.append(text)

    # ---- obligations
    # rules whose refutations are produced by an analysis of behaviour (flow graph, abstract interpretation, languages, intervals,
    # taint) and therefore stand in a restructured function as well; everything else is gated, see ob()
    SEMANTIC_RULES = frozenset("""
        R01f R02g R03a R04e R06d R07h R08e R08h R08i R08j R09a R09f R09i R10b R10d R10j R10k R10l R10m R11a R12d R12e R12h
        R13a R13b R13c R13e R14a R14e R15a R15b R15e R16g R17b R18g R20a R20b R20d""".split())

    def semantic(self, *rules):
        """Declare rules whose refutations come from an analysis of what the code does (flow graph, abstract interpretation,
        languages, intervals): they stand in a restructured function too.  All other refutations are 'the code is not written
        the way the reference writes it' and only count where the function is still recognisably the reference one."""
        self.__dict__.setdefault("_semantic", set()).update(rules)

    def ob(self, rule, node, ok, detail="", construct=None, stmt=None, extra=None, semantic=False):
        """Record one obligation: `rule` evaluated on the construct `node`."""
        if not ok and isinstance(node, ast.AST) and not semantic and rule not in self.__dict__.get("_semantic", ()) and rule not in self.SEMANTIC_RULES and os.environ.get("VERIF_NO_SHAPE_GATE") != "1":
            from .core import enclosing_func as _ef
            f_ = node if isinstance(node, (ast.FunctionDef, ast.AsyncFunctionDef)) else _ef(node)
            if f_ is not None:
                cache_ = self.__dict__.setdefault("_restructured", {})
                if id(f_) not in cache_:
                    try:
                        cache_[id(f_)] = self.restructured(f_, 0.8)
                    except Exception:
                        cache_[id(f_)] = (None, False)
                ratio_, far_ = cache_[id(f_)]
                if far_:
                    # a shape mismatch inside a function that was rewritten: outside the rule, not a finding
                    self.counts["refutations not believed in restructured functions"] = self.counts.get("refutations not believed in restructured functions", 0) + 1
                    self.__dict__.setdefault("errors", []).append(AnalysisError(
                        rule, f"{getattr(f_, 'name', '?')}", f"{detail[:160]} - in a function that was restructured (similarity to the reference {ratio_:.2f}): the rule reads the "
                        "reference's way of writing it, so this is not a finding; not decided"))
                    return False
        if isinstance(node, ast.AST):
            st = enclosing_stmt(node) if not isinstance(node, (ast.stmt, ast.ExceptHandler)) else node
            c = construct or qual(node)
            s = stmt if stmt is not None else (head(st) if st is not None else norm(node))
            if stmt is None and st is not None:
                s = s + self._ordinal(st, s)
            loc = where(node)
        else:
            c, s, loc = construct or str(node), stmt or "", str(node)
        key = (rule, c, s)
        idx = self._keys.get(key)
        if idx is not None:
            # the same obligation reached on another path: keep one record, a refutation wins
            self._dups += 1
            if not ok and self.obs[idx].ok:
                self.obs[idx] = Ob(rule, c, s, False, detail, loc, extra)
            return bool(ok)
        self._keys[key] = len(self.obs)
        self.obs.append(Ob(rule, c, s, bool(ok), detail, loc, extra))
        return bool(ok)

    def _ordinal(self, st, text):
        """' #k' when the same statement text occurs several times in the enclosing function (k-th in source order)."""
        from .core import enclosing_func, walk_local, FUNC
        f = enclosing_func(st)
        if f is None:
            return ""
        cache = self.__dict__.setdefault("_ord_cache", {})
        key = id(f)
        if key not in cache:
            d = {}
            for n in sorted([x for x in ast.walk(f) if isinstance(x, ast.stmt) and x is not f], key=lambda x: (x.lineno, x.col_offset)):
                d.setdefault(head(n), []).append(n)
            cache[key] = d
        same = cache[key].get(text, [])
        if len(same) <= 1:
            return ""
        for i, n in enumerate(same):
            if n is st:
                return f" #{i + 1}"
        return ""

    def guard(self, fn, *args, **kw):
        """Run one group of rules; an AnalysisError inside it is recorded and the other groups still run
        (so that a refutation found elsewhere is not masked by an undecided group)."""
        try:
            return fn(*args, **kw)
        except AnalysisError as e:
            self.__dict__.setdefault("errors", []).append(e)
            return None
        except RecursionError:
            raise
        except Exception as e:   # a crash of one rule group is an undecided group, never a verdict
            import traceback
            tb = traceback.format_exc().strip().splitlines()
            self.__dict__.setdefault("errors", []).append(
                AnalysisError("engine", f"{getattr(fn, '__name__', fn)}:{type(e).__name__}", f"{e} | {tb[-3].strip() if len(tb) > 2 else ''}"))
            if os.environ.get("VERIF_DEBUG"):
                traceback.print_exc()
            return None

    def restructured(self, func, threshold=0.8):
        """(ratio, True/False): is `func` (possibly an analysis copy with helpers expanded) structurally far from the reference
        version of the same function?  Rules that recognise ONE way of writing an algorithm use it: a mismatch in a function
        that is the reference with a local edit is a finding; a mismatch in a function that was rewritten is outside the rule."""
        from . import alpha
        import ast as _ast
        orig = getattr(func, "_inlined_from", func)
        quals, p_ = [orig.name], getattr(orig, "_parent", None)
        while p_ is not None:
            if isinstance(p_, (_ast.FunctionDef, _ast.AsyncFunctionDef, _ast.ClassDef)):
                quals.append(p_.name)
            p_ = getattr(p_, "_parent", None)
        mod = getattr(orig, "_mod", None)
        fr = alpha.reference_function(mod.rel, ".".join(reversed(quals))) if mod is not None else None
        if fr is None:
            return None, False
        r = alpha.similarity(func, fr)
        un_new, un_ref = alpha.unmatched_statements(func, fr)
        if orig is not func:
            # an analysis copy with helpers expanded: also the function as written counts (expansion adds statements the
            # reference does not have); the closer of the two views decides
            r0 = alpha.similarity(orig, fr)
            if r0 > r:
                r = r0
                un_new, un_ref = alpha.unmatched_statements(orig, fr)
        log_ = os.environ.get("VERIF_GATE_LOG")
        if log_:
            with open(log_, "a") as fh_:
                fh_.write(f"{self.repo.root if self.repo is not None else '?'}\t{'.'.join(reversed(quals))}\t{r:.2f}\t{un_new}\t{un_ref}\n")
        # restructured: a large part of the statements has no counterpart - in proportion AND in number (a three-line function
        # with one changed line is a local edit, not a rewrite)
        return r, (r < threshold and un_new + un_ref >= 16)

    def shape_ob(self, rule, node, ok, detail_ok, detail_bad, func, stmt=None, **kw):
        """An obligation of a rule that recognises one way of writing something: refuted only when the enclosing function is
        still recognisably the reference one (a local edit broke the shape); in a restructured function the rule does not apply
        and the verdict is 'undecided'."""
        if ok:
            return self.ob(rule, node, True, detail_ok, stmt=stmt, **kw) if stmt is not None else self.ob(rule, node, True, detail_ok, **kw)
        ratio, far = self.restructured(func)
        if far:
            self.counts["shape rules not applied to restructured functions"] = self.counts.get("shape rules not applied to restructured functions", 0) + 1
            raise AnalysisError(rule, f"{getattr(func, 'name', '?')}", f"{detail_bad} - but the function was restructured (similarity to the reference {ratio:.2f}): "
                                                                      "this rule describes the reference's way of writing it and does not apply; not decided")
        return self.ob(rule, node, False, detail_bad, stmt=stmt, **kw) if stmt is not None else self.ob(rule, node, False, detail_bad, **kw)

    def need(self, cond, rule, anchor, detail=""):
        """Fail-closed: an idiom / anchor the rule depends on must be there."""
        if not cond:
            a = anchor if isinstance(anchor, str) else f"{qual(anchor)}@{where(anchor)}"
            raise AnalysisError(rule, a, detail)
        return cond

    def at_least(self, rule, what, found, minimum):
        self.counts[f"{rule}:{what}"] = found
        if found < minimum:
            raise AnalysisError(rule, what, f"only {found} instance(s) found, {minimum} confirmed by hand on the reference tree")

    # ---- convenient anchors
    def func(self, rel, q, rule):
        return self.repo.func(rel, q, rule)

    def cls(self, rel, q, rule):
        return self.repo.cls(rel, q, rule)


def load_known():
    known, fixed = [], []
    if not os.path.exists(KNOWN_FILE):
        return known, fixed
    for line in open(KNOWN_FILE, encoding="utf-8"):
        line = line.strip()
        if not line or line.startswith("#"):
            continue
        kind = line.split(":", 1)[0]
        fields = dict((m.group(1), m.group(2) if m.group(2) is not None else m.group(3))
                      for m in re.finditer(r'(\w+)=(?:"((?:[^"\\]|\\.)*)"|(\S+))', line))
        if kind == "known":
            known.append(fields)
        elif kind == "fixed":
            fixed.append(fields)
    return known, fixed


def _matches(ob, prop, rec):
    return (rec.get("property") == prop and rec.get("rule") == ob.rule and rec.get("construct") == ob.construct
            and (rec.get("stmt") is None or norm(rec.get("stmt")) == norm(ob.stmt)))


def finish(prop, cx, t0, tier, seed, explanation, level="other", err=None, replay_only=None, extra_cov=None, write=True):
    """Print the verdict lines, write evidence and replay files, return exit code."""
    known, fixed = load_known()
    evdir = os.path.join(VERIF, "evidence")
    os.makedirs(os.path.join(evdir, "replay"), exist_ok=True)
    refuted = [o for o in cx.obs if not o.ok]
    viol, kf = [], []
    for o in refuted:
        rec = next((r for r in known if _matches(o, prop, r)), None)
        (kf if rec else viol).append((o, rec))
    code = 0
    lines = []
    for o, rec in kf:
        lines.append(f"KNOWN-FINDING: property={prop} rule={o.rule} construct={o.construct} {rec.get('what', o.detail)}")
    replay_paths = []
    for o, _ in viol:
        h = hashlib.sha256(repr(o.key()).encode()).hexdigest()[:10]
        rp = os.path.join(evdir, "replay", f"{prop}-{o.rule}-{h}.json")
        if write:
            with open(rp, "w", encoding="utf-8") as f:
                json.dump({"property": prop, "tier": tier, "repo": cx.repo.root, "obligation": o.as_dict(),
                           "rule_text": cx.rules.get(o.rule, ""),
                           "how_to_replay": f"./check {prop} --replay {rp}"}, f, indent=1)
        replay_paths.append(rp)
        lines.append(f"REFUTED rule={o.rule} at={o.loc} construct={o.construct} stmt={o.stmt!r}: {o.detail}")
        lines.append(f"VIOLATION property={prop} replay={rp}")
        code = 1
    if err is not None:
        lines.append(f"ANALYSIS-ERROR property={prop} rule={err.rule} anchor={err.anchor} {err.detail}")
        if code == 0:
            code = 2
    wall = time.time() - t0
    n_ob = len(cx.obs)
    n_ok = sum(1 for o in cx.obs if o.ok)
    samples = [o.as_dict() for o in cx.obs]
    # keep evidence readable: all refuted, and up to 60 discharged
    shown = [s for s in samples if s["verdict"] == "refuted"] + [s for s in samples if s["verdict"] == "discharged"][:60]
    by_rule = {}
    for o in cx.obs:
        d = by_rule.setdefault(o.rule, {"obligations": 0, "discharged": 0, "text": cx.rules.get(o.rule, "")})
        d["obligations"] += 1
        d["discharged"] += int(o.ok)
    cov = {
        "explanation": explanation,
        "obligations": n_ob,
        "discharged": n_ok,
        "evaluations": n_ob,
        "distinct_nontrivial": len({o.key() for o in cx.obs}),
        "rule": "one obligation = one rule of the property evaluated on one construct (function, statement, call site, path or abstract case) of /repo's current source; distinct = distinct (rule, construct, statement) keys",
        "rules": by_rule,
        "counts": cx.counts,
        "path_instances_merged": getattr(cx, "_dups", 0),
        "samples": shown,
        "samples_total": len(samples),
        "checker_cmd": f"./check {prop} --tier {tier}",
        "trusted_base": ["CPython ast / re._parser", "the engine under /verif/sa (validated by /verif/selftest)"] + cx.trusted,
        "notes": cx.notes,
        "known_findings_matched": [o.as_dict() for o, _ in kf],
        "analysis_error": (str(err) if err else None),
        "repo_root": cx.repo.root if cx.repo else None,
    }
    if extra_cov:
        cov.update(extra_cov)
    ev = {
        "property_id": prop, "tier": tier, "seed": seed, "level": level, "coverage": cov,
        "assumptions": cx.assumptions, "wall_s": round(wall, 3), "violations": len(viol),
    }
    if write:
        with open(os.path.join(evdir, f"{prop}.json"), "w", encoding="utf-8") as f:
            json.dump(ev, f, indent=1)
    for l in lines:
        print(l)
    print(f"{prop} tier={tier} obligations={n_ob} discharged={n_ok} refuted={len(refuted)} "
          f"known={len(kf)} violations={len(viol)} analysis_error={'yes' if err else 'no'} wall={wall:.2f}s exit={code}")
    return code
