"""Event languages: the sequences of classified events (yields, appends to a
designated buffer, designated calls) a function can produce on any path are
compared with a regular specification (DFA) by exploring the product

    CFG node  x  tracked boolean flags  x  buffer mode  x  spec state

Loops are cycles of the CFG, so the check covers any number of iterations.
A refutation is a shortest path (list of source lines) to an event without a
transition, or to the function exit in a non-accepting state.
"""
import ast
import collections
import itertools

from .cfg import CFG
from .core import AnalysisError, walk_local, norm, is_name, ancestors as _ancestors


def bool_flags(func):
    """Local names all of whose bindings are the constants True / False."""
    assigned = collections.defaultdict(list)
    for n in walk_local(func):
        if isinstance(n, ast.Assign):
            for t in n.targets:
                if isinstance(t, ast.Name):
                    assigned[t.id].append(n.value)
                else:
                    for x in ast.walk(t):
                        if isinstance(x, ast.Name):
                            assigned[x.id].append(None)
        elif isinstance(n, (ast.AugAssign, ast.AnnAssign)) and isinstance(n.target, ast.Name):
            assigned[n.target.id].append(None)
        elif isinstance(n, (ast.For, ast.comprehension)):
            for x in ast.walk(n.target):
                if isinstance(x, ast.Name):
                    assigned[x.id].append(None)
    return sorted(k for k, vs in assigned.items() if vs and all(isinstance(v, ast.Constant) and isinstance(v.value, bool) for v in vs))


def eval_test(t, fl):
    """Possible truth values of test t given the flag valuation fl (name -> True/False/None)."""
    if isinstance(t, ast.Name) and t.id in fl and fl[t.id] is not None:
        return {fl[t.id]}
    if isinstance(t, ast.Constant):
        return {bool(t.value)}
    if isinstance(t, ast.UnaryOp) and isinstance(t.op, ast.Not):
        return {not v for v in eval_test(t.operand, fl)}
    if isinstance(t, ast.Compare) and len(t.ops) == 1 and isinstance(t.left, ast.Constant) and isinstance(t.comparators[0], ast.Name):
        # c <op> i: the mirrored spelling
        mir = {ast.Lt: ast.Gt, ast.Gt: ast.Lt, ast.LtE: ast.GtE, ast.GtE: ast.LtE, ast.Eq: ast.Eq, ast.NotEq: ast.NotEq}.get(type(t.ops[0]))
        if mir is not None:
            t = ast.Compare(left=t.comparators[0], ops=[mir()], comparators=[t.left])
    if isinstance(t, ast.Compare) and len(t.ops) == 1 and isinstance(t.left, ast.Name) and fl.get(t.left.id) is not None and fl.get("@idx:" + t.left.id) \
            and isinstance(t.comparators[0], ast.Constant) and isinstance(t.comparators[0].value, int):
        # index variable of `for i, x in enumerate(..)`: fl[i] is "i > 0"
        pos, c, op = fl[t.left.id], t.comparators[0].value, type(t.ops[0])
        table = {(ast.Gt, 0): pos, (ast.NotEq, 0): pos, (ast.GtE, 1): pos, (ast.Eq, 0): not pos, (ast.Lt, 1): not pos, (ast.LtE, 0): not pos}
        if (op, c) in table:
            return {table[(op, c)]}
        return {True, False}
    if isinstance(t, ast.BoolOp):
        vals = [eval_test(v, fl) for v in t.values]
        out = set()
        for combo in itertools.product(*vals):
            out.add(all(combo) if isinstance(t.op, ast.And) else any(combo))
        return out
    return {True, False}


class Result:
    def __init__(self):
        self.violations = []   # (message, [lines])
        self.uncertain = []    # the same, found only along paths through tests on untracked state (not findings)
        self.states = 0
        self.transitions = 0
        self.cfg_nodes = 0
        self.letters = collections.Counter()


def _atoms(t):
    if isinstance(t, ast.BoolOp):
        for v in t.values:
            yield from _atoms(v)
    elif isinstance(t, ast.UnaryOp) and isinstance(t.op, ast.Not):
        yield from _atoms(t.operand)
    else:
        yield t


def _position_like(a, names):
    """an atomic test that can encode "how many events so far" through untracked state: truthiness / None-ness / emptiness / a
    count of a variable that changes inside a loop.  Arithmetic on sizes (`used + len(item) > limit`) is a test on content: both
    outcomes are possible at any position, so exploring both is exact."""
    def plain(e):
        return isinstance(e, ast.Name) and e.id in names

    def size(e):
        return isinstance(e, ast.Call) and isinstance(e.func, ast.Name) and e.func.id == "len" and len(e.args) == 1 and plain(e.args[0])
    if plain(a) or size(a):
        return True
    if isinstance(a, ast.Compare) and len(a.ops) == 1:
        l, r = a.left, a.comparators[0]
        for x, y in ((l, r), (r, l)):
            if (plain(x) or size(x)) and isinstance(y, ast.Constant):
                return True
    return False


def reference_tests(func):
    """texts of the tests of the reference version of `func` (sa/alpha.py; empty when there is none): the tests the rules were
    written against and on which the engine is known to be precise enough"""
    from . import alpha
    from .core import norm as _n
    quals, p_ = [func.name], getattr(func, "_parent", None)
    while p_ is not None:
        if isinstance(p_, (ast.FunctionDef, ast.AsyncFunctionDef, ast.ClassDef)):
            quals.append(p_.name)
        p_ = getattr(p_, "_parent", None)
    mod = getattr(func, "_mod", None)
    fr = alpha.reference_function(mod.rel, ".".join(reversed(quals))) if mod is not None else None
    if fr is None:
        return None
    return {_n(x.test) for x in ast.walk(fr) if isinstance(x, (ast.If, ast.While, ast.IfExp))}


def check(func, classify, spec, start, accepting, erase=(), buffers=None, max_states=200000, loop_letters=None, known_tests=None):
    """classify(stmt) -> None | letter | tuple of letters, or ('@init', buffer, letters) / ('@append', buffer, letter) /
    ('@flush', buffer) for buffer statements.  `buffers` maps a buffer name to the AST If nodes whose test selects the
    flush (the branch containing the flush is taken exactly in COMMIT mode)."""
    g = CFG(func)
    flags = bool_flags(func)
    res = Result()
    res.cfg_nodes = len([n for n in g.nodes if n.id in g.reachable])
    buffers = buffers or {}
    flush_ifs = {}
    for b in buffers:
        for n in walk_local(func):
            if isinstance(n, ast.If) and any(isinstance(x, ast.YieldFrom) and is_name(x.value, b) for s in n.body for x in ast.walk(s)):
                flush_ifs[id(n)] = (b, True)
            elif isinstance(n, ast.If) and any(isinstance(x, ast.YieldFrom) and is_name(x.value, b) for s in n.orelse for x in ast.walk(s)):
                flush_ifs[id(n)] = (b, False)

    def fkey(fl):
        return tuple(sorted(fl.items(), key=lambda kv: kv[0]))
    # index variables of `for i, x in enumerate(<iterable>)` loops: tracked as the flag "i > 0" (False in the first iteration)
    idx_loops = {}
    for n_ in walk_local(func):
        if isinstance(n_, ast.For) and isinstance(n_.target, ast.Tuple) and len(n_.target.elts) == 2 and isinstance(n_.target.elts[0], ast.Name) \
                and isinstance(n_.iter, ast.Call) and isinstance(n_.iter.func, ast.Name) and n_.iter.func.id == "enumerate" and len(n_.iter.args) == 1 and not n_.iter.keywords:
            idx_loops[id(n_)] = n_.target.elts[0].id
    # a name qualifies only if every binding of it is such an enumerate index
    for nm_ in set(idx_loops.values()):
        stores = [x for x in walk_local(func) if isinstance(x, ast.Name) and x.id == nm_ and isinstance(x.ctx, ast.Store)]
        heads = [l for l in walk_local(func) if isinstance(l, ast.For) and id(l) in idx_loops and idx_loops[id(l)] == nm_]
        if len(stores) != len(heads):
            for l in heads:
                del idx_loops[id(l)]
    init_flags = {f: None for f in flags}
    for nm_ in set(idx_loops.values()):
        init_flags[nm_] = None
        init_flags["@idx:" + nm_] = True
    init = (g.entry.id, fkey(init_flags), None, start)
    seen = {init: None}
    work = collections.deque([init])

    # tests that depend on state the engine does not track: a name that is re-bound, grown or shrunk inside a loop of the function
    # (other than as a loop target) and is not one of the tracked flags.  A violation found along a path that takes such a test
    # both ways is not a finding, it is a loss of precision.
    tracked = set(init_flags) if False else set(flags) | set(idx_loops.values())
    state_names = set()
    for l_ in walk_local(func):
        if isinstance(l_, (ast.For, ast.While)):
            for x_ in ast.walk(l_):
                if x_ is l_:
                    continue
                if isinstance(x_, ast.Assign):
                    for t_ in x_.targets:
                        state_names |= {y_.id for y_ in ast.walk(t_) if isinstance(y_, ast.Name)}
                elif isinstance(x_, ast.AugAssign) and isinstance(x_.target, ast.Name):
                    state_names.add(x_.target.id)
                elif isinstance(x_, ast.Call) and isinstance(x_.func, ast.Attribute) and isinstance(x_.func.value, ast.Name) \
                        and x_.func.attr in ("append", "extend", "insert", "pop", "add", "remove", "clear", "update", "discard"):
                    state_names.add(x_.func.value.id)
    state_names -= set(idx_loops.values())

    def _uncertain(st):
        """does the path to product state `st` take a test on untracked state whose outcome the engine did not know?"""
        while st is not None:
            n_ = g.nodes[st[0]]
            if n_.kind in ("if", "while") and not (id(n_.ast) in flush_ifs):
                t_ = n_.ast.test
                if known_tests is not None and norm(t_) not in known_tests and eval_test(t_, dict(st[1])) == {True, False}:
                    # (a test the reference function has as well is taken both ways as before: the rule was validated on it)
                    cand_ = state_names - {k_ for k_, v_ in dict(st[1]).items() if v_ is not None}
                    if any(_position_like(a_, cand_) for a_ in _atoms(t_)):
                        return getattr(t_, "lineno", None) or True
            st = seen[st]
        return False

    def trace(st):
        out = []
        while st is not None:
            n = g.nodes[st[0]]
            ln = getattr(n.ast, "lineno", None)
            if ln is not None and (not out or out[-1] != ln):
                out.append(ln)
            st = seen[st]
        return list(reversed(out))

    while work:
        cur = work.popleft()
        nid, flk, mode, q = cur
        n = g.nodes[nid]
        res.states += 1
        if res.states > max_states:
            raise AnalysisError("events", getattr(func, "name", "?"), "product state limit exceeded")
        if n is g.exit:
            if q not in accepting:
                u_ = _uncertain(cur)
                (res.uncertain if u_ else res.violations).append((f"the function can end after an incomplete event sequence (specification state '{q}')", trace(cur)))
            continue
        if n is g.raise_:
            continue
        fl = dict(flk)
        succs = []  # (letters, next node, flags, mode)
        if n.kind in ("if", "while"):
            key = id(n.ast)
            if key in flush_ifs and mode is not None and mode[0] == flush_ifs[key][0]:
                b, branch = flush_ifs[key]
                vals = {branch if mode[1] == "COMMIT" else (not branch)}
            else:
                vals = eval_test(n.ast.test, fl)
            head = ()
            if loop_letters and n.kind == "while" and id(n.ast) in loop_letters:
                head = (loop_letters[id(n.ast)],)
            for s, lab in n.succ:
                if isinstance(lab, tuple) and lab[0] == "test" and lab[2] in vals:
                    succs.append((head, s, fl, mode))
        elif n.kind == "stmt" and isinstance(n.ast, ast.Assert):
            for s, lab in n.succ:
                if isinstance(lab, tuple) and lab[2] is True:
                    succs.append(((), s, fl, mode))
        elif n.kind in ("for", "with", "try", "except", "entry", "def", "match"):
            for s, lab in n.succ:
                if lab in ("may-raise", "except-unmatched"):
                    continue
                succs.append(((), s, fl, mode))
        else:
            st = n.ast
            nxt = [(s, lab) for s, lab in n.succ if lab not in ("may-raise", "except-unmatched")]
            letters = ()
            fl2, mode2 = fl, mode
            forks = None
            if isinstance(st, ast.Assign) and len(st.targets) == 1 and isinstance(st.targets[0], ast.Name) and st.targets[0].id in flags:
                fl2 = dict(fl)
                fl2[st.targets[0].id] = st.value.value
            else:
                c = classify(st)
                if c is None:
                    letters = ()
                elif isinstance(c, tuple) and c and c[0] == "@init":
                    forks = [((c[2] if m == "COMMIT" else ()), (c[1], m)) for m in ("COMMIT", "DISCARD")]
                elif isinstance(c, tuple) and c and c[0] == "@append":
                    if mode is None or mode[0] != c[1]:
                        raise AnalysisError("events", func.name, f"append to buffer {c[1]} outside its region (line {st.lineno})")
                    letters = (c[2],) if mode[1] == "COMMIT" else ()
                elif isinstance(c, tuple) and c and c[0] == "@append*":
                    if mode is None or mode[0] != c[1]:
                        raise AnalysisError("events", func.name, f"append to buffer {c[1]} outside its region (line {st.lineno})")
                    letters = tuple(c[2]) if mode[1] == "COMMIT" else ()
                elif isinstance(c, tuple) and c and c[0] == "@flush":
                    if mode is None or mode != (c[1], "COMMIT"):
                        raise AnalysisError("events", func.name, f"flush of buffer {c[1]} in mode {mode} (line {st.lineno})")
                    mode2 = None
                elif isinstance(c, tuple):
                    letters = c
                else:
                    letters = (c,)
                if letters and mode is not None and mode[1] == "COMMIT" and not (isinstance(c, tuple) and c and c[0] in ("@append", "@append*")):
                    raise AnalysisError("events", func.name, f"direct event while buffer {mode[0]} is pending (line {st.lineno}): order would differ")
            if forks is not None:
                for ls, m in forks:
                    for s, lab in nxt:
                        succs.append((tuple(ls), s, fl2, m))
            else:
                for s, lab in nxt:
                    succs.append((tuple(letters), s, fl2, mode2))
        for letters, s, fl2, mode2 in succs:
            res.transitions += 1
            q2 = q
            bad = False
            for L in letters:
                res.letters[L] += 1
                if L == "UNKNOWN":
                    raise AnalysisError("events", func.name, f"unclassified event at line {getattr(n.ast, 'lineno', '?')}: {norm(n.ast)[:80]}")
                if L in erase:
                    continue
                if (q2, L) not in spec:
                    u_ = _uncertain(cur)
                    (res.uncertain if u_ else res.violations).append((f"event {L} at line {getattr(n.ast, 'lineno', '?')} is not allowed in specification state '{q2}'", trace(cur) + [getattr(n.ast, "lineno", 0)]))
                    bad = True
                    break
                q2 = spec[(q2, L)]
            if bad:
                continue
            if s.kind == "for" and id(s.ast) in idx_loops:
                # arriving at the loop head: from inside its body = a later iteration (i > 0), from outside = the first one
                inside = n is not s and any(a is s.ast for a in _ancestors(n.ast))
                fl2 = dict(fl2)
                fl2[idx_loops[id(s.ast)]] = inside
            nx = (s.id, fkey(fl2), mode2, q2)
            if nx not in seen:
                seen[nx] = cur
                work.append(nx)
    return res
