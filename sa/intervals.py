"""Integer intervals of expressions, from must-facts and definitions (flow-insensitive over definitions, path-sensitive through
the facts at the use): enough to bound a value that is computed in one of a few branches - possibly inside private helpers - and
range-checked somewhere on the way.

    of(expr, func, repo=None) -> (lo, hi, is_int)      lo / hi None = unbounded, is_int = the value is known to be an int

Sound in the direction the rules need: the interval contains every value the expression can take *when it is an int and the facts
hold*; `is_int` is True only when every source is an int constant, int()/len(), integer arithmetic, or carries an
`isinstance(x, int)` must-fact (also through `all(isinstance(c, int) .. for c in seq)` for the elements unpacked from seq)."""
import ast

from .core import FUNC, assignments, call_name, is_name, params, walk_local
from .guards import facts, int_bounds, split

INF = None


def _add(a, b):
    return None if a is None or b is None else a + b


def _union(xs):
    lo = hi = 0
    first = True
    isint = True
    for l, h, i in xs:
        isint = isint and i
        if first:
            lo, hi, first = l, h, False
        else:
            lo = None if lo is None or l is None else min(lo, l)
            hi = None if hi is None or h is None else max(hi, h)
    return (None, None, False) if first else (lo, hi, isint)


def _meet(iv, lo, hi):
    l, h, i = iv
    if lo is not None:
        l = lo if l is None else max(l, lo)
    if hi is not None:
        h = hi if h is None else min(h, hi)
    return l, h, i


def _mul(a, b):
    (al, ah, ai), (bl, bh, bi) = a, b
    if None in (al, ah, bl, bh):
        # one constant non-negative factor keeps a lower bound of a non-negative other factor
        if al is not None and bl is not None and al >= 0 and bl >= 0:
            return al * bl, None, ai and bi
        return None, None, ai and bi
    ps = [al * bl, al * bh, ah * bl, ah * bh]
    return min(ps), max(ps), ai and bi


def _is_int_fact(fs, name):
    return any(isinstance(e, ast.Call) and call_name(e) == "isinstance" and pol and len(e.args) == 2 and is_name(e.args[0], name) and is_name(e.args[1], "int") for e, pol in fs)


def _element_bounds(st, seq_name):
    """bounds of the elements of `seq_name` established by all(.. for c in seq) / not any(.. for c in seq) must-facts at st"""
    lo = hi = None
    isint = False
    for e, pol in facts(st):
        if not (isinstance(e, ast.Call) and call_name(e) in ("all", "any") and len(e.args) == 1 and isinstance(e.args[0], ast.GeneratorExp)):
            continue
        g = e.args[0]
        if len(g.generators) != 1 or g.generators[0].ifs or not isinstance(g.generators[0].target, ast.Name) or not is_name(g.generators[0].iter, seq_name):
            continue
        v = g.generators[0].target.id
        if (call_name(e) == "all") != pol:
            continue            # all(..) must hold / any(..) must not
        inner = split(g.elt, call_name(e) == "all")
        l, h = int_bounds(inner, v)
        if l is not None:
            lo = l if lo is None else max(lo, l)
        if h is not None:
            hi = h if hi is None else min(hi, h)
        isint = isint or _is_int_fact(inner, v)
    return lo, hi, isint


def of(e, func, repo=None, depth=0, _stack=()):
    if depth > 6:
        return None, None, False
    if isinstance(e, ast.Constant):
        if isinstance(e.value, int) and not isinstance(e.value, bool):
            return e.value, e.value, True
        return None, None, False
    if isinstance(e, ast.UnaryOp) and isinstance(e.op, ast.USub):
        l, h, i = of(e.operand, func, repo, depth, _stack)
        return (None if h is None else -h), (None if l is None else -l), i
    if isinstance(e, ast.BinOp) and isinstance(e.op, (ast.Add, ast.Sub, ast.Mult)):
        a, b = of(e.left, func, repo, depth, _stack), of(e.right, func, repo, depth, _stack)
        if isinstance(e.op, ast.Add):
            return _add(a[0], b[0]), _add(a[1], b[1]), a[2] and b[2]
        if isinstance(e.op, ast.Sub):
            return _add(a[0], None if b[1] is None else -b[1]), _add(a[1], None if b[0] is None else -b[0]), a[2] and b[2]
        return _mul(a, b)
    if isinstance(e, ast.Call) and isinstance(e.func, ast.Name) and e.func.id in ("int", "len") and len(e.args) == 1 and not e.keywords:
        return (0 if e.func.id == "len" else None), None, True
    if isinstance(e, ast.IfExp):
        return _union([of(e.body, func, repo, depth, _stack), of(e.orelse, func, depth=depth, repo=repo, _stack=_stack)])
    if isinstance(e, ast.Call):
        h = _helper(e, func, repo)
        if h is not None and id(h) not in _stack:
            rets = [r for r in walk_local(h) if isinstance(r, ast.Return) and r.value is not None]
            if rets:
                return _union([of(r.value, h, repo, depth + 1, _stack + (id(h),)) for r in rets])
        return None, None, False
    if isinstance(e, ast.Name):
        key = (id(func), e.id)
        fs = facts(e)
        flo, fhi = int_bounds(fs, e.id)
        fint = _is_int_fact(fs, e.id)
        if key in _stack:
            return _meet((None, None, fint), flo, fhi)
        defs = assignments(func, e.id) if func is not None else []
        parts = []
        if func is not None and e.id in params(func):
            parts.append((None, None, False))
        for st, v in defs:
            if v is not None:
                parts.append(of(v, func, repo, depth + 1, _stack + (key,)))
            elif isinstance(st, ast.Assign) and isinstance(st.targets[0], ast.Tuple) and isinstance(st.value, ast.Name):
                parts.append(_element_bounds(st, st.value.id))
            else:
                parts.append((None, None, False))
        iv = _union(parts) if parts else (None, None, False)
        iv = (iv[0], iv[1], iv[2] or fint)
        return _meet(iv, flo, fhi)
    return None, None, False


def _helper(call, func, repo):
    f = call.func
    cls = getattr(func, "_parent", None)
    while cls is not None and not isinstance(cls, ast.ClassDef):
        cls = getattr(cls, "_parent", None)
    if isinstance(f, ast.Attribute) and isinstance(f.value, ast.Name) and cls is not None and (f.value.id in ("self", "cls") or f.value.id == cls.name):
        return next((m for m in cls.body if isinstance(m, FUNC) and m.name == f.attr and m.name.startswith("_")), None)
    return None
