"""Normalisation of local variable names against a reference copy of the package.

Many rules of this checker name the local variables of the functions they analyse (`top`, `cur_prod`, `parse_stack` ...).
Renaming a local is the commonest behaviour-preserving edit there is, and it must not change any verdict.  Before a module
is analysed, the locals of each of its functions are therefore renamed *back* to the names the same function uses in the
reference copy (/verif/reference/, a snapshot of the sources the rules were written against), wherever a correspondence can
be established:

  1. the two function bodies have the same shape (same tree once every local name is blanked): names correspond position by
     position;
  2. otherwise the flattened statement headers of both bodies are aligned (difflib on their shapes) and the names of aligned
     statements vote for a correspondence.

Whatever correspondence is found is applied only as a *valid alpha-renaming*: injective on the locals of the function, never
onto a name the function already uses for something else (parameter, global, builtin, attribute base, name used in a nested
scope) unless that name is renamed away at the same time.  A valid alpha-renaming does not change the behaviour of the function,
so analysing the renamed tree decides the same properties as analysing the tree as written - the correspondence only decides
which (equivalent) spelling the rules get to see.  Nothing is executed; the reference is data, like the instance tables of
the rules.  Reports quote statements in the normalised spelling with the line numbers of the analysed file.
"""
import ast
import builtins
import difflib
import os

FUNC = (ast.FunctionDef, ast.AsyncFunctionDef)
REFERENCE_ROOT = os.path.join(os.path.dirname(os.path.dirname(os.path.abspath(__file__))), "reference")
_BUILTINS = set(dir(builtins))


def _own_nodes(f):
    """nodes of f that belong to f's own scope (nested def / lambda / class bodies excluded; their headers too)"""
    out = []
    todo = list(reversed(f.body))
    for a in ast.walk(f.args):
        pass
    stack = list(f.body)
    order = []

    def visit(n):
        order.append(n)
        if isinstance(n, FUNC + (ast.Lambda, ast.ClassDef)):
            return
        for c in ast.iter_child_nodes(n):
            visit(c)
    for st in f.body:
        visit(st)
    return order


def _scope_info(f):
    own = _own_nodes(f)
    params = {a.arg for a in f.args.args + f.args.kwonlyargs + f.args.posonlyargs}
    if f.args.vararg:
        params.add(f.args.vararg.arg)
    if f.args.kwarg:
        params.add(f.args.kwarg.arg)
    declared = set()
    stores, loads = set(), set()
    imported = set()
    nested_names = set()
    nested_defs = set()
    for n in own:
        if isinstance(n, (ast.Global, ast.Nonlocal)):
            declared.update(n.names)
        elif isinstance(n, ast.Name):
            (stores if isinstance(n.ctx, (ast.Store, ast.Del)) else loads).add(n.id)
        elif isinstance(n, ast.ExceptHandler) and n.name:
            stores.add(n.name)
        elif isinstance(n, (ast.Import, ast.ImportFrom)):
            for a in n.names:
                imported.add((a.asname or a.name).split(".")[0])
        elif isinstance(n, FUNC + (ast.Lambda, ast.ClassDef)):
            if not isinstance(n, ast.Lambda):
                nested_defs.add(n.name)
            for x in ast.walk(n):
                if isinstance(x, ast.Name):
                    nested_names.add(x.id)
                elif isinstance(x, ast.arg):
                    nested_names.add(x.arg)
    locals_ = stores - params - declared - imported - nested_names - nested_defs
    others = (loads | params | declared | imported | nested_names | nested_defs) - locals_
    return own, locals_, others


def _shape(node, locals_):
    """string describing node with local names blanked; also returns the local Name nodes in traversal order"""
    names = []

    def rec(n):
        if isinstance(n, FUNC + (ast.ClassDef,)):
            return f"<def {n.name}>"
        if isinstance(n, ast.Lambda):
            return "<lambda>"
        if isinstance(n, ast.Name):
            if n.id in locals_:
                names.append(n)
                return "$"
            return f"N:{n.id}"
        if isinstance(n, ast.Constant):
            return f"C:{n.value!r}"
        if isinstance(n, ast.AST):
            parts = [type(n).__name__]
            for fld, v in ast.iter_fields(n):
                if fld in ("ctx", "type_comment", "lineno", "col_offset", "end_lineno", "end_col_offset", "kind"):
                    continue
                if isinstance(n, ast.ExceptHandler) and fld == "name":
                    if v in locals_:
                        names.append(n)
                        parts.append("$")
                    else:
                        parts.append(str(v))
                    continue
                parts.append(rec(v))
            return "(" + " ".join(parts) + ")"
        if isinstance(n, list):
            return "[" + " ".join(rec(x) for x in n) + "]"
        return repr(n)
    s = rec(node)
    return s, names


def _name_of(n):
    return n.name if isinstance(n, ast.ExceptHandler) else n.id


def _headers(f):
    """flattened list of statements of f's own scope; compound statements contribute their header only"""
    out = []

    def rec(stmts):
        for st in stmts:
            if isinstance(st, FUNC + (ast.ClassDef,)):
                continue
            out.append(st)
            for fld in ("body", "orelse", "finalbody"):
                v = getattr(st, fld, None)
                if isinstance(v, list) and v and isinstance(v[0], ast.stmt):
                    rec(v)
            if isinstance(st, ast.Try):
                for h in st.handlers:
                    out.append(h)
                    rec(h.body)
    rec(f.body)
    return out


def _header_shape(st, locals_):
    if isinstance(st, (ast.If, ast.While)):
        return _shape(st.test, locals_)[0].join(("H:" + type(st).__name__ + "(", ")")), _shape(st.test, locals_)[1]
    if isinstance(st, (ast.For, ast.AsyncFor)):
        a, na = _shape(st.target, locals_)
        b, nb = _shape(st.iter, locals_)
        return f"H:For({a} in {b})", na + nb
    if isinstance(st, ast.With):
        parts, ns = [], []
        for it in st.items:
            a, na = _shape(it.context_expr, locals_)
            parts.append(a)
            ns += na
            if it.optional_vars is not None:
                b, nb = _shape(it.optional_vars, locals_)
                parts.append(b)
                ns += nb
        return "H:With(" + ",".join(parts) + ")", ns
    if isinstance(st, ast.Try):
        return "H:Try", []
    if isinstance(st, ast.ExceptHandler):
        a, na = _shape(st.type, locals_) if st.type is not None else ("", [])
        ns = list(na)
        if st.name and st.name in locals_:
            ns.append(st)
        return f"H:Except({a})", ns
    return _shape(st, locals_)


def correspondence(f_new, f_ref):
    """-> ({new local name: reference name}, how) with how in 'same-shape' / 'aligned' / None"""
    _o1, loc_new, oth_new = _scope_info(f_new)
    _o2, loc_ref, _oth_ref = _scope_info(f_ref)
    if not loc_new or not loc_ref:
        return {}, None, loc_new, oth_new
    s_new, n_new = _shape(f_new.body, loc_new)
    s_ref, n_ref = _shape(f_ref.body, loc_ref)
    votes = {}
    how = None
    if s_new == s_ref and len(n_new) == len(n_ref):
        how = "same-shape"
        for a, b in zip(n_new, n_ref):
            votes.setdefault(_name_of(a), {}).setdefault(_name_of(b), 0)
            votes[_name_of(a)][_name_of(b)] += 1
    else:
        how = "aligned"
        h_new, h_ref = _headers(f_new), _headers(f_ref)
        sh_new = [_header_shape(st, loc_new) for st in h_new]
        sh_ref = [_header_shape(st, loc_ref) for st in h_ref]
        sm = difflib.SequenceMatcher(a=[x[0] for x in sh_new], b=[x[0] for x in sh_ref], autojunk=False)
        for blk in sm.get_matching_blocks():
            for k in range(blk.size):
                na, nb = sh_new[blk.a + k][1], sh_ref[blk.b + k][1]
                if len(na) != len(nb):
                    continue
                for a, b in zip(na, nb):
                    votes.setdefault(_name_of(a), {}).setdefault(_name_of(b), 0)
                    votes[_name_of(a)][_name_of(b)] += 1
    mapping = {}
    for a, d in votes.items():
        best = max(d.items(), key=lambda kv: (kv[1], kv[0] == a))
        # a clear winner only
        if sum(1 for v in d.values() if v == best[1]) > 1 and best[0] != a:
            continue
        mapping[a] = best[0]
    return mapping, how, loc_new, oth_new


def _valid(mapping, locals_, others):
    """restrict the mapping to a valid alpha-renaming of the function's locals"""
    m = {a: b for a, b in mapping.items() if a in locals_ and a != b}
    changed = True
    while changed:
        changed = False
        # injective
        seen = {}
        for a, b in list(m.items()):
            if b in seen:
                del m[a]
                changed = True
            else:
                seen[b] = a
        # the target must be free: not a non-local name of the function, not a builtin used ... and if it is another local of
        # the function, that local must be renamed away as well
        for a, b in list(m.items()):
            if b in others or (b in locals_ and b not in m) or (b in _BUILTINS and b in others):
                del m[a]
                changed = True
    # locals that keep their name must not collide with a target
    targets = set(m.values())
    for a in list(locals_):
        if a not in m and a in targets:
            # cannot happen after the loop above (b in locals_ and b not in m is rejected), kept for clarity
            pass
    return m


def apply(f, m):
    if not m:
        return 0
    n_ = 0
    for n in _own_nodes(f):
        if isinstance(n, ast.Name) and n.id in m:
            n.id = m[n.id]
            n_ += 1
        elif isinstance(n, ast.ExceptHandler) and n.name in m:
            n.name = m[n.name]
            n_ += 1
    return n_


_REF_CACHE = {}


def reference_module(rel):
    if rel not in _REF_CACHE:
        p = os.path.join(REFERENCE_ROOT, rel)
        tree = None
        if os.path.exists(p):
            try:
                tree = ast.parse(open(p, encoding="utf-8").read())
            except SyntaxError:
                tree = None
        _REF_CACHE[rel] = tree
    return _REF_CACHE[rel]


def _index(tree):
    out = {}

    def rec(node, prefix):
        for c in ast.iter_child_nodes(node):
            if isinstance(c, FUNC + (ast.ClassDef,)):
                q = prefix + c.name
                k, i = q, 1
                while k in out:
                    i += 1
                    k = f"{q}#{i}"
                out[k] = c
                rec(c, q + ".")
            elif not isinstance(c, ast.Lambda):
                rec(c, prefix)
    rec(tree, "")
    return out


def normalise_module(tree, rel):
    """rename the locals of the functions of `tree` to the reference spelling; -> report dict"""
    ref = reference_module(rel)
    rep = {"functions": 0, "renamed_functions": 0, "names": 0, "same_shape": 0, "aligned": 0, "details": {}}
    if ref is None or os.environ.get("VERIF_NO_ALPHA") == "1":
        return rep
    new_defs, ref_defs = _index(tree), _index(ref)
    # inner functions first, so that an outer function's view of "names used in nested scopes" is final
    for q in sorted(new_defs, key=lambda k: -k.count(".")):
        f = new_defs[q]
        if not isinstance(f, FUNC) or q not in ref_defs or not isinstance(ref_defs[q], FUNC):
            continue
        rep["functions"] += 1
        mapping, how, locals_, others = correspondence(f, ref_defs[q])
        m = _valid(mapping, locals_, others)
        if m:
            apply(f, m)
            rep["renamed_functions"] += 1
            rep["names"] += len(m)
            rep["same_shape" if how == "same-shape" else "aligned"] += 1
            rep["details"][q] = m
    return rep
