"""Normalisation of local variable names against a reference copy of the package.

Many rules of this checker name the local variables of the functions they analyse (`top`, `cur_prod`, `parse_stack` ...).
Renaming a local is the commonest behaviour-preserving edit there is, and it must not change any verdict.  Before a module
is analysed, the locals of each of its functions are therefore renamed *back* to the names the same function uses in the
reference copy (/verif/reference/, a snapshot of the sources the rules were written against), wherever a correspondence can
be established:

  1. the two function bodies have the same shape (same tree once every local name is blanked): names correspond position by
     position;
  2. otherwise the flattened statement headers of both bodies are aligned (difflib on their shapes) and the names of aligned
     statements vote for a correspondence.

Whatever correspondence is found is applied only as a *valid alpha-renaming*: injective on the locals of the function, never
onto a name the function already uses for something else (parameter, global, builtin, attribute base, name used in a nested
scope) unless that name is renamed away at the same time.  A valid alpha-renaming does not change the behaviour of the function,
so analysing the renamed tree decides the same properties as analysing the tree as written - the correspondence only decides
which (equivalent) spelling the rules get to see.  Nothing is executed; the reference is data, like the instance tables of
the rules.  Reports quote statements in the normalised spelling with the line numbers of the analysed file.
"""
import ast
import builtins
import difflib
import os

FUNC = (ast.FunctionDef, ast.AsyncFunctionDef)
REFERENCE_ROOT = os.path.join(os.path.dirname(os.path.dirname(os.path.abspath(__file__))), "reference")
_BUILTINS = set(dir(builtins))


def _own_nodes(f):
    """nodes of f that belong to f's own scope (nested def / lambda / class bodies excluded; their headers too)"""
    out = []
    todo = list(reversed(f.body))
    for a in ast.walk(f.args):
        pass
    stack = list(f.body)
    order = []

    def visit(n):
        order.append(n)
        if isinstance(n, FUNC + (ast.Lambda, ast.ClassDef)):
            return
        for c in ast.iter_child_nodes(n):
            visit(c)
    for st in f.body:
        visit(st)
    return order


def _scope_info(f, free_params=frozenset()):
    """free_params: parameters of f that may be renamed like locals (private function, never passed by keyword)"""
    own = _own_nodes(f)
    params = {a.arg for a in f.args.args + f.args.kwonlyargs + f.args.posonlyargs}
    if f.args.vararg:
        params.add(f.args.vararg.arg)
    if f.args.kwarg:
        params.add(f.args.kwarg.arg)
    params = params - set(free_params)
    declared = set()
    stores, loads = set(), set()
    imported = set()
    nested_names = set()
    nested_defs = set()
    for n in own:
        if isinstance(n, (ast.Global, ast.Nonlocal)):
            declared.update(n.names)
        elif isinstance(n, ast.Name):
            (stores if isinstance(n.ctx, (ast.Store, ast.Del)) else loads).add(n.id)
        elif isinstance(n, ast.ExceptHandler) and n.name:
            stores.add(n.name)
        elif isinstance(n, (ast.Import, ast.ImportFrom)):
            for a in n.names:
                imported.add((a.asname or a.name).split(".")[0])
        elif isinstance(n, FUNC + (ast.Lambda, ast.ClassDef)):
            if not isinstance(n, ast.Lambda):
                nested_defs.add(n.name)
            for x in ast.walk(n):
                if isinstance(x, ast.Name):
                    nested_names.add(x.id)
                elif isinstance(x, ast.arg):
                    nested_names.add(x.arg)
    locals_ = (stores | set(free_params)) - params - declared - imported - nested_names - nested_defs
    others = (loads | params | declared | imported | nested_names | nested_defs) - locals_
    return own, locals_, others


_MIRROR_SHAPE = {ast.Lt: ast.Gt, ast.Gt: ast.Lt, ast.LtE: ast.GtE, ast.GtE: ast.LtE, ast.Eq: ast.Eq, ast.NotEq: ast.NotEq}
_NEG_SHAPE = {ast.In: ast.NotIn, ast.Is: ast.IsNot, ast.Eq: ast.NotEq, ast.NotEq: ast.Eq}


def _unnegated(t):
    """the test without a leading negation (`not x` -> x, != -> ==, is not -> is, not in -> in): if/else branches may be swapped"""
    if isinstance(t, ast.UnaryOp) and isinstance(t.op, ast.Not):
        return _unnegated(t.operand)
    if isinstance(t, ast.Compare) and len(t.ops) == 1:
        pos = {ast.NotEq: ast.Eq, ast.IsNot: ast.Is, ast.NotIn: ast.In}.get(type(t.ops[0]))
        if pos is not None:
            return ast.Compare(left=t.left, ops=[pos()], comparators=t.comparators)
    return t


def _shape(node, locals_, attrs=frozenset(), attr_hits=None):
    """string describing node with local names (and the attribute names in `attrs`) blanked; also returns the local Name
    nodes in traversal order (and appends the blanked Attribute nodes to attr_hits)"""
    names = []

    def rec(n):
        if isinstance(n, FUNC + (ast.ClassDef,)):
            return f"<def {n.name}>"
        if isinstance(n, ast.Lambda):
            return "<lambda>"
        if isinstance(n, ast.Name):
            if n.id in locals_:
                names.append(n)
                return "$"
            return f"N:{n.id}"
        if isinstance(n, ast.Constant):
            return f"C:{n.value!r}"
        if isinstance(n, ast.Attribute) and n.attr in attrs:
            if attr_hits is not None:
                attr_hits.append(n)
            return "(Attribute " + rec(n.value) + " @)"
        if isinstance(n, ast.UnaryOp) and isinstance(n.op, ast.Not) and isinstance(n.operand, ast.Compare) and len(n.operand.ops) == 1 \
                and type(n.operand.ops[0]) in (ast.In, ast.Is, ast.Eq, ast.NotEq):
            # not (a in b) is shaped like a not in b
            c = n.operand
            return rec(ast.Compare(left=c.left, ops=[_NEG_SHAPE[type(c.ops[0])]()], comparators=c.comparators))
        if isinstance(n, ast.IfExp):
            # polarity-free: `a if not c else b` is shaped like `b if c else a`
            t_ = _unnegated(n.test)
            if t_ is not n.test:
                return rec(ast.IfExp(test=t_, body=n.orelse, orelse=n.body))
        if isinstance(n, ast.Compare) and len(n.ops) == 1 and type(n.ops[0]) in _MIRROR_SHAPE:
            # orientation-free shape of a comparison: (a > b) is shaped like (b < a); for == / != the two sides are ordered by
            # their own shapes, and when these are equal the names on both sides do not vote (their order is arbitrary)
            op = type(n.ops[0])
            l, r = n.left, n.comparators[0]
            k0 = len(names)
            sl = rec(l)
            k1 = len(names)
            sr = rec(r)
            nl, nr = names[k0:k1], names[k1:]
            del names[k0:]
            if op in (ast.Gt, ast.GtE):
                op = _MIRROR_SHAPE[op]
                sl, sr, nl, nr = sr, sl, nr, nl
            if op in (ast.Eq, ast.NotEq):
                if sl == sr:
                    nl, nr = [], []         # ambiguous
                elif sr < sl:
                    sl, sr, nl, nr = sr, sl, nr, nl
            names.extend(nl)
            names.extend(nr)
            return f"(Compare {sl} {op.__name__} {sr})"
        if isinstance(n, ast.AST):
            parts = [type(n).__name__]
            for fld, v in ast.iter_fields(n):
                if fld in ("ctx", "type_comment", "lineno", "col_offset", "end_lineno", "end_col_offset", "kind"):
                    continue
                if isinstance(n, ast.ExceptHandler) and fld == "name":
                    if v in locals_:
                        names.append(n)
                        parts.append("$")
                    else:
                        parts.append(str(v))
                    continue
                parts.append(rec(v))
            return "(" + " ".join(parts) + ")"
        if isinstance(n, list):
            return "[" + " ".join(rec(x) for x in n) + "]"
        return repr(n)
    s = rec(node)
    return s, names


def _name_of(n):
    return n.name if isinstance(n, ast.ExceptHandler) else n.id


def _headers(f):
    """flattened list of statements of f's own scope; compound statements contribute their header only"""
    out = []

    def rec(stmts):
        for st in stmts:
            if isinstance(st, FUNC + (ast.ClassDef,)):
                continue
            out.append(st)
            for fld in ("body", "orelse", "finalbody"):
                v = getattr(st, fld, None)
                if isinstance(v, list) and v and isinstance(v[0], ast.stmt):
                    rec(v)
            if isinstance(st, ast.Try):
                for h in st.handlers:
                    out.append(h)
                    rec(h.body)
    rec(f.body)
    return out


def _header_shape(st, locals_):
    if isinstance(st, (ast.If, ast.While)):
        t_ = _unnegated(st.test) if isinstance(st, ast.If) else st.test
        sh_, nm_ = _shape(t_, locals_)
        return "H:" + type(st).__name__ + "(" + sh_ + ")", nm_
    if isinstance(st, (ast.For, ast.AsyncFor)):
        a, na = _shape(st.target, locals_)
        b, nb = _shape(st.iter, locals_)
        return f"H:For({a} in {b})", na + nb
    if isinstance(st, ast.With):
        parts, ns = [], []
        for it in st.items:
            a, na = _shape(it.context_expr, locals_)
            parts.append(a)
            ns += na
            if it.optional_vars is not None:
                b, nb = _shape(it.optional_vars, locals_)
                parts.append(b)
                ns += nb
        return "H:With(" + ",".join(parts) + ")", ns
    if isinstance(st, ast.Try):
        return "H:Try", []
    if isinstance(st, ast.ExceptHandler):
        a, na = _shape(st.type, locals_) if st.type is not None else ("", [])
        ns = list(na)
        if st.name and st.name in locals_:
            ns.append(st)
        return f"H:Except({a})", ns
    return _shape(st, locals_)


def correspondence(f_new, f_ref, free_new=frozenset(), free_ref=frozenset()):
    """-> ({new local name: reference name}, how) with how in 'same-shape' / 'aligned' / None"""
    _o1, loc_new, oth_new = _scope_info(f_new, free_new)
    _o2, loc_ref, _oth_ref = _scope_info(f_ref, free_ref)
    if not loc_new or not loc_ref:
        return {}, None, loc_new, oth_new
    s_new, n_new = _shape(f_new.body, loc_new)
    s_ref, n_ref = _shape(f_ref.body, loc_ref)
    votes = {}
    how = None
    if s_new == s_ref and len(n_new) == len(n_ref):
        how = "same-shape"
        for a, b in zip(n_new, n_ref):
            votes.setdefault(_name_of(a), {}).setdefault(_name_of(b), 0)
            votes[_name_of(a)][_name_of(b)] += 1
    else:
        how = "aligned"
        h_new, h_ref = _headers(f_new), _headers(f_ref)
        sh_new = [_header_shape(st, loc_new) for st in h_new]
        sh_ref = [_header_shape(st, loc_ref) for st in h_ref]
        sm = difflib.SequenceMatcher(a=[x[0] for x in sh_new], b=[x[0] for x in sh_ref], autojunk=False)
        for blk in sm.get_matching_blocks():
            for k in range(blk.size):
                na, nb = sh_new[blk.a + k][1], sh_ref[blk.b + k][1]
                if len(na) != len(nb):
                    continue
                for a, b in zip(na, nb):
                    votes.setdefault(_name_of(a), {}).setdefault(_name_of(b), 0)
                    votes[_name_of(a)][_name_of(b)] += 1
    # renamable parameters correspond by position
    pa = [a.arg for a in f_new.args.posonlyargs + f_new.args.args]
    pb = [a.arg for a in f_ref.args.posonlyargs + f_ref.args.args]
    if len(pa) == len(pb):
        for a, b in zip(pa, pb):
            if a in free_new and b in free_ref:
                votes.setdefault(a, {}).setdefault(b, 0)
                votes[a][b] += 1000
    mapping = {}
    for a, d in votes.items():
        best = max(d.items(), key=lambda kv: (kv[1], kv[0] == a))
        # a clear winner only
        if sum(1 for v in d.values() if v == best[1]) > 1 and best[0] != a:
            continue
        mapping[a] = best[0]
    return mapping, how, loc_new, oth_new


def _valid(mapping, locals_, others):
    """restrict the mapping to a valid alpha-renaming of the function's locals"""
    m = {a: b for a, b in mapping.items() if a in locals_ and a != b}
    changed = True
    while changed:
        changed = False
        # injective
        seen = {}
        for a, b in list(m.items()):
            if b in seen:
                del m[a]
                changed = True
            else:
                seen[b] = a
        # the target must be free: not a non-local name of the function, not a builtin used ... and if it is another local of
        # the function, that local must be renamed away as well
        for a, b in list(m.items()):
            if b in others or (b in locals_ and b not in m) or (b in _BUILTINS and b in others):
                del m[a]
                changed = True
    # locals that keep their name must not collide with a target
    targets = set(m.values())
    for a in list(locals_):
        if a not in m and a in targets:
            # cannot happen after the loop above (b in locals_ and b not in m is rejected), kept for clarity
            pass
    return m


def apply(f, m):
    if not m:
        return 0
    n_ = 0
    for a in f.args.posonlyargs + f.args.args + f.args.kwonlyargs + [x for x in (f.args.vararg, f.args.kwarg) if x is not None]:
        if a.arg in m:
            a.arg = m[a.arg]
            n_ += 1
    for n in _own_nodes(f):
        if isinstance(n, ast.Name) and n.id in m:
            n.id = m[n.id]
            n_ += 1
        elif isinstance(n, ast.ExceptHandler) and n.name in m:
            n.name = m[n.name]
            n_ += 1
    return n_


# ------------------------------------------------------------------------------------------------ respelling
def _simple_operand(e):
    if isinstance(e, (ast.Name, ast.Constant)):
        return True
    if isinstance(e, ast.Attribute):
        return _simple_operand(e.value)
    if isinstance(e, ast.Subscript):
        return _simple_operand(e.value) and (_simple_operand(e.slice) or isinstance(e.slice, ast.Slice))
    if isinstance(e, ast.UnaryOp) and isinstance(e.op, ast.USub):
        return _simple_operand(e.operand)
    if isinstance(e, ast.Call) and isinstance(e.func, ast.Name) and e.func.id == "len" and len(e.args) == 1 and not e.keywords:
        return _simple_operand(e.args[0])
    if isinstance(e, ast.BinOp) and isinstance(e.op, (ast.Add, ast.Sub, ast.Mult)):
        return _simple_operand(e.left) and _simple_operand(e.right)
    return False


_MIRROR = {ast.Lt: ast.Gt, ast.Gt: ast.Lt, ast.LtE: ast.GtE, ast.GtE: ast.LtE, ast.Eq: ast.Eq, ast.NotEq: ast.NotEq}
_NEG = {ast.Eq: ast.NotEq, ast.NotEq: ast.Eq, ast.Is: ast.IsNot, ast.IsNot: ast.Is, ast.In: ast.NotIn, ast.NotIn: ast.In}


def _negated(t):
    """an expression equivalent to `not t` for equality / identity / membership / truthiness tests; None for others"""
    if isinstance(t, ast.UnaryOp) and isinstance(t.op, ast.Not):
        return t.operand
    if isinstance(t, ast.Compare) and len(t.ops) == 1:
        if type(t.ops[0]) in _NEG:
            return ast.copy_location(ast.Compare(left=t.left, ops=[_NEG[type(t.ops[0])]()], comparators=t.comparators), t)
        return None
    if isinstance(t, ast.BoolOp):
        return None
    return ast.copy_location(ast.UnaryOp(op=ast.Not(), operand=t), t)


def _relinearise(if_node):
    """after the two branches of an `if` changed places: keep line numbers non-decreasing in structural order (rules and
    reports order sites by line); every statement keeps a line inside the same `if` statement"""
    stmts = []

    def rec(lst):
        for st in lst:
            stmts.append(st)
            for fld in ("body", "orelse", "finalbody"):
                v = getattr(st, fld, None)
                if isinstance(v, list) and v and isinstance(v[0], ast.stmt):
                    rec(v)
            if isinstance(st, ast.Try):
                for h in st.handlers:
                    rec(h.body)
    rec(if_node.body)
    rec(if_node.orelse)
    lines = sorted(getattr(st, "lineno", 0) for st in stmts)
    for st, ln in zip(stmts, lines):
        d = ln - getattr(st, "lineno", ln)
        if d:
            own = [st] + [x for x in ast.iter_child_nodes(st) if not isinstance(x, ast.stmt)]
            todo = list(own)
            while todo:
                x = todo.pop()
                if hasattr(x, "lineno"):
                    x.lineno += d
                if hasattr(x, "end_lineno") and x.end_lineno is not None:
                    x.end_lineno += d
                todo.extend(c for c in ast.iter_child_nodes(x) if not isinstance(c, ast.stmt))


def _comp_targets(comp):
    return {x.id for g in comp.generators for x in ast.walk(g.target) if isinstance(x, ast.Name)}


def _stmt_own_names(st, skip):
    """Name nodes of one statement's own expressions (not of the statements nested in it); nothing for statements inside `skip`"""
    cur = st
    out = []
    for fld, v in ast.iter_fields(st):
        if fld in ("body", "orelse", "finalbody", "handlers"):
            continue
        for x in (v if isinstance(v, list) else [v]):
            if isinstance(x, ast.AST):
                out.extend(n for n in ast.walk(x) if isinstance(n, ast.Name))
    return out


def _pair_headers(f_new, f_ref):
    """{id(statement of f_new): statement of f_ref} for the statements whose (negation-free, orientation-free, local names
    blanked) header shapes align in order"""
    _o1, loc_new, _x1 = _scope_info(f_new, frozenset(a.arg for a in f_new.args.posonlyargs + f_new.args.args))
    _o2, loc_ref, _x2 = _scope_info(f_ref, frozenset(a.arg for a in f_ref.args.posonlyargs + f_ref.args.args))
    h_new, h_ref = _headers(f_new), _headers(f_ref)
    sh_new = [_header_shape(st, loc_new)[0] for st in h_new]
    sh_ref = [_header_shape(st, loc_ref)[0] for st in h_ref]
    sm = difflib.SequenceMatcher(a=sh_new, b=sh_ref, autojunk=False)
    out = {}
    for blk in sm.get_matching_blocks():
        for k in range(blk.size):
            out[id(h_new[blk.a + k])] = h_ref[blk.b + k]
    return out, loc_new, loc_ref


def _leaves(stmts):
    if not stmts:
        return False
    last = stmts[-1]
    if isinstance(last, (ast.Return, ast.Raise, ast.Continue, ast.Break)):
        return True
    if isinstance(last, ast.If) and last.orelse:
        return _leaves(last.body) and _leaves(last.orelse)
    return False


def respell_aligned(f_new, f_ref):
    """if/else polarity decided per statement: an `if` of f_new that aligns with an `if` of the reference function whose test is
    the negation of its own gets the reference polarity -
        if T: A else: B           ->  if not-T: B else: A
        if T: A(leaves)  B(leaves, rest of the block)   ->  if not-T: B   A
    -> number of rewrites"""
    pairs, loc_new, loc_ref = _pair_headers(f_new, f_ref)
    n_ = [0]

    def block(owner, field):
        lst = getattr(owner, field)
        for i, st in enumerate(list(lst)):
            if isinstance(st, ast.If) and id(st) in pairs and isinstance(pairs[id(st)], ast.If):
                r = pairs[id(st)]
                neg = _negated(st.test)
                if neg is not None and _shape(st.test, loc_new)[0] != _shape(r.test, loc_ref)[0] and _shape(neg, loc_new)[0] == _shape(r.test, loc_ref)[0]:
                    if st.orelse:
                        st.test, st.body, st.orelse = neg, st.orelse, st.body
                        _relinearise(st)
                        n_[0] += 1
                    elif _leaves(st.body) and lst[i] is st and i + 1 < len(lst) and _leaves(lst[i + 1:]) and not r.orelse \
                            and not any(isinstance(x, FUNC + (ast.ClassDef,)) for x in lst[i + 1:]):
                        rest = lst[i + 1:]
                        tmp = ast.If(test=neg, body=rest, orelse=st.body)
                        _relinearise(tmp)
                        st.test, st.body = neg, rest
                        lst[i + 1:] = tmp.orelse
                        n_[0] += 1
                    elif isinstance(owner, (ast.For, ast.While)) and field == "body" and lst[i] is st and not r.orelse \
                            and not any(isinstance(x, FUNC + (ast.ClassDef,)) for x in lst[i + 1:]):
                        # the end of a loop body is a `continue`:
                        #    if T: continue   REST        <->      if not-T: REST            (last statement of the loop body)
                        only_continue = len(st.body) == 1 and isinstance(st.body[0], ast.Continue)
                        r_only_continue = len(r.body) == 1 and isinstance(r.body[0], ast.Continue)
                        if only_continue and not r_only_continue and i + 1 < len(lst):
                            st.test, st.body = neg, lst[i + 1:]
                            del lst[i + 1:]
                            n_[0] += 1
                        elif r_only_continue and not only_continue and i + 1 == len(lst):
                            cont = ast.copy_location(ast.Continue(), st)
                            body = st.body
                            st.test, st.body = neg, [cont]
                            lst.extend(body)
                            n_[0] += 1
        if isinstance(owner, (ast.For, ast.While)) and field == "body" and len(lst) > 1 and isinstance(lst[-1], ast.Continue) and id(lst[-1]) not in pairs:
            del lst[-1]         # a `continue` that ends the loop body says nothing
            n_[0] += 1
        for st in lst:
            if isinstance(st, FUNC + (ast.ClassDef,)):
                continue
            for fld in ("body", "orelse", "finalbody"):
                v = getattr(st, fld, None)
                if isinstance(v, list) and v and isinstance(v[0], ast.stmt):
                    block(st, fld)
            if isinstance(st, ast.Try):
                for h in st.handlers:
                    block(h, "body")
    block(f_new, "body")
    if n_[0]:
        ast.fix_missing_locations(f_new)
    return n_[0]


def inline_named_tests(f_new, f_ref):
    """-> number of named tests put back into the `if` they serve (runs before the names are aligned: a fresh name must not be
    taken for a variable of the reference function first)"""
    n_ = [0]
    # a named test that the reference function does not have:   t = <test>; if t: ..   ->   if <test>: ..   (t assigned once,
    # read once - in the test of the `if` that follows at once; inside a larger test only an expression without calls moves)
    ref_stored0 = {x.id for x in ast.walk(f_ref) if isinstance(x, ast.Name) and isinstance(x.ctx, ast.Store)}
    uses = {}
    for x in _own_nodes(f_new):
        if isinstance(x, ast.Name):
            uses.setdefault(x.id, [0, 0])[0 if isinstance(x.ctx, ast.Store) else 1] += 1
    nested_names = {x.id for o_ in ast.walk(f_new) if o_ is not f_new and isinstance(o_, FUNC + (ast.Lambda, ast.ClassDef)) for x in ast.walk(o_) if isinstance(x, ast.Name)}

    def _callfree(e):
        return not any(isinstance(x, (ast.Call, ast.NamedExpr, ast.Await, ast.Yield, ast.YieldFrom, ast.Lambda, ast.ListComp, ast.SetComp, ast.DictComp, ast.GeneratorExp))
                       and not (isinstance(x, ast.Call) and isinstance(x.func, ast.Name) and x.func.id in ("len", "isinstance", "hasattr")) for x in ast.walk(e))

    pairs_nt = _pair_headers(f_new, f_ref)[0]       # a statement that aligns with one of the reference is the reference's own naming

    def inline_tests(owner, field):
        lst = getattr(owner, field)
        i = 0
        while i + 1 < len(lst):
            a, b = lst[i], lst[i + 1]
            if isinstance(a, ast.Assign) and len(a.targets) == 1 and isinstance(a.targets[0], ast.Name) and isinstance(b, ast.If):
                t = a.targets[0].id
                if t not in ref_stored0 and id(a) not in pairs_nt and uses.get(t) == [1, 1] and t not in nested_names:
                    hits = [x for x in ast.walk(b.test) if isinstance(x, ast.Name) and x.id == t]
                    whole = isinstance(b.test, ast.Name) or (isinstance(b.test, ast.UnaryOp) and isinstance(b.test.op, ast.Not) and isinstance(b.test.operand, ast.Name))
                    if len(hits) == 1 and (whole or _callfree(a.value)):
                        class _Sub(ast.NodeTransformer):
                            def visit_Name(self, n):
                                return a.value if n is hits[0] else n
                        b.test = _Sub().visit(b.test)
                        del lst[i]
                        n_[0] += 1
                        continue
            i += 1
        for st in lst:
            if isinstance(st, FUNC + (ast.ClassDef,)):
                continue
            for fld in ("body", "orelse", "finalbody"):
                v = getattr(st, fld, None)
                if isinstance(v, list) and v and isinstance(v[0], ast.stmt):
                    inline_tests(st, fld)
            if isinstance(st, ast.Try):
                for h in st.handlers:
                    inline_tests(h, "body")
    inline_tests(f_new, "body")
    if n_[0]:
        ast.fix_missing_locations(f_new)
    return n_[0]


def respell(f_new, f_ref):
    """Bring equivalent spellings of conditions in f_new to the form the reference function uses (assumption, recorded in the
    evidence: comparison operators are consistent under reflection for the operands concerned - plain names, attribute paths,
    subscripts, constants, len() - and == / != are each other's negation):
        not (a in b) / not (a is b) / not (a == b) / not (a != b)      -> a not in b / a is not b / a != b / a == b   (always)
        b > a  -> a < b  (and the other mirror images)        when the reference function contains the mirrored comparison
                                                              and not the one written
        if T: A else: B  ->  if not-T: B else: A              when not-T is a test of the reference function and T is not
    -> number of rewrites"""
    from .core import norm as _norm
    n_ = [0]
    ref_cmp = {_norm(c) for c in ast.walk(f_ref) if isinstance(c, ast.Compare)}
    ref_tests = {_norm(s.test) for s in ast.walk(f_ref) if isinstance(s, (ast.If, ast.While, ast.IfExp))}

    def _in_ref(t):
        """the test, or its mirror image, whichever is a test of the reference function (None: neither)"""
        if t is None:
            return None
        if _norm(t) in ref_tests:
            return t
        if isinstance(t, ast.Compare) and len(t.ops) == 1 and type(t.ops[0]) in _MIRROR and _simple_operand(t.left) and _simple_operand(t.comparators[0]):
            m = ast.copy_location(ast.Compare(left=t.comparators[0], ops=[_MIRROR[type(t.ops[0])]()], comparators=[t.left]), t)
            if _norm(m) in ref_tests:
                return m
        return None

    ref_conjuncts = {_norm(v) for s_ in ast.walk(f_ref) if isinstance(s_, ast.If) and isinstance(s_.test, ast.BoolOp) and isinstance(s_.test.op, ast.And)
                     for v in s_.test.values}

    pairs0 = _pair_headers(f_new, f_ref)[0]

    def _paired_same(n):
        """the `if` aligns with an `if` of the reference function that has the same test (a test that merely occurs somewhere
        in the reference function - in a nested helper, say - does not count)"""
        r = pairs0.get(id(n))
        return isinstance(r, ast.If) and _norm(r.test) == _norm(n.test)


    class T(ast.NodeTransformer):
        def visit_UnaryOp(self, n):
            self.generic_visit(n)
            if isinstance(n.op, ast.Not) and isinstance(n.operand, ast.Compare) and len(n.operand.ops) == 1 and type(n.operand.ops[0]) in (ast.In, ast.Is, ast.Eq, ast.NotEq):
                n_[0] += 1
                return _negated(n.operand)
            return n

        def visit_Compare(self, n):
            self.generic_visit(n)
            if len(n.ops) == 1 and type(n.ops[0]) in _MIRROR and _simple_operand(n.left) and _simple_operand(n.comparators[0]):
                t = _norm(n)
                if t not in ref_cmp:
                    m = ast.copy_location(ast.Compare(left=n.comparators[0], ops=[_MIRROR[type(n.ops[0])]()], comparators=[n.left]), n)
                    if _norm(m) in ref_cmp:
                        n_[0] += 1
                        return m
            return n

        def visit_If(self, n):
            self.generic_visit(n)
            # `if a: if b: BODY` <-> `if a and b: BODY` (no else anywhere): the form the reference uses
            if not n.orelse and (_norm(n.test) not in ref_tests or not _paired_same(n)):
                if len(n.body) == 1 and isinstance(n.body[0], ast.If) and not n.body[0].orelse:
                    a_, b_ = n.test, n.body[0].test
                    vals = (a_.values if isinstance(a_, ast.BoolOp) and isinstance(a_.op, ast.And) else [a_]) + \
                           (b_.values if isinstance(b_, ast.BoolOp) and isinstance(b_.op, ast.And) else [b_])
                    comb = ast.copy_location(ast.BoolOp(op=ast.And(), values=vals), n.test)
                    # ... also when neither test is a test of the reference by itself but their parts are conjuncts of one:
                    # `if A: if B: if C:` against a reference `if A and C:` becomes `if A and B and C:`
                    # ... and when neither test occurs in the reference at all (new code: the merged form is the canonical one)
                    if _norm(comb) in ref_tests or (_norm(b_) not in ref_tests and (any(_norm(v) in ref_conjuncts for v in vals) or _norm(a_) not in ref_tests)):
                        n_[0] += 1
                        return ast.copy_location(ast.If(test=comb, body=n.body[0].body, orelse=[]), n)
                elif isinstance(n.test, ast.BoolOp) and isinstance(n.test.op, ast.And):
                    vs = n.test.values
                    for k in range(1, len(vs)):
                        head = vs[0] if k == 1 else ast.copy_location(ast.BoolOp(op=ast.And(), values=vs[:k]), n.test)
                        tail = vs[k] if k == len(vs) - 1 else ast.copy_location(ast.BoolOp(op=ast.And(), values=vs[k:]), n.test)
                        if _norm(head) in ref_tests and _norm(tail) in ref_tests:
                            n_[0] += 1
                            inner = ast.copy_location(ast.If(test=tail, body=n.body, orelse=[]), n)
                            return ast.copy_location(ast.If(test=head, body=[inner], orelse=[]), n)
            if n.orelse and not (len(n.orelse) == 1 and isinstance(n.orelse[0], ast.If)) and _norm(n.test) not in ref_tests:
                neg = _in_ref(_negated(n.test))
                if neg is not None:
                    n_[0] += 1
                    new_if = ast.copy_location(ast.If(test=neg, body=n.orelse, orelse=n.body), n)
                    _relinearise(new_if)
                    return new_if
            return n

        def visit_IfExp(self, n):
            self.generic_visit(n)
            if _norm(n.test) not in ref_tests:
                neg = _in_ref(_negated(n.test))
                if neg is not None:
                    n_[0] += 1
                    return ast.copy_location(ast.IfExp(test=neg, body=n.orelse, orelse=n.body), n)
            return n

        def visit_FunctionDef(self, n):
            if n is f_new:
                self.generic_visit(n)
            return n
        visit_AsyncFunctionDef = visit_FunctionDef

        def visit_Lambda(self, n):
            return n

        def visit_ClassDef(self, n):
            return n
    T().visit(f_new)
    # `if c: <..leaves> else: REST`  <->  `if c: <..leaves>` REST : the form the reference uses for the `if` with the same test
    ref_ifs = {}
    for s_ in ast.walk(f_ref):
        if isinstance(s_, ast.If):
            ref_ifs.setdefault(_norm(s_.test), []).append(s_)

    def leaves(stmts):
        if not stmts:
            return False
        last = stmts[-1]
        if isinstance(last, (ast.Return, ast.Raise, ast.Continue, ast.Break)):
            return True
        if isinstance(last, ast.If) and last.orelse:
            return leaves(last.body) and leaves(last.orelse)
        return False

    pairs = _pair_headers(f_new, f_ref)[0]

    def fix_block(owner, field):
        lst = getattr(owner, field)
        i = 0
        while i < len(lst):
            st = lst[i]
            if isinstance(st, ast.If) and not isinstance(st, FUNC):
                rs = ref_ifs.get(_norm(st.test), [])
                if len(rs) != 1 and isinstance(pairs.get(id(st)), ast.If) and _norm(pairs[id(st)].test) == _norm(st.test):
                    rs = [pairs[id(st)]]
                if len(rs) == 1 and leaves(st.body):
                    r = rs[0]
                    if st.orelse and not r.orelse and not (len(st.orelse) == 1 and isinstance(st.orelse[0], ast.If) and False):
                        # flatten: the else part follows the if
                        rest = st.orelse
                        st.orelse = []
                        lst[i + 1:i + 1] = rest
                        n_[0] += 1
                    elif not st.orelse and r.orelse and i + 1 < len(lst) and leaves(r.body) and not any(isinstance(x, FUNC + (ast.ClassDef,)) for x in lst[i + 1:]):
                        st.orelse = lst[i + 1:]
                        del lst[i + 1:]
                        n_[0] += 1
            i += 1
        for st in lst:
            if isinstance(st, FUNC + (ast.ClassDef,)):
                continue
            for fld in ("body", "orelse", "finalbody"):
                v = getattr(st, fld, None)
                if isinstance(v, list) and v and isinstance(v[0], ast.stmt):
                    fix_block(st, fld)
            if isinstance(st, ast.Try):
                for h in st.handlers:
                    fix_block(h, "body")
    fix_block(f_new, "body")
    # accumulation loop <-> comprehension, whichever the reference function has:
    #     xs = []                                   xs = [E for T in IT if C]
    #     for T in IT:            <->
    #         if C: xs.append(E)                    (also set() / .add and {} / d[K] = V)
    ref_stmts = {_norm(st_) for st_ in ast.walk(f_ref) if isinstance(st_, ast.Assign)}
    ref_loops = {_norm(st_.target) + " in " + _norm(st_.iter) for st_ in ast.walk(f_ref) if isinstance(st_, ast.For)}

    ref_stored = {x.id for x in ast.walk(f_ref) if isinstance(x, ast.Name) and isinstance(x.ctx, ast.Store)}
    ref_comp_names = {(st_.targets[0].id, type(st_.value)) for st_ in ast.walk(f_ref)
                      if isinstance(st_, ast.Assign) and len(st_.targets) == 1 and isinstance(st_.targets[0], ast.Name) and isinstance(st_.value, (ast.ListComp, ast.SetComp, ast.DictComp))}
    _accum = {x.func.value.id for x in ast.walk(f_ref) if isinstance(x, ast.Call) and isinstance(x.func, ast.Attribute) and x.func.attr in ("append", "add", "extend", "update", "insert")
              and isinstance(x.func.value, ast.Name)} | {x.value.id for x in ast.walk(f_ref) if isinstance(x, ast.Subscript) and isinstance(x.ctx, ast.Store) and isinstance(x.value, ast.Name)}
    ref_comp_names = {(n0, k0) for n0, k0 in ref_comp_names if n0 not in _accum}
    ref_comp_shapes = {}
    for st_ in ast.walk(f_ref):
        if isinstance(st_, ast.Assign) and isinstance(st_.value, (ast.ListComp, ast.SetComp, ast.DictComp)) and len(st_.targets) == 1 and isinstance(st_.targets[0], ast.Name):
            sh_, nm_ = _shape(st_, _comp_targets(st_.value))
            ref_comp_shapes.setdefault(sh_, []).append((st_, nm_))

    def as_comp(init, loop):
        """the comprehension equivalent to `init` followed by `loop`, or None"""
        if not (isinstance(init, ast.Assign) and len(init.targets) == 1 and isinstance(init.targets[0], ast.Name) and isinstance(loop, ast.For) and not loop.orelse):
            return None
        name = init.targets[0].id
        v = init.value
        kind = "list" if (isinstance(v, ast.List) and not v.elts) or (isinstance(v, ast.Call) and isinstance(v.func, ast.Name) and v.func.id == "list" and not v.args) else \
            "set" if (isinstance(v, ast.Call) and isinstance(v.func, ast.Name) and v.func.id == "set" and not v.args) else \
            "dict" if (isinstance(v, ast.Dict) and not v.keys) or (isinstance(v, ast.Call) and isinstance(v.func, ast.Name) and v.func.id == "dict" and not v.args and not v.keywords) else None
        if kind is None:
            return None
        body, conds = loop.body, []
        while len(body) == 1 and isinstance(body[0], ast.If) and not body[0].orelse:
            conds.append(body[0].test)
            body = body[0].body
        if len(body) != 1:
            return None
        st = body[0]
        used = {x.id for x in ast.walk(loop.iter) if isinstance(x, ast.Name)} | {x.id for c in conds for x in ast.walk(c) if isinstance(x, ast.Name)}
        if name in used:
            return None
        gen = ast.comprehension(target=loop.target, iter=loop.iter, ifs=conds, is_async=0)
        if kind in ("list", "set") and isinstance(st, ast.Expr) and isinstance(st.value, ast.Call) and isinstance(st.value.func, ast.Attribute) \
                and isinstance(st.value.func.value, ast.Name) and st.value.func.value.id == name and len(st.value.args) == 1 and not st.value.keywords \
                and st.value.func.attr == ("append" if kind == "list" else "add") and name not in {x.id for x in ast.walk(st.value.args[0]) if isinstance(x, ast.Name)}:
            comp = ast.ListComp(elt=st.value.args[0], generators=[gen]) if kind == "list" else ast.SetComp(elt=st.value.args[0], generators=[gen])
        elif kind == "dict" and isinstance(st, ast.Assign) and len(st.targets) == 1 and isinstance(st.targets[0], ast.Subscript) and isinstance(st.targets[0].value, ast.Name) \
                and st.targets[0].value.id == name and name not in {x.id for x in ast.walk(st.value) if isinstance(x, ast.Name)}:
            comp = ast.DictComp(key=st.targets[0].slice, value=st.value, generators=[gen])
        else:
            return None
        return ast.copy_location(ast.Assign(targets=[ast.Name(id=name, ctx=ast.Store())], value=comp), init)

    def comp_block(owner, field):
        lst = getattr(owner, field)
        i = 0
        while i + 1 < len(lst):
            c = as_comp(lst[i], lst[i + 1])
            if c is not None:
                ast.fix_missing_locations(c)
                # the loop variables must be private to the loop (a comprehension does not leak them)
                tg = _comp_targets(c.value)
                inside = {id(x) for x in ast.walk(lst[i + 1])}
                # a use elsewhere is harmless when it reads another loop's binding of the name: inside the body of a `for` (or a
                # comprehension) that has the name as its target
                covered = set()
                for o_ in ast.walk(f_new):
                    if isinstance(o_, (ast.For, ast.AsyncFor)) and o_ is not lst[i + 1]:
                        t_names = {x.id for x in ast.walk(o_.target) if isinstance(x, ast.Name)}
                        for b_ in o_.body:
                            for x in ast.walk(b_):
                                if isinstance(x, ast.Name) and x.id in t_names:
                                    covered.add(id(x))
                        for x in ast.walk(o_.target):
                            covered.add(id(x))
                    elif isinstance(o_, (ast.ListComp, ast.SetComp, ast.GeneratorExp, ast.DictComp)):
                        t_names = {x.id for g_ in o_.generators for x in ast.walk(g_.target) if isinstance(x, ast.Name)}
                        for x in ast.walk(o_):
                            if isinstance(x, ast.Name) and x.id in t_names:
                                covered.add(id(x))
                # names bound by a nested function / lambda (its parameters, its own locals) are other variables
                for o_ in ast.walk(f_new):
                    if o_ is not f_new and isinstance(o_, FUNC + (ast.Lambda,)):
                        a_ = o_.args
                        bound_ = {p_.arg for p_ in a_.posonlyargs + a_.args + a_.kwonlyargs} | {p_.arg for p_ in (a_.vararg, a_.kwarg) if p_ is not None}
                        if not isinstance(o_, ast.Lambda):
                            bound_ |= {x.id for x in ast.walk(o_) if isinstance(x, ast.Name) and isinstance(x.ctx, ast.Store)}
                        for x in ast.walk(o_):
                            if isinstance(x, ast.Name) and x.id in bound_:
                                covered.add(id(x))
                outside = {x.id for st_ in ast.walk(f_new) if isinstance(st_, (ast.stmt, ast.ExceptHandler)) and id(st_) not in inside
                           for x in _stmt_own_names(st_, None) if id(x) not in covered}
                if tg & outside:
                    c = None
            if c is not None:
                if _norm(c) in ref_stmts or c.targets[0].id not in ref_stored or (c.targets[0].id, type(c.value)) in ref_comp_names:
                    # the reference has this comprehension, or builds this variable by a comprehension of the same kind (and
                    # nowhere by accumulation) - or the accumulator is a variable the reference function does not have at all:
                    # new code is brought to the comprehension form (the one the rules read as an expression)
                    lst[i:i + 2] = [c]
                    n_[0] += 1
                    continue
                # the same comprehension up to the names of its own variables and the spelling of its comparisons
                if True:
                    sh, nm = _shape(c, tg)
                    hit = ref_comp_shapes.get(sh)
                    if hit is not None and len(hit) == 1:
                        r_stmt, r_names = hit[0]
                        a_, b_ = [_name_of(x) for x in nm], [_name_of(x) for x in r_names]
                        if len(a_) == len(b_) and len(set(zip(a_, b_))) == len(set(a_)) == len(set(b_)):
                            new_st = _copy(r_stmt)
                            for x in ast.walk(new_st):
                                if hasattr(x, "lineno") or isinstance(x, (ast.expr, ast.stmt)):
                                    x.lineno = x.end_lineno = lst[i].lineno
                                    x.col_offset = x.end_col_offset = 0
                            lst[i:i + 2] = [new_st]
                            n_[0] += 1
                            continue
            i += 1
        for st in lst:
            if isinstance(st, FUNC + (ast.ClassDef,)):
                continue
            for fld in ("body", "orelse", "finalbody"):
                v = getattr(st, fld, None)
                if isinstance(v, list) and v and isinstance(v[0], ast.stmt):
                    comp_block(st, fld)
            if isinstance(st, ast.Try):
                for h in st.handlers:
                    comp_block(h, "body")
    comp_block(f_new, "body")
    if n_[0]:
        ast.fix_missing_locations(f_new)
    return n_[0]


_REF_CACHE = {}


def reference_module(rel):
    if rel not in _REF_CACHE:
        p = os.path.join(REFERENCE_ROOT, rel)
        tree = None
        if os.path.exists(p):
            try:
                tree = ast.parse(open(p, encoding="utf-8").read())
            except SyntaxError:
                tree = None
        _REF_CACHE[rel] = tree
    return _REF_CACHE[rel]


def _index(tree):
    out = {}

    def rec(node, prefix):
        for c in ast.iter_child_nodes(node):
            if isinstance(c, FUNC + (ast.ClassDef,)):
                q = prefix + c.name
                k, i = q, 1
                while k in out:
                    i += 1
                    k = f"{q}#{i}"
                out[k] = c
                rec(c, q + ".")
            elif not isinstance(c, ast.Lambda):
                rec(c, prefix)
    rec(tree, "")
    return out


# ------------------------------------------------------------------------------------------------ package level
_PLAN_CACHE = {}
_TYPE_NAMES = {"list", "tuple", "set", "dict", "str", "int", "float", "bool", "bytes", "frozenset", "type", "object"}


def _is_private(name):
    return name.startswith("_") and not name.startswith("__")


def _loose_sig(f):
    """header shapes of f with every name and every private attribute blanked (for matching renamed private helpers)"""
    def rec(n):
        if isinstance(n, FUNC + (ast.ClassDef,)):
            return "<def>"
        if isinstance(n, ast.Lambda):
            return "<lambda>"
        if isinstance(n, ast.Name):
            return "$"
        if isinstance(n, ast.Attribute):
            return "(A " + rec(n.value) + " " + ("@" if _is_private(n.attr) else n.attr) + ")"
        if isinstance(n, ast.Constant):
            return f"C:{n.value!r}"
        if isinstance(n, ast.AST):
            parts = [type(n).__name__]
            for fld, v in ast.iter_fields(n):
                if fld in ("ctx", "type_comment", "lineno", "col_offset", "end_lineno", "end_col_offset", "kind"):
                    continue
                if isinstance(n, ast.ExceptHandler) and fld == "name":
                    parts.append("$")
                    continue
                if isinstance(n, ast.keyword) and fld == "arg":
                    parts.append(str(v))
                    continue
                parts.append(rec(v))
            return "(" + " ".join(parts) + ")"
        if isinstance(n, list):
            return "[" + " ".join(rec(x) for x in n) + "]"
        return repr(n)
    out = []
    for st in _headers(f):
        if isinstance(st, (ast.If, ast.While)):
            out.append("H:" + type(st).__name__ + rec(st.test))
        elif isinstance(st, (ast.For, ast.AsyncFor)):
            out.append("H:For" + rec(st.target) + rec(st.iter))
        elif isinstance(st, ast.With):
            out.append("H:With" + "".join(rec(i.context_expr) for i in st.items))
        elif isinstance(st, ast.Try):
            out.append("H:Try")
        elif isinstance(st, ast.ExceptHandler):
            out.append("H:Except" + (rec(st.type) if st.type is not None else ""))
        elif isinstance(st, ast.Expr) and isinstance(st.value, ast.Constant) and isinstance(st.value.value, str):
            continue        # docstring
        else:
            out.append(rec(st))
    return out


def _identifiers(tree):
    out = set()
    for n in ast.walk(tree):
        if isinstance(n, ast.Name):
            out.add(n.id)
        elif isinstance(n, ast.Attribute):
            out.add(n.attr)
        elif isinstance(n, FUNC + (ast.ClassDef,)):
            out.add(n.name)
        elif isinstance(n, ast.arg):
            out.add(n.arg)
        elif isinstance(n, ast.keyword) and n.arg:
            out.add(n.arg)
        elif isinstance(n, ast.alias):
            out.add((n.asname or n.name).split(".")[0])
    return out


def _literal(v):
    if isinstance(v, ast.Constant):
        return True
    if isinstance(v, ast.UnaryOp) and isinstance(v.op, (ast.USub, ast.UAdd)) and isinstance(v.operand, ast.Constant):
        return True
    if isinstance(v, (ast.Tuple, ast.List, ast.Set)):
        return all(_literal(x) or (isinstance(x, ast.Name) and x.id in _TYPE_NAMES) for x in v.elts)
    if isinstance(v, ast.Call) and isinstance(v.func, ast.Name) and v.func.id == "frozenset" and len(v.args) == 1 and not v.keywords:
        return _literal(v.args[0])
    return False


def _module_globals(tree):
    """name -> [value nodes] for plain module-level assignments"""
    out = {}
    for st in tree.body:
        if isinstance(st, ast.Assign) and len(st.targets) == 1 and isinstance(st.targets[0], ast.Name):
            out.setdefault(st.targets[0].id, []).append(st.value)
        elif isinstance(st, ast.Assign) and len(st.targets) == 1 and isinstance(st.targets[0], (ast.Tuple, ast.List)) and isinstance(st.value, (ast.Tuple, ast.List)) \
                and len(st.targets[0].elts) == len(st.value.elts) and all(isinstance(x, ast.Name) for x in st.targets[0].elts):
            for t, v in zip(st.targets[0].elts, st.value.elts):
                out.setdefault(t.id, []).append(v)
        elif isinstance(st, ast.Assign):
            for t in st.targets:
                for x in ast.walk(t):
                    if isinstance(x, ast.Name):
                        out.setdefault(x.id, []).append(None)
        elif isinstance(st, ast.AnnAssign) and isinstance(st.target, ast.Name):
            out.setdefault(st.target.id, []).append(st.value)
    return out


def package_plan(root):
    """Correspondence of *private* names between the analysed package and the reference, computed once per root:
         defs[rel]     {new qualname: reference qualname}      renamed private functions / methods
         attrs         {new attribute name: reference name}    renamed private attributes (package wide)
         crename[rel]  {new global: reference global}          renamed private module constants
         cinline[rel]  {global: value node}                    private literal constants the reference does not have
         kwnames       {callee name: {keyword names used in calls}}"""
    if root in _PLAN_CACHE:
        return _PLAN_CACHE[root]
    plan = {"defs": {}, "attrs": {}, "crename": {}, "cinline": {}, "clsinline": {}, "kwnames": {}, "new": {}, "notes": []}
    _PLAN_CACHE[root] = plan
    rels = []
    for d in ("ak", "bin"):
        pth = os.path.join(root, d)
        if os.path.isdir(pth):
            for fn in sorted(os.listdir(pth)):
                if fn.endswith(".py"):
                    rels.append(f"{d}/{fn}")
    new, ref = {}, {}
    for rel in rels:
        try:
            new[rel] = ast.parse(open(os.path.join(root, rel), encoding="utf-8").read())
        except (SyntaxError, OSError):
            continue
        r = reference_module(rel)
        if r is not None:
            ref[rel] = r
    plan["new"] = new
    for t in new.values():
        for c in ast.walk(t):
            if isinstance(c, ast.Call):
                nm = c.func.id if isinstance(c.func, ast.Name) else c.func.attr if isinstance(c.func, ast.Attribute) else None
                if nm:
                    plan["kwnames"].setdefault(nm, set()).update(k.arg for k in c.keywords if k.arg)
    def _class_names(trees):
        return {t_.id for t in trees for c in ast.walk(t) if isinstance(c, ast.ClassDef) for st in c.body if isinstance(st, ast.Assign)
                for t_ in st.targets if isinstance(t_, ast.Name)}
    new_attrs = {n.attr for t in new.values() for n in ast.walk(t) if isinstance(n, ast.Attribute)} | \
                {n.name for t in new.values() for n in ast.walk(t) if isinstance(n, FUNC)} | _class_names(new.values())
    ref_attrs = {n.attr for t in ref.values() for n in ast.walk(t) if isinstance(n, ast.Attribute)} | \
                {n.name for t in ref.values() for n in ast.walk(t) if isinstance(n, FUNC)} | _class_names(ref.values())
    # ---- A. renamed private functions / methods
    for rel in new:
        if rel not in ref:
            continue
        nd, rd = _index(new[rel]), _index(ref[rel])
        ids_new = _identifiers(new[rel])
        un_new = [q for q, n in nd.items() if isinstance(n, FUNC) and q not in rd and _is_private(q.split(".")[-1])]
        un_ref = [q for q, n in rd.items() if isinstance(n, FUNC) and q not in nd and _is_private(q.split(".")[-1])]
        pairs = []
        for qa in un_new:
            for qb in un_ref:
                if qa.rsplit(".", 1)[0] if "." in qa else "" != (qb.rsplit(".", 1)[0] if "." in qb else ""):
                    pass
                ca = qa.rsplit(".", 1)[0] if "." in qa else ""
                cb = qb.rsplit(".", 1)[0] if "." in qb else ""
                if ca != cb:
                    continue
                sa_, sb_ = _loose_sig(nd[qa]), _loose_sig(rd[qb])
                if not sa_ or not sb_:
                    continue
                r = difflib.SequenceMatcher(a=sa_, b=sb_, autojunk=False).ratio()
                if len(nd[qa].args.args) == len(rd[qb].args.args):
                    r += 0.05
                pairs.append((r, qa, qb))
        pairs.sort(reverse=True)
        used_a, used_b = set(), set()
        for r, qa, qb in pairs:
            if r < 0.6 or qa in used_a or qb in used_b:
                continue
            if qb.split(".")[-1] in ids_new:
                continue        # the reference name is used for something else here
            used_a.add(qa)
            used_b.add(qb)
            plan["defs"].setdefault(rel, {})[qa] = qb
            plan["notes"].append(f"{rel}: {qa} is the reference's {qb} (similarity {r:.2f})")
    # ---- C. renamed private attributes (package wide), by votes over aligned statements of corresponding functions
    cand_new = {a for a in new_attrs if _is_private(a) and a not in ref_attrs}
    cand_ref = {a for a in ref_attrs if _is_private(a) and a not in new_attrs}
    votes = {}
    for rel, m in plan["defs"].items():
        for qa, qb in m.items():
            a, b = qa.split(".")[-1], qb.split(".")[-1]
            if a in cand_new and b in cand_ref:
                votes.setdefault(a, {}).setdefault(b, 0)
                votes[a][b] += 1000
    if cand_new and cand_ref:
        for rel in new:
            if rel not in ref:
                continue
            nd, rd = _index(new[rel]), _index(ref[rel])
            dm = plan["defs"].get(rel, {})
            for qa, fa in nd.items():
                qb = dm.get(qa, qa)
                # a method of a renamed ... classes keep their names
                if not isinstance(fa, FUNC) or qb not in rd or not isinstance(rd[qb], FUNC):
                    continue
                fb = rd[qb]
                if not any(isinstance(x, ast.Attribute) and x.attr in cand_new for x in ast.walk(fa)):
                    continue
                _o, la, _x = _scope_info(fa, {p.arg for p in fa.args.args})
                _o, lb, _x = _scope_info(fb, {p.arg for p in fb.args.args})
                ha, hb = _headers(fa), _headers(fb)

                def hs(st, loc, attrs):
                    hits = []
                    if isinstance(st, (ast.If, ast.While)):
                        sh = "H:" + type(st).__name__ + _shape(st.test, loc, attrs, hits)[0]
                    elif isinstance(st, (ast.For, ast.AsyncFor)):
                        sh = "H:For" + _shape(st.target, loc, attrs, hits)[0] + _shape(st.iter, loc, attrs, hits)[0]
                    elif isinstance(st, ast.With):
                        sh = "H:With" + "".join(_shape(i.context_expr, loc, attrs, hits)[0] for i in st.items)
                    elif isinstance(st, ast.Try):
                        sh = "H:Try"
                    elif isinstance(st, ast.ExceptHandler):
                        sh = "H:Except"
                    else:
                        sh = _shape(st, loc, attrs, hits)[0]
                    return sh, hits
                sa_ = [hs(st, la, cand_new) for st in ha]
                sb_ = [hs(st, lb, cand_ref) for st in hb]
                sm = difflib.SequenceMatcher(a=[x[0] for x in sa_], b=[x[0] for x in sb_], autojunk=False)
                for blk in sm.get_matching_blocks():
                    for k in range(blk.size):
                        xa, xb = sa_[blk.a + k][1], sb_[blk.b + k][1]
                        if len(xa) != len(xb):
                            continue
                        for u, v in zip(xa, xb):
                            votes.setdefault(u.attr, {}).setdefault(v.attr, 0)
                            votes[u.attr][v.attr] += 1
    # class-level private constants that changed their name but not their value
    for rel in new:
        if rel not in ref:
            continue
        nd, rd = _index(new[rel]), _index(ref[rel])
        for q, c in nd.items():
            if not isinstance(c, ast.ClassDef) or not isinstance(rd.get(q), ast.ClassDef):
                continue
            ca = {st.targets[0].id: st.value for st in c.body if isinstance(st, ast.Assign) and len(st.targets) == 1 and isinstance(st.targets[0], ast.Name)}
            cb = {st.targets[0].id: st.value for st in rd[q].body if isinstance(st, ast.Assign) and len(st.targets) == 1 and isinstance(st.targets[0], ast.Name)}
            for k, v in ca.items():
                if k in cand_new and k not in cb:
                    same = [kr for kr, vr in cb.items() if kr in cand_ref and kr not in ca and ast.dump(vr) == ast.dump(v)]
                    if len(same) == 1:
                        votes.setdefault(k, {}).setdefault(same[0], 0)
                        votes[k][same[0]] += 1000
    taken = set()
    for a, d in sorted(votes.items(), key=lambda kv: -max(kv[1].values())):
        best = max(d.items(), key=lambda kv: kv[1])
        if sum(1 for v in d.values() if v == best[1]) > 1 or best[0] in taken or best[0] in new_attrs:
            continue
        plan["attrs"][a] = best[0]
        taken.add(best[0])
        plan["notes"].append(f"attribute {a} is the reference's {best[0]} ({best[1]} aligned uses)")
    # ---- B. private module constants
    attr_stores = {x.attr for t in new.values() for x in ast.walk(t) if isinstance(x, ast.Attribute) and isinstance(x.ctx, (ast.Store, ast.Del))}
    for rel in new:
        g_new = _module_globals(new[rel])
        g_ref = _module_globals(ref[rel]) if rel in ref else {}
        ids_new = _identifiers(new[rel])
        stored_elsewhere = {x.id for f in ast.walk(new[rel]) if isinstance(f, FUNC) for x in ast.walk(f)
                            if isinstance(x, ast.Name) and isinstance(x.ctx, (ast.Store, ast.Del))} | \
                           {nm for f in ast.walk(new[rel]) if isinstance(f, ast.Global) for nm in f.names}
        free_ref = {k: v for k, v in g_ref.items() if _is_private(k) and k not in ids_new and len(v) == 1 and v[0] is not None}
        for k, vals in g_new.items():
            if not _is_private(k) or k in g_ref or len(vals) != 1 or vals[0] is None or k in stored_elsewhere:
                continue
            v = vals[0]
            same = [kr for kr, vr in free_ref.items() if ast.dump(vr[0]) == ast.dump(v)]
            if len(same) == 1:
                plan["crename"].setdefault(rel, {})[k] = same[0]
                del free_ref[same[0]]
                plan["notes"].append(f"{rel}: constant {k} is the reference's {same[0]}")
            elif _literal(v):
                plan["cinline"].setdefault(rel, {})[k] = v
                plan["notes"].append(f"{rel}: private constant {k} = {ast.unparse(v)[:40]} (not in the reference) is read as its value")
        # class-level private literal constants that the reference class does not have
        nd = _index(new[rel])
        rd = _index(ref[rel]) if rel in ref else {}
        for q, c in nd.items():
            if not isinstance(c, ast.ClassDef):
                continue
            ref_names = set()
            if q in rd and isinstance(rd[q], ast.ClassDef):
                ref_names = {t.id for st in rd[q].body if isinstance(st, ast.Assign) for t in st.targets if isinstance(t, ast.Name)}
            for st in c.body:
                if isinstance(st, ast.Assign) and len(st.targets) == 1 and isinstance(st.targets[0], ast.Name):
                    k = st.targets[0].id
                    if _is_private(k) and k not in ref_names and k not in ref_attrs and k not in attr_stores and _literal(st.value) \
                            and sum(1 for s2 in c.body if isinstance(s2, ast.Assign) and any(isinstance(t, ast.Name) and t.id == k for t in s2.targets)) == 1:
                        plan["clsinline"].setdefault(rel, {})[k] = (c.name, st.value)
                        plan["notes"].append(f"{rel}: class constant {c.name}.{k} = {ast.unparse(st.value)[:40]} (not in the reference) is read as its value")
    return plan


def _apply_plan(tree, rel, plan):
    n_ = 0
    dm = plan["defs"].get(rel, {})
    nd = _index(tree)
    fn_ren = {}
    for qa, qb in dm.items():
        if qa in nd:
            a, b = qa.split(".")[-1], qb.split(".")[-1]
            nd[qa].name = b
            if "." not in qa:
                fn_ren[a] = b          # module-level function: also referenced as a plain name
            else:
                plan["attrs"].setdefault(a, b)
            n_ += 1
    am = plan["attrs"]
    cr = plan["crename"].get(rel, {})
    ci = plan["cinline"].get(rel, {})
    cli = plan["clsinline"].get(rel, {})

    class T(ast.NodeTransformer):
        def visit_Name(self, n):
            nonlocal n_
            if n.id in fn_ren:
                n.id = fn_ren[n.id]
                n_ += 1
            elif n.id in cr:
                n.id = cr[n.id]
                n_ += 1
            elif n.id in ci and isinstance(n.ctx, ast.Load):
                n_ += 1
                return ast.copy_location(_copy(ci[n.id]), n)
            return n

        def visit_Attribute(self, n):
            nonlocal n_
            self.generic_visit(n)
            if n.attr in cli and isinstance(n.ctx, ast.Load) and isinstance(n.value, ast.Name) and n.value.id in ("self", "cls", cli[n.attr][0]):
                n_ += 1
                return ast.copy_location(_copy(cli[n.attr][1]), n)
            if n.attr in am:
                n.attr = am[n.attr]
                n_ += 1
            return n

        def visit_FunctionDef(self, n):
            nonlocal n_
            if n.name in am and getattr(n, "_alpha_method", False):
                n.name = am[n.name]
                n_ += 1
            self.generic_visit(n)
            return n
        visit_AsyncFunctionDef = visit_FunctionDef
    # methods whose name is a renamed private attribute
    for c in ast.walk(tree):
        if isinstance(c, ast.ClassDef):
            for m in c.body:
                if isinstance(m, FUNC):
                    m._alpha_method = True
            # class-level definitions of renamed private attributes
            for st in c.body:
                if isinstance(st, (ast.Assign, ast.AnnAssign)):
                    for t in (st.targets if isinstance(st, ast.Assign) else [st.target]):
                        if isinstance(t, ast.Name) and t.id in am:
                            t.id = am[t.id]
                            n_ += 1
            # __slots__ entries
            for st in c.body:
                if isinstance(st, ast.Assign) and any(isinstance(t, ast.Name) and t.id == "__slots__" for t in st.targets):
                    for x in ast.walk(st.value):
                        if isinstance(x, ast.Constant) and isinstance(x.value, str) and x.value in am:
                            x.value = am[x.value]
                            n_ += 1
    T().visit(tree)
    # the definitions of inlined constants stay (harmless); renamed constants' definitions were renamed by visit_Name
    ast.fix_missing_locations(tree)
    return n_


def _copy(n):
    if isinstance(n, ast.AST):
        new = n.__class__()
        for f in n._fields:
            if hasattr(n, f):
                setattr(new, f, _copy(getattr(n, f)))
        return new
    if isinstance(n, list):
        return [_copy(x) for x in n]
    return n


def normalise_function(f, fr, free_new=frozenset(), free_ref=frozenset(), rep=None, q=None):
    """names and spellings of one function brought to those of its reference function `fr`; they help each other (a respelled
    condition aligns, an aligned statement gives its names): a few rounds.  -> (names renamed, spellings changed)"""
    rep = rep if rep is not None else {"renamed_functions": 0, "names": 0, "same_shape": 0, "aligned": 0, "details": {}}
    q = q or f.name
    renamed = False
    tot_m = 0
    tot_k = inline_named_tests(f, fr)
    if tot_k:
        rep["respelled"] = rep.get("respelled", 0) + tot_k
    for _round in range(3):
        mapping, how, locals_, others = correspondence(f, fr, free_new, free_ref)
        m = _valid(mapping, locals_, others)
        if m:
            apply(f, m)
            if not renamed:
                rep["renamed_functions"] += 1
                rep["same_shape" if how == "same-shape" else "aligned"] += 1
            renamed = True
            rep["names"] += len(m)
            rep["details"].setdefault(q, {}).update(m)
        k = 0
        for _inner in range(8):         # one nesting level of if/else structure is settled per pass
            k1 = respell(f, fr) + respell_aligned(f, fr)
            k += k1
            if not k1:
                break
        if k:
            rep["respelled"] = rep.get("respelled", 0) + k
            if q not in rep.setdefault("respelled_in", []):
                rep["respelled_in"].append(q)
        tot_m += len(m)
        tot_k += k
        if not m and not k:
            break
    return tot_m, tot_k


def similarity(f_new, f_ref):
    """How much of the statement structure of f_new is that of f_ref: ratio of the aligned statement headers (local names
    blanked, spelling-free shapes, see _header_shape) - 1.0 for the reference itself or a renamed / respelled copy, high for a
    local edit, low for a function that was restructured."""
    _o1, loc_new, _x1 = _scope_info(f_new, frozenset(a.arg for a in f_new.args.posonlyargs + f_new.args.args))
    _o2, loc_ref, _x2 = _scope_info(f_ref, frozenset(a.arg for a in f_ref.args.posonlyargs + f_ref.args.args))
    a = [_header_shape(st, loc_new)[0] for st in _headers(f_new)]
    b = [_header_shape(st, loc_ref)[0] for st in _headers(f_ref)]
    if not a and not b:
        return 1.0
    return difflib.SequenceMatcher(a=a, b=b, autojunk=False).ratio()


def unmatched_statements(f_new, f_ref):
    """(statements of f_new that align with none of f_ref, statements of f_ref that align with none of f_new)"""
    _o1, loc_new, _x1 = _scope_info(f_new, frozenset(a.arg for a in f_new.args.posonlyargs + f_new.args.args))
    _o2, loc_ref, _x2 = _scope_info(f_ref, frozenset(a.arg for a in f_ref.args.posonlyargs + f_ref.args.args))
    a = [_header_shape(st, loc_new)[0] for st in _headers(f_new)]
    b = [_header_shape(st, loc_ref)[0] for st in _headers(f_ref)]
    m = sum(blk.size for blk in difflib.SequenceMatcher(a=a, b=b, autojunk=False).get_matching_blocks())
    return len(a) - m, len(b) - m


def reference_function(rel, qual):
    ref = reference_module(rel)
    if ref is None or os.environ.get("VERIF_NO_ALPHA") == "1":
        return None
    r = _index(ref).get(qual)
    return r if isinstance(r, FUNC) else None


_EMPTY_FUNC = ast.parse("def _nothing():\n    pass\n").body[0]


def normalise_module(tree, rel, root=None):
    """rename the locals of the functions of `tree` (and, with `root`, the private names of the package) to the reference
    spelling; -> report dict"""
    ref = reference_module(rel)
    rep = {"functions": 0, "renamed_functions": 0, "names": 0, "same_shape": 0, "aligned": 0, "private_names": 0, "details": {}, "notes": []}
    if ref is None or os.environ.get("VERIF_NO_ALPHA") == "1":
        return rep
    plan = None
    if root is not None:
        plan = package_plan(root)
        rep["private_names"] = _apply_plan(tree, rel, plan)
        rep["notes"] = [x for x in plan["notes"] if x.startswith(rel) or x.startswith("attribute")]
    new_defs, ref_defs = _index(tree), _index(ref)
    # inner functions first, so that an outer function's view of "names used in nested scopes" is final
    for q in sorted(new_defs, key=lambda k: -k.count(".")):
        f = new_defs[q]
        if isinstance(f, FUNC) and (q not in ref_defs or not isinstance(ref_defs[q], FUNC)):
            # a function the reference does not have: only the reference-independent canonical spellings (`not (a in b)` ->
            # `a not in b`, accumulation loop of a private loop variable -> comprehension)
            k = inline_named_tests(f, _EMPTY_FUNC)
            for _inner in range(4):
                k1 = respell(f, _EMPTY_FUNC)
                k += k1
                if not k1:
                    break
            if k:
                rep["respelled"] = rep.get("respelled", 0) + k
                rep.setdefault("respelled_in", []).append(q)
            continue
        if not isinstance(f, FUNC):
            continue
        rep["functions"] += 1
        fr = ref_defs[q]
        free_new = free_ref = frozenset()
        if plan is not None and (_is_private(f.name) or "." in q and not isinstance(new_defs.get(q.rsplit(".", 1)[0]), ast.ClassDef)):
            # a private function (or a nested one): its parameters are renamable unless some call passes them by keyword
            kws = plan["kwnames"].get(f.name, set())
            ps = [a.arg for a in f.args.posonlyargs + f.args.args]
            skip0 = ps[:1] if ps and ps[0] in ("self", "cls") else []
            free_new = frozenset(p_ for p_ in ps if p_ not in skip0 and p_ not in kws)
            free_ref = frozenset(a.arg for a in fr.args.posonlyargs + fr.args.args if a.arg not in ("self", "cls"))
        normalise_function(f, fr, free_new, free_ref, rep, q)
    return rep
