"""Conjunctions of linear constraints over integer-valued symbols, decided by Fourier-Motzkin elimination (rational relaxation).

A `Lin` is an affine form  c0 + sum(ci * xi)  with integer coefficients.  A constraint is  lin <= 0  or  lin == 0.
Strict comparisons between integer quantities are tightened:  a < b  ==  a - b + 1 <= 0.

System            an incrementally built conjunction kept in solved form (equalities substituted away)
System.infeasible_with(cons)  -> True only if the conjunction has no rational (hence no integer) solution   [sound for pruning]
System.entails(c)             -> True only if every integer solution satisfies c                            [sound for proving]
infeasible / entails / model  -> the same on plain lists of constraints
"""
from fractions import Fraction
from math import gcd


class Lin:
    __slots__ = ("c", "t", "_k")

    def __init__(self, c=0, t=None):
        self.c = c
        self.t = t if t is not None else {}
        self._k = None

    @staticmethod
    def var(name):
        return Lin(0, {name: 1})

    def __add__(self, o):
        if not isinstance(o, Lin):
            return Lin(self.c + o, self.t)
        if not o.t:
            return Lin(self.c + o.c, self.t)
        t = dict(self.t)
        for k, v in o.t.items():
            x = t.get(k, 0) + v
            if x:
                t[k] = x
            else:
                del t[k]
        return Lin(self.c + o.c, t)

    __radd__ = __add__

    def __neg__(self):
        return Lin(-self.c, {k: -v for k, v in self.t.items()})

    def __sub__(self, o):
        if not isinstance(o, Lin):
            return Lin(self.c - o, self.t)
        return self + (-o)

    def __rsub__(self, o):
        return (-self) + o

    def __mul__(self, k):
        if isinstance(k, Lin):
            if not k.t:
                k = k.c
            elif not self.t:
                return k * self.c
            else:
                raise ValueError("non-linear product")
        if isinstance(k, Fraction):
            if k.denominator != 1:
                raise ValueError("non-integer scaling")
            k = int(k)
        if k == 0:
            return Lin(0)
        return Lin(self.c * k, {v: c * k for v, c in self.t.items()})

    __rmul__ = __mul__

    def is_const(self):
        return not self.t

    def vars(self):
        return set(self.t)

    def key(self):
        if self._k is None:
            self._k = (self.c, tuple(sorted(self.t.items())))
        return self._k

    def __eq__(self, o):
        return isinstance(o, Lin) and self.key() == o.key()

    def __hash__(self):
        return hash(self.key())

    def primitive(self):
        """divide by the gcd of all coefficients (for <= forms: also tighten the constant)"""
        g = 0
        for v in self.t.values():
            g = gcd(g, abs(v))
        if g <= 1:
            return self
        # sum(ci*xi) + c <= 0 with all ci divisible by g  ->  sum(ci/g*xi) + ceil(c/g) <= 0   (integers)
        return Lin(-((-self.c) // g), {k: v // g for k, v in self.t.items()})

    def __repr__(self):
        parts = []
        for k, v in sorted(self.t.items()):
            if v == 1:
                parts.append(f"+{k}")
            elif v == -1:
                parts.append(f"-{k}")
            else:
                parts.append(f"{'+' if v > 0 else ''}{v}*{k}")
        if self.c != 0 or not parts:
            parts.append(f"{'+' if self.c >= 0 else ''}{self.c}")
        s = "".join(parts)
        return s[1:] if s.startswith("+") else s


def lin(x):
    if isinstance(x, Lin):
        return x
    if isinstance(x, Fraction):
        if x.denominator != 1:
            raise ValueError("non-integer constant")
        x = int(x)
    return Lin(x)


class Con:
    """lin <= 0 (kind 'le') or lin == 0 (kind 'eq')."""
    __slots__ = ("l", "kind")

    def __init__(self, l, kind="le"):
        self.l = lin(l)
        self.kind = kind

    def key(self):
        return (self.kind, self.l.key())

    def __repr__(self):
        return f"{self.l} {'<=' if self.kind == 'le' else '=='} 0"


def le(a, b):
    return Con(lin(a) - lin(b), "le")


def lt(a, b):
    return Con(lin(a) - lin(b) + 1, "le")


def ge(a, b):
    return le(b, a)


def gt(a, b):
    return lt(b, a)


def eq(a, b):
    return Con(lin(a) - lin(b), "eq")


def negations(c):
    """Disjuncts of the negation of c (integers)."""
    if c.kind == "le":
        return [Con(-c.l + 1, "le")]
    return [Con(c.l + 1, "le"), Con(-c.l + 1, "le")]


def _apply(l, v, k, rest):
    """substitute  k*v == rest  (k > 0) into the form l (scaled by k when needed; sign of <= preserved)."""
    a = l.t.get(v)
    if a is None:
        return l
    t = dict(l.t)
    del t[v]
    base = Lin(l.c, t)
    if k == 1:
        return base + rest * a
    return base * k + rest * a


class System:
    __slots__ = ("subs", "les", "dead", "_seen")

    def __init__(self):
        self.subs = []      # (var, k>0, rest):  k*var == rest, triangular
        self.les = []       # Lin <= 0, with all substitutions applied
        self.dead = False
        self._seen = set()

    def copy(self):
        s = System()
        s.subs = list(self.subs)
        s.les = list(self.les)
        s.dead = self.dead
        s._seen = set(self._seen)
        return s

    def reduce(self, l):
        for v, k, rest in self.subs:
            if v in l.t:
                l = _apply(l, v, k, rest)
        return l

    def add(self, con):
        if self.dead:
            return
        l = self.reduce(con.l)
        if con.kind == "le":
            self._add_le(l)
            return
        if not l.t:
            if l.c != 0:
                self.dead = True
            return
        v = min(l.t, key=lambda x: (abs(l.t[x]) != 1, x))
        k = l.t[v]
        t = dict(l.t)
        del t[v]
        rest = Lin(l.c, t)
        if k > 0:
            rest = -rest
        else:
            k = -k
        # k*v == rest
        self.subs.append((v, k, rest))
        old = self.les
        self.les = []
        self._seen = set()
        for x in old:
            self._add_le(_apply(x, v, k, rest))

    def _add_le(self, l):
        if not l.t:
            if l.c > 0:
                self.dead = True
            return
        l = l.primitive()
        key = l.key()
        if key not in self._seen:
            self._seen.add(key)
            self.les.append(l)

    def extend(self, cons):
        for c in cons:
            self.add(c)
        return self

    def infeasible_with(self, cons=()):
        if self.dead:
            return True
        s = self
        if cons:
            s = self.copy()
            for c in cons:
                s.add(c)
            if s.dead:
                return True
        return _fm(s.les) is False

    def entails(self, c):
        return all(self.infeasible_with([n]) for n in negations(c))

    def model(self):
        if self.dead:
            return None
        trail = _fm(self.les, want_model=True)
        if trail is False:
            return None
        val = {}
        for v, pos, neg in reversed(trail):
            lo, hi = None, None
            for p in pos:
                r = Lin(p.c, {k: c for k, c in p.t.items() if k != v})
                b = -_eval(r, val) / p.t[v]
                hi = b if hi is None else min(hi, b)
            for n in neg:
                r = Lin(n.c, {k: c for k, c in n.t.items() if k != v})
                b = -_eval(r, val) / n.t[v]
                lo = b if lo is None else max(lo, b)
            if lo is None and hi is None:
                x = Fraction(0)
            elif lo is None:
                x = Fraction(hi.__floor__())
            elif hi is None:
                x = Fraction(lo.__ceil__())
            else:
                x = Fraction(lo.__ceil__()) if lo.__ceil__() <= hi else (lo + hi) / 2
            val[v] = x
        for v, k, rest in reversed(self.subs):
            val[v] = _eval(rest, val) / k
        return val


def _fm(les, want_model=False):
    """Fourier-Motzkin on forms l <= 0.  Returns False if infeasible, else True (or elimination trail for models)."""
    trail = []
    cur = list(les)
    while True:
        cnt = {}
        for l in cur:
            for v, c in l.t.items():
                e = cnt.setdefault(v, [0, 0])
                e[0 if c > 0 else 1] += 1
        if not cnt:
            break
        v = min(cnt, key=lambda x: (cnt[x][0] * cnt[x][1] - cnt[x][0] - cnt[x][1], x))
        pos, neg, new = [], [], []
        for l in cur:
            c = l.t.get(v)
            if c is None:
                new.append(l)
            elif c > 0:
                pos.append(l)
            else:
                neg.append(l)
        if want_model:
            trail.append((v, pos, neg))
        seen = {l.key() for l in new}
        for p in pos:
            pv = p.t[v]
            for n in neg:
                nv = -n.t[v]
                c = p * nv + n * pv
                if not c.t:
                    if c.c > 0:
                        return False
                    continue
                c = c.primitive()
                k = c.key()
                if k not in seen:
                    seen.add(k)
                    new.append(c)
        if len(new) > 6000:
            raise OverflowError("fm: constraint blow-up")
        cur = new
    return trail if want_model else True


def _eval(l, val):
    return Fraction(l.c) + sum(c * val.get(k, Fraction(0)) for k, c in l.t.items())


def system(cons):
    return System().extend(cons)


def infeasible(cons):
    return system(cons).infeasible_with()


def entails(cons, c):
    return system(cons).entails(c)


def model(cons):
    return system(cons).model()
