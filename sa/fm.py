"""Conjunctions of linear constraints over integer-valued symbols, decided by Fourier-Motzkin elimination (rational relaxation).

A `Lin` is an affine form  c0 + sum(ci * xi)  with Fraction coefficients.  A constraint is  lin <= 0  or  lin == 0.
Strict comparisons between integer quantities are tightened:  a < b  ==  a - b + 1 <= 0.

infeasible(cons)   -> True only if the conjunction has no rational (hence no integer) solution      [sound for pruning]
entails(cons, c)   -> True only if every integer solution of cons satisfies c                        [sound for proving]
model(cons)        -> a rational point satisfying cons, for diagnostics
"""
from fractions import Fraction


class Lin:
    __slots__ = ("c", "t")

    def __init__(self, c=0, t=None):
        self.c = Fraction(c)
        self.t = {k: Fraction(v) for k, v in (t or {}).items() if v != 0}

    @staticmethod
    def var(name):
        return Lin(0, {name: 1})

    def __add__(self, o):
        o = lin(o)
        t = dict(self.t)
        for k, v in o.t.items():
            t[k] = t.get(k, 0) + v
        return Lin(self.c + o.c, t)

    __radd__ = __add__

    def __neg__(self):
        return Lin(-self.c, {k: -v for k, v in self.t.items()})

    def __sub__(self, o):
        return self + (-lin(o))

    def __rsub__(self, o):
        return lin(o) - self

    def __mul__(self, k):
        if isinstance(k, Lin):
            if not k.t:
                k = k.c
            elif not self.t:
                return k * self.c
            else:
                raise ValueError("non-linear product")
        k = Fraction(k)
        return Lin(self.c * k, {v: c * k for v, c in self.t.items()})

    __rmul__ = __mul__

    def is_const(self):
        return not self.t

    def subst(self, name, repl):
        if name not in self.t:
            return self
        k = self.t[name]
        t = dict(self.t)
        del t[name]
        return Lin(self.c, t) + repl * k

    def vars(self):
        return set(self.t)

    def key(self):
        return (self.c, tuple(sorted(self.t.items())))

    def __eq__(self, o):
        return isinstance(o, Lin) and self.key() == o.key()

    def __hash__(self):
        return hash(self.key())

    def __repr__(self):
        parts = []
        for k, v in sorted(self.t.items()):
            if v == 1:
                parts.append(f"+{k}")
            elif v == -1:
                parts.append(f"-{k}")
            else:
                parts.append(f"{'+' if v > 0 else ''}{v}*{k}")
        if self.c != 0 or not parts:
            parts.append(f"{'+' if self.c >= 0 else ''}{self.c}")
        s = "".join(parts)
        return s[1:] if s.startswith("+") else s


def lin(x):
    if isinstance(x, Lin):
        return x
    return Lin(x)


class Con:
    """lin <= 0 (kind 'le') or lin == 0 (kind 'eq')."""
    __slots__ = ("l", "kind")

    def __init__(self, l, kind="le"):
        self.l = lin(l)
        self.kind = kind

    def key(self):
        return (self.kind, self.l.key())

    def __repr__(self):
        return f"{self.l} {'<=' if self.kind == 'le' else '=='} 0"


def le(a, b):
    return Con(lin(a) - lin(b), "le")


def lt(a, b):
    return Con(lin(a) - lin(b) + 1, "le")


def ge(a, b):
    return le(b, a)


def gt(a, b):
    return lt(b, a)


def eq(a, b):
    return Con(lin(a) - lin(b), "eq")


def negations(c):
    """Disjuncts of the negation of c (integers)."""
    if c.kind == "le":
        return [Con(-c.l + 1, "le")]
    return [Con(c.l + 1, "le"), Con(-c.l + 1, "le")]


def _solve_eqs(cons):
    """Substitute equalities away.  Returns (list of <=-forms, substitutions) or None when contradictory."""
    eqs = [c.l for c in cons if c.kind == "eq"]
    les = [c.l for c in cons if c.kind == "le"]
    subs = []
    while eqs:
        e = eqs.pop()
        if e.is_const():
            if e.c != 0:
                return None
            continue
        v = min(e.t, key=lambda k: (abs(e.t[k]) != 1, k))
        k = e.t[v]
        rest = Lin(e.c, {a: b for a, b in e.t.items() if a != v}) * (Fraction(-1) / k)
        eqs = [x.subst(v, rest) for x in eqs]
        les = [x.subst(v, rest) for x in les]
        subs.append((v, rest))
    return les, subs


def _fm(les, want_model=False):
    """Fourier-Motzkin on forms l <= 0.  Returns False if infeasible, else True (or elimination trail for models)."""
    trail = []
    cur = []
    seen = set()
    for l in les:
        if l.is_const():
            if l.c > 0:
                return False
            continue
        k = l.key()
        if k not in seen:
            seen.add(k)
            cur.append(l)
    while True:
        vs = set()
        for l in cur:
            vs |= l.vars()
        if not vs:
            break

        def cost(v):
            p = sum(1 for l in cur if l.t.get(v, 0) > 0)
            n = sum(1 for l in cur if l.t.get(v, 0) < 0)
            return p * n - p - n
        v = min(vs, key=lambda x: (cost(x), x))
        pos = [l for l in cur if l.t.get(v, 0) > 0]
        neg = [l for l in cur if l.t.get(v, 0) < 0]
        rest = [l for l in cur if v not in l.t]
        trail.append((v, pos, neg))
        new = list(rest)
        seen = {l.key() for l in new}
        for p in pos:
            for n in neg:
                c = p * (Fraction(1) / p.t[v]) + n * (Fraction(-1) / n.t[v])
                if c.is_const():
                    if c.c > 0:
                        return False
                    continue
                # normalise scale for dedupe
                lead = abs(next(iter(sorted(c.t.items())))[1])
                c = c * (Fraction(1) / lead)
                k = c.key()
                if k not in seen:
                    seen.add(k)
                    new.append(c)
        if len(new) > 4000:
            raise OverflowError("fm: constraint blow-up")
        cur = new
    return trail if want_model else True


def infeasible(cons):
    s = _solve_eqs(cons)
    if s is None:
        return True
    les, _ = s
    return _fm(les) is False


def entails(cons, c):
    return all(infeasible(list(cons) + [n]) for n in negations(c))


def model(cons):
    """A rational point of the conjunction (None if infeasible)."""
    s = _solve_eqs(cons)
    if s is None:
        return None
    les, subs = s
    trail = _fm(les, want_model=True)
    if trail is False:
        return None
    val = {}
    for v, pos, neg in reversed(trail):
        lo, hi = None, None
        for p in pos:   # a*v + rest <= 0, a>0  ->  v <= -rest/a
            r = Lin(p.c, {k: c for k, c in p.t.items() if k != v})
            b = -_eval(r, val) / p.t[v]
            hi = b if hi is None else min(hi, b)
        for n in neg:   # a*v + rest <= 0, a<0  ->  v >= -rest/a
            r = Lin(n.c, {k: c for k, c in n.t.items() if k != v})
            b = -_eval(r, val) / n.t[v]
            lo = b if lo is None else max(lo, b)
        if lo is None and hi is None:
            x = Fraction(0)
        elif lo is None:
            x = Fraction(hi.__floor__())
        elif hi is None:
            x = Fraction(lo.__ceil__())
        else:
            x = Fraction(lo.__ceil__()) if lo.__ceil__() <= hi else (lo + hi) / 2
        val[v] = x
    for v, rest in reversed(subs):
        val[v] = _eval(rest, val)
    return val


def _eval(l, val):
    return l.c + sum(c * val.get(k, Fraction(0)) for k, c in l.t.items())
