"""Relational abstract interpretation of the index / slice / fixed_len / format arithmetic of CHText.

Concrete model (justified by the representation invariant decided by R08a-R08c): a text `self` shows the string T of
length n = self.scrlen in k = len(self.chunks) chunks; chunk i shows T[A(i) : A(i)+L(i)] in one colour, with
A(0) = 0, A(i+1) = A(i) + L(i), L(i) >= 1, A(k) = n.  A(.) and L(.) are uninterpreted: every index expression met gets its own
pair of symbols, related by the axioms above when the index relations are entailed.

Abstract values describe WHICH characters of T a value shows, as linear expressions over the inputs:
    Int(lin)                       an integer
    Piece(owner, lo, hi)           a chunk showing T[lo:hi] in the colour of chunk `owner` (lo, hi within that chunk)
    Str(lo, hi, owner)             the str T[lo:hi] (text of a piece);  Spaces(m): m blanks;  Fill(m): m fill characters
    PList(lo, hi, empty)           a list of pieces showing T[lo:hi] contiguously, in order
    Text(parts)                    a text: parts are ('cov', lo, hi) | ('pad', m) | ('fill', m) | ('self',)
The numerical domain is a conjunction of linear constraints (sa.fm, Fourier-Motzkin), path-partitioned at every test.  Loops:
one iteration is peeled, then an inductive invariant is computed Houdini-style over a template family (x == y, x + y == z,
x <= y, x < y over the numeric components of the state and the ghost terms A(i), A(i)+L(i)).

Nothing of the repository is executed; an unsupported construct raises Unsupported (the client reports "undecided").
"""
import ast
import itertools

from .core import call_name, norm
from .fm import Con, Lin, System, eq, ge, gt, le, lin, lt


class Unsupported(Exception):
    pass


# ---------------------------------------------------------------------------------------------------- values
class Int:
    __slots__ = ("l",)

    def __init__(self, l):
        self.l = lin(l)

    def __repr__(self):
        return f"Int({self.l})"


class NoneV:
    def __repr__(self):
        return "None"


NONE = NoneV()


class Const:
    __slots__ = ("v",)

    def __init__(self, v):
        self.v = v

    def __repr__(self):
        return f"Const({self.v!r})"


class SelfV:
    def __repr__(self):
        return "self"


SELF = SelfV()


class SliceV:
    __slots__ = ("start", "stop", "step")

    def __init__(self, start, stop, step):
        self.start, self.stop, self.step = start, stop, step


class Piece:
    __slots__ = ("owner", "lo", "hi")

    def __init__(self, owner, lo, hi):
        self.owner, self.lo, self.hi = lin(owner), lin(lo), lin(hi)

    def __repr__(self):
        return f"Piece(#{self.owner}, {self.lo}, {self.hi})"


class Str:
    __slots__ = ("lo", "hi", "owner")

    def __init__(self, lo, hi, owner):
        self.lo, self.hi, self.owner = lin(lo), lin(hi), owner

    def __repr__(self):
        return f"Str[{self.lo}:{self.hi}]"


class Spaces:
    __slots__ = ("m", "kind")

    def __init__(self, m, kind="pad"):
        self.m, self.kind = lin(m), kind

    def __repr__(self):
        return f"{self.kind}({self.m})"


class PList:
    """a list of pieces showing T[lo:hi] contiguously (if not `empty`), followed by `pad` blanks"""
    __slots__ = ("lo", "hi", "empty", "pad")

    def __init__(self, lo=None, hi=None, empty=True, pad=0):
        self.lo, self.hi, self.empty, self.pad = lo, hi, empty, lin(pad)

    def parts(self):
        return ([] if self.empty else [("cov", self.lo, self.hi)]) + ([("pad", self.pad)] if not (self.pad.is_const() and self.pad.c == 0) else [])

    def __repr__(self):
        return ("PList[]" if self.empty else f"PList[{self.lo}:{self.hi}]") + (f"+pad({self.pad})" if not (self.pad.is_const() and self.pad.c == 0) else "")


class PadPiece:
    __slots__ = ("m",)

    def __init__(self, m):
        self.m = lin(m)

    def __repr__(self):
        return f"PadPiece({self.m})"


class Text:
    __slots__ = ("parts",)

    def __init__(self, parts):
        self.parts = list(parts)

    def __repr__(self):
        return f"Text{self.parts}"


class TupleV:
    __slots__ = ("items",)

    def __init__(self, items):
        self.items = list(items)


class Opaque:
    __slots__ = ("tag",)

    def __init__(self, tag=""):
        self.tag = tag

    def __repr__(self):
        return f"Opaque({self.tag})"


class TypeSelf:
    pass


TYPE_SELF = TypeSelf()


# ---------------------------------------------------------------------------------------------------- state
class State:
    __slots__ = ("env", "facts", "terms", "_sys", "_nf", "_nt", "_ax")

    def __init__(self, env=None, facts=None, terms=None):
        self.env = dict(env or {})
        self.facts = list(facts or [])
        self.terms = dict(terms or {})      # Lin key -> (index Lin, A symbol, L symbol)
        self._sys = None                    # saturated constraint system (cache)
        self._nf = 0
        self._nt = 0
        self._ax = set()

    def copy(self):
        s = State(self.env, self.facts, self.terms)
        if self._sys is not None:
            s._sys = self._sys.copy()
            s._nf, s._nt, s._ax = self._nf, self._nt, set(self._ax)
        return s

    def assume(self, *cons):
        s = self.copy()
        s.facts.extend(cons)
        return s


class Outcome:
    __slots__ = ("how", "value", "st", "node")

    def __init__(self, how, value, st, node=None):
        self.how, self.value, self.st, self.node = how, value, st, node


_gensym = itertools.count()


def fresh(prefix):
    return Lin.var(f"{prefix}%{next(_gensym)}")


N = Lin.var("n")
K = Lin.var("k")
BASE = [ge(N, 0), ge(K, 0), le(K, N)]


def is_marker(v):
    return isinstance(v, tuple) and len(v) == 2 and v[0] in ("ALARM", "RAISE")


class TextInterp:
    """Interprets methods of one class (CHText) given as {name: ast.FunctionDef}."""

    def __init__(self, methods, max_paths=4000):
        self.methods = methods
        self.max_paths = max_paths
        self.floordivs = {}
        self.stats = {"paths": 0, "fm_queries": 0, "loops": 0, "invariants": 0, "candidates": 0}
        self.invariants = []     # textual, for evidence

    # ------------------------------------------------------------------ chunk model
    def term(self, st, idx):
        idx = lin(idx)
        k = idx.key()
        if k not in st.terms:
            name = f"{len(st.terms)}%{next(_gensym)}"
            st.terms[k] = (idx, Lin.var("A" + name), Lin.var("L" + name))
        return st.terms[k][1], st.terms[k][2]

    def saturate(self, st):
        """-> System: facts + instances of the chunk-model axioms for the index terms in use (cached in the state)."""
        if st._sys is None:
            st._sys = System().extend(BASE)
            st._nf, st._nt, st._ax = 0, 0, set()
        sy = st._sys
        if st._nf == len(st.facts) and st._nt == len(st.terms):
            return sy
        for c in st.facts[st._nf:]:
            sy.add(c)
        st._nf = len(st.facts)
        st._nt = len(st.terms)
        if sy.dead or not st.terms:
            return sy
        ax = st._ax
        terms = list(st.terms.values())
        for _ in range(3):
            added = False
            canon = {}
            for idx, A, L in terms:
                tk = idx.key()
                if ("valid", tk) not in ax and self._q(sy, ge(idx, 0)) and self._q(sy, lt(idx, K)):
                    ax.add(("valid", tk))
                    sy.extend((ge(L, 1), ge(A, 0), le(A + L, N)))
                    added = True
                if ("valid", tk) in ax and ("last", tk) not in ax and self._q(sy, ge(idx, K - 1)):
                    ax.add(("last", tk))
                    sy.add(eq(A + L, N))
                    added = True
                if ("ge0", tk) not in ax and (("valid", tk) in ax or self._q(sy, ge(idx, 0))):
                    ax.add(("ge0", tk))
                if ("ge0", tk) in ax:
                    if ("zero", tk) not in ax and self._q(sy, le(idx, 0)):
                        ax.add(("zero", tk))
                        sy.add(eq(A, 0))
                        added = True
                    if ("valid", tk) not in ax and ("lek", tk) not in ax and self._q(sy, le(idx, K)):
                        ax.add(("lek", tk))
                        sy.extend((ge(A, 0), le(A, N)))
                        added = True
                    if ("lek", tk) in ax and ("isk", tk) not in ax and self._q(sy, ge(idx, K)):
                        ax.add(("isk", tk))
                        sy.add(eq(A, N))
                        added = True
                ck = sy.reduce(idx).key()
                if ck in canon and ("same", tk, canon[ck][0]) not in ax:
                    ax.add(("same", tk, canon[ck][0]))
                    sy.extend((eq(A, canon[ck][1]), eq(L, canon[ck][2])))
                    added = True
                canon.setdefault(ck, (tk, A, L))
            red = [(sy.reduce(idx), idx.key(), A, L) for idx, A, L in terms]
            for r1, k1, A1, L1 in red:
                if ("valid", k1) not in ax:
                    continue
                for r2, k2, A2, L2 in red:
                    if k1 != k2 and ("succ", k1, k2) not in ax:
                        d = r2 - r1
                        if not d.t and d.c == 1:
                            ax.add(("succ", k1, k2))
                            sy.add(eq(A2, A1 + L1))
                            added = True
            if not added or sy.dead:
                break
        return sy

    def _q(self, sy, c):
        self.stats["fm_queries"] += 1
        return sy.entails(c)

    def proves(self, st, c):
        return self._q(self.saturate(st), c)

    def feasible(self, st):
        self.stats["fm_queries"] += 1
        return not self.saturate(st).infeasible_with()

    # ------------------------------------------------------------------ expressions
    def ev(self, e, st):
        """-> list of (value, state)"""
        if isinstance(e, ast.Constant):
            if isinstance(e.value, bool) or e.value is None:
                return [(NONE if e.value is None else Const(e.value), st)]
            if isinstance(e.value, int):
                return [(Int(e.value), st)]
            if isinstance(e.value, str):
                if e.value and set(e.value) == {" "}:
                    return [(Spaces(len(e.value)), st)]
                return [(Const(e.value), st)]
            return [(Opaque("const"), st)]
        if isinstance(e, ast.Name):
            if e.id in st.env:
                return [(st.env[e.id], st)]
            if e.id == "self":
                return [(SELF, st)]
            raise Unsupported(f"unbound name {e.id}")
        if isinstance(e, ast.JoinedStr):
            return [(Opaque("fstring"), st)]
        if isinstance(e, ast.Attribute):
            out = []
            for v, s in self.ev(e.value, st):
                out.append((v if is_marker(v) else self.attr(v, e.attr, s, e), s))
            return out
        if isinstance(e, ast.UnaryOp) and isinstance(e.op, ast.USub):
            return [(v, s) if is_marker(v) else (Int(-v.l), s) for v, s in self.ev(e.operand, st) if is_marker(v) or self._need_int(v, e)]
        if isinstance(e, ast.BinOp):
            out = []
            for a, s1 in self.ev(e.left, st):
                if is_marker(a):
                    out.append((a, s1))
                    continue
                for b, s2 in self.ev(e.right, s1):
                    if is_marker(b):
                        out.append((b, s2))
                        continue
                    out.extend(self.binop(e, a, b, s2))
            return out
        if isinstance(e, ast.Tuple):
            outs = [([], st)]
            for x in e.elts:
                nxt = []
                for items, s in outs:
                    for v, s2 in self.ev(x, s):
                        nxt.append((items + [v], s2))
                outs = nxt
            return [(next((x for x in items if is_marker(x)), None) or TupleV(items), s) for items, s in outs]
        if isinstance(e, ast.List):
            if not e.elts:
                return [(PList(), st)]
            if len(e.elts) == 1:
                out = []
                for v, s in self.ev(e.elts[0], st):
                    if is_marker(v):
                        out.append((v, s))
                    elif isinstance(v, Piece):
                        out.append((PList(v.lo, v.hi, False), s))
                    elif isinstance(v, PadPiece):
                        out.append((PList(pad=v.m), s))
                    else:
                        raise Unsupported(f"list of {v!r}")
                return out
            raise Unsupported("list literal")
        if isinstance(e, ast.Subscript):
            out = []
            for base, s1 in self.ev(e.value, st):
                if is_marker(base):
                    out.append((base, s1))
                    continue
                out.extend(self.subscript(e, base, s1))
            return out
        if isinstance(e, ast.Call):
            return self.call(e, st)
        if isinstance(e, ast.IfExp):
            out = []
            for tv, s in self.test(e.test, st):
                out.extend(self.ev(e.body if tv else e.orelse, s))
            return out
        if isinstance(e, (ast.Compare, ast.BoolOp)) or isinstance(e, ast.UnaryOp) and isinstance(e.op, ast.Not):
            return [(Const(tv), s) for tv, s in self.test(e, st)]
        raise Unsupported(f"expression {type(e).__name__}: {norm(e)[:60]}")

    def _need_int(self, v, e):
        if not isinstance(v, Int):
            raise Unsupported(f"integer expected in {norm(e)[:60]}, got {v!r}")
        return True

    def attr(self, v, name, st, e):
        if isinstance(v, SelfV):
            if name == "scrlen":
                return Int(N)
            if name == "chunks":
                return Opaque("self.chunks")
            raise Unsupported(f"self.{name}")
        if isinstance(v, SliceV) and name in ("start", "stop", "step"):
            return getattr(v, name)
        if isinstance(v, Piece) and name == "text":
            return Str(v.lo, v.hi, v.owner)
        if isinstance(v, TypeSelf) and name == "__name__":
            return Opaque("name")
        if isinstance(v, Opaque) and v.tag == "cls" and name == "Chunk":
            return Opaque("cls.Chunk")
        raise Unsupported(f"attribute .{name} of {v!r}")

    def floordiv(self, a, d, st):
        key = (a.key(), d)
        if key not in self.floordivs:
            self.floordivs[key] = fresh("q")
        q = self.floordivs[key]
        return Int(q), st.assume(le(q * d, a), le(a, q * d + (d - 1)))

    def binop(self, e, a, b, st):
        op = e.op
        if isinstance(a, Int) and isinstance(b, Int):
            if isinstance(op, ast.Add):
                return [(Int(a.l + b.l), st)]
            if isinstance(op, ast.Sub):
                return [(Int(a.l - b.l), st)]
            if isinstance(op, ast.Mult) and (a.l.is_const() or b.l.is_const()):
                return [(Int(a.l * b.l), st)]
            if isinstance(op, ast.FloorDiv) and b.l.is_const() and b.l.c > 0 and b.l.c.denominator == 1:
                v, s = self.floordiv(a.l, int(b.l.c), st)
                return [(v, s)]
            raise Unsupported(f"integer operation {norm(e)[:50]}")
        if isinstance(op, ast.Mult):
            s_, m = (a, b) if isinstance(b, Int) else (b, a)
            if isinstance(m, Int) and isinstance(s_, (Spaces, Const, Opaque)):
                unit = 1
                kind = "pad"
                if isinstance(s_, Spaces):
                    if not s_.m.is_const():
                        raise Unsupported("repetition of a computed string")
                    unit = int(s_.m.c)
                elif isinstance(s_, Const):
                    if not (isinstance(s_.v, str) and len(s_.v) == 1):
                        raise Unsupported(f"repetition of {s_.v!r}")
                    kind = "fill:" + s_.v
                else:
                    kind = "fill:" + s_.tag
                # str * m is empty for m <= 0
                out = []
                s_pos = st.assume(ge(m.l, 0))
                if self.feasible(s_pos):
                    out.append((Spaces(m.l * unit, kind), s_pos))
                s_neg = st.assume(lt(m.l, 0))
                if self.feasible(s_neg):
                    out.append((Spaces(0, kind), s_neg))
                return out
        if isinstance(op, ast.Add) and isinstance(b, PList) and (isinstance(a, PList) or isinstance(a, Opaque) and a.tag == "self.chunks"):
            left = a if isinstance(a, PList) else PList(lin(0), N, False)
            if not (left.pad.is_const() and left.pad.c == 0) and not b.empty:
                return [(("ALARM", "text pieces are placed after padding"), st)]
            if b.empty:
                return [(PList(left.lo, left.hi, left.empty, left.pad + b.pad), st)]
            if left.empty:
                return [(PList(b.lo, b.hi, False, b.pad), st)]
            if self.proves(st, eq(left.hi, b.lo)):
                return [(PList(left.lo, b.hi, False, b.pad), st)]
            return [(("ALARM", f"concatenated lists are not contiguous ({left.hi} then {b.lo})"), st)]
        if isinstance(op, ast.Add):
            pa, pb = self._text_parts(a), self._text_parts(b)
            if pa is not None and pb is not None:
                return [(Text(pa + pb), st)]
        raise Unsupported(f"operation {norm(e)[:60]} on {a!r}, {b!r}")

    def _text_parts(self, v):
        if isinstance(v, SelfV):
            return [("cov", lin(0), N)]
        if isinstance(v, Text):
            return list(v.parts)
        if isinstance(v, Spaces):
            return [(v.kind, v.m)]
        if isinstance(v, Opaque) and v.tag == "str(self)":
            return [("cov", lin(0), N)]
        if isinstance(v, Const) and v.v == "":
            return []
        if isinstance(v, PList):
            return v.parts()
        if isinstance(v, Opaque) and v.tag == "self.chunks":
            return [("cov", lin(0), N)]
        return None

    def norm_bound(self, b, m, st, default):
        """Python slice-bound normalisation of b against length m.  -> [(Lin in [0, m], state)]"""
        if isinstance(b, NoneV):
            return [(default, st)]
        if not isinstance(b, Int):
            raise Unsupported(f"slice bound {b!r}")
        out = []
        for cons, val in (([ge(b.l, 0), le(b.l, m)], b.l), ([gt(b.l, m)], m), ([lt(b.l, 0), ge(b.l + m, 0)], b.l + m), ([lt(b.l + m, 0)], lin(0))):
            s = st.assume(*cons)
            if self.feasible(s):
                out.append((val, s))
        return out

    def subscript(self, e, base, st):
        sl = e.slice
        if isinstance(base, Opaque) and base.tag == "self.chunks":
            out = []
            for iv, s in self.ev(sl, st):
                if is_marker(iv):
                    out.append((iv, s))
                    continue
                self._need_int(iv, e)
                if not (self.proves(s, ge(iv.l, 0)) and self.proves(s, lt(iv.l, K))):
                    return [(("ALARM", f"index `{norm(sl)}` of self.chunks is not proved to be within 0 .. len(self.chunks)-1"), s)]
                A, L = self.term(s, iv.l)
                out.append((Piece(iv.l, A, A + L), s))
            return out
        if isinstance(base, Str):
            m = base.hi - base.lo
            if isinstance(sl, ast.Slice):
                if sl.step is not None:
                    raise Unsupported("slice step")
                los = [(NONE, st)] if sl.lower is None else self.ev(sl.lower, st)
                out = []
                for lo, s1 in los:
                    for lo_n, s2 in self.norm_bound(lo, m, s1, lin(0)):
                        his = [(NONE, s2)] if sl.upper is None else self.ev(sl.upper, s2)
                        for hi, s3 in his:
                            for hi_n, s4 in self.norm_bound(hi, m, s3, m):
                                # empty when hi <= lo
                                s_ne = s4.assume(lt(lo_n, hi_n))
                                if self.feasible(s_ne):
                                    out.append((Str(base.lo + lo_n, base.lo + hi_n, base.owner), s_ne))
                                s_e = s4.assume(ge(lo_n, hi_n))
                                if self.feasible(s_e):
                                    out.append((Str(base.lo + lo_n, base.lo + lo_n, base.owner), s_e))
                return out
            out = []
            for iv, s in self.ev(sl, st):
                if is_marker(iv):
                    out.append((iv, s))
                    continue
                self._need_int(iv, e)
                for cons, pos in (([ge(iv.l, 0), lt(iv.l, m)], iv.l), ([lt(iv.l, 0), ge(iv.l + m, 0)], iv.l + m)):
                    s2 = s.assume(*cons)
                    if self.feasible(s2):
                        out.append((Str(base.lo + pos, base.lo + pos + 1, base.owner), s2))
                for cons in ([ge(iv.l, m)], [lt(iv.l + m, 0)]):
                    s2 = s.assume(*cons)
                    if self.feasible(s2):
                        out.append((("RAISE", "IndexError"), s2))
            return out
        if isinstance(base, SelfV):
            # a nested public operation: its specification is used (it is verified on its own)
            if isinstance(sl, ast.Slice):
                if sl.step is not None:
                    raise Unsupported("slice step")
                out = []
                los = [(NONE, st)] if sl.lower is None else self.ev(sl.lower, st)
                for lo, s1 in los:
                    his = [(NONE, s1)] if sl.upper is None else self.ev(sl.upper, s1)
                    for hi, s2 in his:
                        for (a, b), s3 in slice_spec(self, lo, hi, s2):
                            out.append((Text([("cov", a, b)]) if a is not None else Text([]), s3))
                return out
            raise Unsupported("self[int] inside an operation")
        if isinstance(base, Const) and isinstance(base.v, str):
            return [(Opaque("char"), st)]
        raise Unsupported(f"subscript of {base!r}")

    def call(self, e, st):
        name = call_name(e)
        f = e.func
        if e.keywords:
            raise Unsupported(f"keyword arguments in {norm(e)[:50]}")
        if name == "isinstance" and len(e.args) == 2:
            return [(Const(tv), s) for tv, s in self.test(e, st)]
        if name == "type" and len(e.args) == 1:
            out = []
            for v, s in self.ev(e.args[0], st):
                if is_marker(v):
                    out.append((v, s))
                    continue
                out.append((TYPE_SELF if isinstance(v, SelfV) else Opaque("type"), s))
            return out
        if name == "len" and len(e.args) == 1:
            out = []
            for v, s in self.ev(e.args[0], st):
                if is_marker(v):
                    out.append((v, s))
                    continue
                if isinstance(v, SelfV):
                    out.append((Int(N), s))
                elif isinstance(v, Str):
                    out.append((Int(v.hi - v.lo), s))
                elif isinstance(v, Opaque) and v.tag == "self.chunks":
                    out.append((Int(K), s))
                elif isinstance(v, Spaces):
                    out.append((Int(v.m), s))
                else:
                    raise Unsupported(f"len of {v!r}")
            return out
        if name == "str" and len(e.args) == 1:
            out = []
            for v, s in self.ev(e.args[0], st):
                if is_marker(v):
                    out.append((v, s))
                    continue
                out.append((Opaque("str(self)") if isinstance(v, SelfV) else Opaque("str"), s))
            return out
        if name in ("max", "min") and len(e.args) == 2 and isinstance(f, ast.Name):
            out = []
            for a, s1 in self.ev(e.args[0], st):
                for b, s2 in self.ev(e.args[1], s1):
                    self._need_int(a, e)
                    self._need_int(b, e)
                    big = name == "max"
                    sa = s2.assume(ge(a.l, b.l) if big else le(a.l, b.l))
                    if self.feasible(sa):
                        out.append((a, sa))
                    sb = s2.assume(lt(a.l, b.l) if big else gt(a.l, b.l))
                    if self.feasible(sb):
                        out.append((b, sb))
            return out
        if isinstance(f, ast.Attribute):
            out = []
            for recv, s in self.ev(f.value, st):
                out.extend(self.method(e, recv, f.attr, s))
            return out
        if isinstance(f, ast.Call) and call_name(f) == "type":
            # type(self)(...)
            out = []
            for tv, s in self.ev(f, st):
                if not isinstance(tv, TypeSelf):
                    raise Unsupported("constructor of another type")
                out.extend(self.construct(e, s))
            return out
        if isinstance(f, ast.Name) and f.id in ("ValueError", "IndexError", "TypeError", "KeyError", "AssertionError", "RuntimeError", "NotImplementedError"):
            return [(Opaque("exc:" + f.id), st)]
        raise Unsupported(f"call {norm(e)[:60]}")

    def construct(self, e, st):
        if not e.args:
            return [(Text([]), st)]
        if len(e.args) == 1 and isinstance(e.args[0], ast.Starred):
            out = []
            for v, s in self.ev(e.args[0].value, st):
                if not isinstance(v, PList):
                    raise Unsupported(f"constructor from *{v!r}")
                out.append((Text(v.parts()), s))
            return out
        if len(e.args) == 1:
            out = []
            for v, s in self.ev(e.args[0], st):
                if is_marker(v):
                    out.append((v, s))
                    continue
                if isinstance(v, Piece):
                    out.append((Text([("cov", v.lo, v.hi)]), s))
                elif isinstance(v, SelfV):
                    out.append((Text([("cov", lin(0), N)]), s))
                elif isinstance(v, Text):
                    out.append((v, s))
                else:
                    raise Unsupported(f"constructor from {v!r}")
            return out
        raise Unsupported("constructor with several arguments")

    def method(self, e, recv, name, st):
        if isinstance(recv, SelfV) and name in self.methods and name.startswith("_") and not name.startswith("__"):
            return self.inline(self.methods[name], e, st)
        if isinstance(recv, Piece) and name == "clone" and len(e.args) == 1:
            out = []
            for v, s in self.ev(e.args[0], st):
                if is_marker(v):
                    out.append((v, s))
                    continue
                if isinstance(v, tuple):
                    out.append((v, s))
                    continue
                if not isinstance(v, Str):
                    raise Unsupported(f"clone({v!r})")
                if v.owner is None or not self.proves(s, eq(v.owner, recv.owner)):
                    out.append((("ALARM", "a chunk is cloned with the text of another chunk: characters change colour"), s))
                    continue
                out.append((Piece(recv.owner, v.lo, v.hi), s))
            return out
        if isinstance(recv, PList) and name == "append" and len(e.args) == 1 and isinstance(e.func.value, ast.Name):
            out = []
            for v, s in self.ev(e.args[0], st):
                if is_marker(v):
                    out.append((v, s))
                    continue
                if isinstance(v, tuple):
                    out.append((v, s))
                    continue
                cur = s.env[e.func.value.id]
                s2 = s.copy()
                if isinstance(v, PadPiece):
                    s2.env[e.func.value.id] = PList(cur.lo, cur.hi, cur.empty, cur.pad + v.m)
                    out.append((NONE, s2))
                    continue
                if not isinstance(v, Piece):
                    raise Unsupported(f"append({v!r})")
                if not (cur.pad.is_const() and cur.pad.c == 0) and not self.proves(s, eq(cur.pad, 0)):
                    out.append((("ALARM", f"a text piece is appended to `{e.func.value.id}` after padding"), s))
                    continue
                if cur.empty:
                    s2.env[e.func.value.id] = PList(v.lo, v.hi, False)
                elif self.proves(s, eq(cur.hi, v.lo)):
                    s2.env[e.func.value.id] = PList(cur.lo, v.hi, False)
                else:
                    out.append((("ALARM", f"the piece appended to `{e.func.value.id}` does not start where the previous one ended "
                                          f"(previous end {cur.hi}, new start {v.lo}): characters are dropped or repeated"), s))
                    continue
                out.append((NONE, s2))
            return out
        if name == "make_plain" and len(e.args) == 1:
            out = []
            for v, s in self.ev(e.args[0], st):
                if is_marker(v):
                    out.append((v, s))
                elif isinstance(v, Spaces) and v.kind == "pad":
                    out.append((PadPiece(v.m), s))
                else:
                    raise Unsupported(f"make_plain({v!r})")
            return out
        if name == "calc_chunks_len" and len(e.args) == 1:
            out = []
            for v, s in self.ev(e.args[0], st):
                if isinstance(v, Opaque) and v.tag == "self.chunks":
                    out.append((Int(N), s))
                else:
                    raise Unsupported(f"calc_chunks_len({v!r})")
            return out
        if isinstance(recv, Const) and isinstance(recv.v, str) and name in ("isdigit",):
            return [(Opaque("bool"), st)]
        raise Unsupported(f"method .{name} of {recv!r}")

    def inline(self, func, e, st):
        ps = [a.arg for a in func.args.args][1:]
        if len(ps) != len(e.args):
            raise Unsupported(f"arity of {func.name}")
        outs = [([], st)]
        for x in e.args:
            nxt = []
            for items, s in outs:
                for v, s2 in self.ev(x, s):
                    nxt.append((items + [v], s2))
            outs = nxt
        res = []
        for items, s in outs:
            inner = State(dict(zip(ps, items)), s.facts, s.terms)
            for o in self.run(func.body, inner):
                back = State(s.env, o.st.facts, o.st.terms)
                if o.how == "return":
                    res.append((o.value if o.value is not None else NONE, back))
                elif o.how == "fall":
                    res.append((NONE, back))
                elif o.how == "raise":
                    res.append((("RAISE", o.value), back))
                elif o.how == "alarm":
                    res.append((("ALARM", o.value), back))
                else:
                    raise Unsupported(f"{o.how} out of {func.name}")
        return res

    # ------------------------------------------------------------------ tests
    def test(self, t, st):
        """-> [(bool, state)] with infeasible branches pruned"""
        if isinstance(t, ast.UnaryOp) and isinstance(t.op, ast.Not):
            return [(not tv, s) for tv, s in self.test(t.operand, st)]
        if isinstance(t, ast.BoolOp):
            is_and = isinstance(t.op, ast.And)
            cur = [st]
            res = []
            for v in t.values:
                nxt = []
                for s in cur:
                    for tv, s2 in self.test(v, s):
                        if tv != is_and:
                            res.append((tv, s2))
                        else:
                            nxt.append(s2)
                cur = nxt
            res.extend((is_and, s) for s in cur)
            return res
        if isinstance(t, ast.Call) and call_name(t) == "isinstance" and len(t.args) == 2:
            out = []
            for v, s in self.ev(t.args[0], st):
                ty = norm(t.args[1])
                if ty == "int":
                    out.append((isinstance(v, Int), s))
                elif ty == "slice":
                    out.append((isinstance(v, SliceV), s))
                else:
                    raise Unsupported(f"isinstance(.., {ty})")
            return out
        if isinstance(t, ast.Compare) and len(t.ops) == 1:
            op = t.ops[0]
            out = []
            for a, s1 in self.ev(t.left, st):
                for b, s2 in self.ev(t.comparators[0], s1):
                    out.extend(self.compare(t, op, a, b, s2))
            return out
        out = []
        for v, s in self.ev(t, st):
            if isinstance(v, Int):
                for tv, cons in ((True, [gt(v.l, 0)]), (True, [lt(v.l, 0)]), (False, [eq(v.l, 0)])):
                    s2 = s.assume(*cons)
                    if self.feasible(s2):
                        out.append((tv, s2))
            elif isinstance(v, Str):
                for tv, c in ((True, lt(v.lo, v.hi)), (False, ge(v.lo, v.hi))):
                    s2 = s.assume(c)
                    if self.feasible(s2):
                        out.append((tv, s2))
            elif isinstance(v, NoneV):
                out.append((False, s))
            elif isinstance(v, Const):
                out.append((bool(v.v), s))
            elif isinstance(v, PList) and v.pad.is_const() and v.pad.c == 0:
                out.append((not v.empty, s))
            else:
                raise Unsupported(f"truth of {v!r} in {norm(t)[:50]}")
        return out

    def compare(self, t, op, a, b, st):
        if isinstance(op, (ast.Is, ast.IsNot)):
            if isinstance(b, NoneV):
                r = isinstance(a, NoneV)
                return [(r if isinstance(op, ast.Is) else not r, st)]
            raise Unsupported(f"identity test {norm(t)[:50]}")
        if isinstance(a, Int) and isinstance(b, Int):
            table = {ast.Lt: (lt, ge), ast.LtE: (le, gt), ast.Gt: (gt, le), ast.GtE: (ge, lt)}
            out = []
            if type(op) in table:
                pos, neg = table[type(op)]
                for tv, c in ((True, pos(a.l, b.l)), (False, neg(a.l, b.l))):
                    s = st.assume(c)
                    if self.feasible(s):
                        out.append((tv, s))
                return out
            if isinstance(op, (ast.Eq, ast.NotEq)):
                is_eq = isinstance(op, ast.Eq)
                for tv, c in ((is_eq, eq(a.l, b.l)), (not is_eq, lt(a.l, b.l)), (not is_eq, gt(a.l, b.l))):
                    s = st.assume(c)
                    if self.feasible(s):
                        out.append((tv, s))
                return out
        if isinstance(a, Const) and isinstance(b, Const) and isinstance(op, (ast.Eq, ast.NotEq)):
            r = a.v == b.v
            return [(r if isinstance(op, ast.Eq) else not r, st)]
        if isinstance(a, (NoneV, Const)) and isinstance(b, (NoneV, Const, Int)) or isinstance(b, (NoneV, Const)) and isinstance(a, Int):
            if isinstance(op, (ast.Eq, ast.NotEq)):
                return [(isinstance(op, ast.NotEq), st)]
        raise Unsupported(f"comparison {norm(t)[:60]} of {a!r} and {b!r}")

    # ------------------------------------------------------------------ statements
    def run(self, stmts, st):
        """-> [Outcome]  how in return / raise / fall / break / continue / alarm"""
        live = [st]
        outs = []
        for stt in stmts:
            nxt = []
            for s in live:
                for o in self.stmt(stt, s):
                    if o.how == "fall":
                        nxt.append(o.st)
                    else:
                        outs.append(o)
            live = nxt
            self.stats["paths"] = max(self.stats["paths"], len(live) + len(outs))
            if len(live) + len(outs) > self.max_paths:
                raise Unsupported("path explosion")
            if not live:
                break
        outs.extend(Outcome("fall", None, s) for s in live)
        return outs

    def _vals(self, e, st, node):
        """evaluate, turning ALARM / RAISE markers into outcomes"""
        good, outs = [], []
        for v, s in self.ev(e, st):
            if isinstance(v, tuple) and v and v[0] == "ALARM":
                outs.append(Outcome("alarm", v[1], s, node))
            elif isinstance(v, tuple) and v and v[0] == "RAISE":
                outs.append(Outcome("raise", v[1], s, node))
            else:
                good.append((v, s))
        return good, outs

    def bind(self, target, v, st):
        s = st.copy()
        if isinstance(target, ast.Name):
            s.env[target.id] = v
            return s
        if isinstance(target, ast.Tuple) and isinstance(v, TupleV) and len(v.items) == len(target.elts):
            for t, x in zip(target.elts, v.items):
                s = self.bind(t, x, s)
            return s
        raise Unsupported(f"assignment target {norm(target)[:40]}")

    def stmt(self, n, st):
        if isinstance(n, ast.Expr):
            if isinstance(n.value, ast.Constant):
                return [Outcome("fall", None, st)]
            good, outs = self._vals(n.value, st, n)
            return outs + [Outcome("fall", None, s) for _, s in good]
        if isinstance(n, ast.Assign) and len(n.targets) == 1:
            good, outs = self._vals(n.value, st, n)
            return outs + [Outcome("fall", None, self.bind(n.targets[0], v, s)) for v, s in good]
        if isinstance(n, ast.AugAssign) and isinstance(n.target, ast.Name):
            fake = ast.BinOp(left=ast.Name(id=n.target.id, ctx=ast.Load()), op=n.op, right=n.value)
            ast.copy_location(fake, n)
            good, outs = self._vals(fake, st, n)
            return outs + [Outcome("fall", None, self.bind(n.target, v, s)) for v, s in good]
        if isinstance(n, ast.Return):
            if n.value is None:
                return [Outcome("return", NONE, st, n)]
            good, outs = self._vals(n.value, st, n)
            return outs + [Outcome("return", v, s, n) for v, s in good]
        if isinstance(n, ast.Raise):
            nm = call_name(n.exc) if isinstance(n.exc, ast.Call) else norm(n.exc) if n.exc is not None else "?"
            return [Outcome("raise", nm, st, n)]
        if isinstance(n, ast.Assert):
            outs = []
            for tv, s in self.test(n.test, st):
                outs.append(Outcome("fall", None, s) if tv else Outcome("raise", "AssertionError", s, n))
            return outs
        if isinstance(n, ast.If):
            outs = []
            for tv, s in self.test(n.test, st):
                outs.extend(self.run(n.body if tv else n.orelse, s))
            return outs
        if isinstance(n, ast.Break):
            return [Outcome("break", None, st, n)]
        if isinstance(n, ast.Continue):
            return [Outcome("continue", None, st, n)]
        if isinstance(n, ast.Pass):
            return [Outcome("fall", None, st)]
        if isinstance(n, ast.While):
            if n.orelse:
                raise Unsupported("while-else")
            return self.loop(n, st, lambda s: self.test(n.test, s), lambda s: s, n.body)
        if isinstance(n, ast.For):
            return self.for_loop(n, st)
        raise Unsupported(f"statement {type(n).__name__}")

    def for_loop(self, n, st):
        it = n.iter
        if n.orelse:
            raise Unsupported("for-else")
        def is_chunks(x):
            if norm(x) == "self.chunks":
                return True
            v = st.env.get(x.id) if isinstance(x, ast.Name) else None
            return isinstance(v, Opaque) and v.tag == "self.chunks"
        if not (isinstance(it, ast.Call) and call_name(it) == "enumerate" and len(it.args) == 1 and is_chunks(it.args[0])
                and isinstance(n.target, ast.Tuple) and len(n.target.elts) == 2 and all(isinstance(x, ast.Name) for x in n.target.elts)) \
                and not (is_chunks(it) and isinstance(n.target, ast.Name)):
            raise Unsupported(f"for loop over {norm(it)[:40]}")
        j = f"$j{n.lineno}"
        s0 = st.copy()
        s0.env[j] = Int(0)

        def test(s):
            out = []
            for tv, c in ((True, lt(s.env[j].l, K)), (False, ge(s.env[j].l, K))):
                s2 = s.assume(c)
                if self.feasible(s2):
                    out.append((tv, s2))
            return out

        def enter(s):
            s2 = s.copy()
            jv = s.env[j].l
            A, L = self.term(s2, jv)
            piece = Piece(jv, A, A + L)
            if isinstance(n.target, ast.Tuple):
                s2.env[n.target.elts[0].id] = Int(jv)
                s2.env[n.target.elts[1].id] = piece
            else:
                s2.env[n.target.id] = piece
            return s2

        def step(s):
            s2 = s.copy()
            s2.env[j] = Int(s.env[j].l + 1)
            return s2
        outs = self.loop(n, s0, test, enter, n.body, step=step, extra_modified={j})
        for o in outs:
            o.st.env.pop(j, None)
        return outs

    # ------------------------------------------------------------------ loops
    def _iteration(self, st, test, enter, body, step):
        """one test + body.  -> (continuing states, exits [Outcome])"""
        cont, exits = [], []
        for tv, s in test(st):
            if not tv:
                exits.append(Outcome("fall", None, s))
                continue
            for o in self.run(body, enter(s)):
                if o.how in ("fall", "continue"):
                    cont.append(step(o.st) if step else o.st)
                elif o.how == "break":
                    exits.append(Outcome("fall", None, o.st))
                else:
                    exits.append(o)
        return cont, exits

    def loop(self, node, st, test, enter, body, step=None, extra_modified=()):
        """Peel one iteration, then compute inductive invariants Houdini-style.  The continuing states are partitioned by
        which loop-modified integers hold a constant (e.g. `remaining = 0` after the last piece): each partition gets its own
        abstract head and invariant; states produced by one partition's iteration are checked against the invariant of the
        partition they fall into."""
        self.stats["loops"] += 1
        cont, exits = self._iteration(st, test, enter, body, step)
        if not cont:
            return exits
        modified = set(extra_modified)
        for x in ast.walk(ast.Module(body=body, type_ignores=[])):
            if isinstance(x, ast.Name) and isinstance(x.ctx, ast.Store):
                modified.add(x.id)
            if isinstance(x, ast.Call) and isinstance(x.func, ast.Attribute) and x.func.attr in ("append", "extend", "pop") and isinstance(x.func.value, ast.Name):
                modified.add(x.func.value.id)
        if isinstance(node, ast.For):
            for x in ast.walk(node.target):
                if isinstance(x, ast.Name):
                    modified.add(x.id)
        entry_vals = {nm + "@entry": v.l for nm, v in st.env.items() if isinstance(v, Int) and nm in modified}

        targets = {x.id for x in ast.walk(node.target) if isinstance(x, ast.Name)} if isinstance(node, ast.For) else set()

        def sig(s):
            return tuple(sorted((nm, v.l.c) for nm, v in s.env.items()
                                if nm in modified and nm not in targets and not nm.startswith("$j") and isinstance(v, Int) and v.l.is_const()))

        def atoms(s, names):
            out = {"0": lin(0), "n": N, "k": K}
            out.update(entry_vals)
            for nm in names:
                v = s.env[nm]
                if isinstance(v, Int):
                    out[nm] = v.l
                    if nm in modified or nm.startswith("$j"):
                        A, L = self.term(s, v.l)
                        out[f"A({nm})"] = A
                elif isinstance(v, Piece):
                    out[nm + ".owner"], out[nm + ".lo"], out[nm + ".hi"] = v.owner, v.lo, v.hi
                    A, L = self.term(s, v.owner)
                    out[f"A({nm}.owner)"] = A
                    out[f"end({nm}.owner)"] = A + L
                elif isinstance(v, PList):
                    if not v.empty:
                        out[nm + ".lo"], out[nm + ".hi"] = v.lo, v.hi
                    if not (v.pad.is_const() and v.pad.c == 0):
                        out[nm + ".pad"] = v.pad
            return out

        def con(cd, at):
            kind, a, b, c = cd
            if kind == "eq":
                return eq(at[a], at[b])
            if kind == "le":
                return le(at[a], at[b])
            if kind == "lt":
                return lt(at[a], at[b])
            return eq(at[a] + at[b], at[c])

        def val(l, m):
            return l.c + sum(c * m.get(v, 0) for v, c in l.t.items())

        def holds_at_model(cd, at, m):
            kind, a, b, c = cd
            if kind == "eq":
                return val(at[a], m) == val(at[b], m)
            if kind == "le":
                return val(at[a], m) <= val(at[b], m)
            if kind == "lt":
                return val(at[a], m) < val(at[b], m)
            return val(at[a], m) + val(at[b], m) == val(at[c], m)

        class Part:
            pass

        def build(P):
            states = P.states
            names = sorted(set(states[0].env))
            for s in states:
                names = sorted(set(names) & set(s.env))
            shape = states[0]
            head = State({}, [], {})
            common = None
            for s in states:
                ks = {c.key(): c for c in s.facts}
                common = ks if common is None else {k: v for k, v in common.items() if k in ks}
            head.facts = list(common.values())
            for s in states:
                for k, v in s.terms.items():
                    head.terms.setdefault(k, v)
            for nm in names:
                v = shape.env[nm]
                if any(type(s.env[nm]) is not type(v) for s in states):
                    raise Unsupported(f"loop: `{nm}` has different kinds on different paths")
                if nm not in modified:
                    head.env[nm] = v
                elif isinstance(v, Int):
                    head.env[nm] = Int(fresh(nm))
                elif isinstance(v, Piece):
                    head.env[nm] = Piece(fresh(nm + ".owner"), fresh(nm + ".lo"), fresh(nm + ".hi"))
                elif isinstance(v, PList):
                    if any(s.env[nm].empty for s in states):
                        if all(s.env[nm].empty for s in states) and all(s.env[nm].pad.is_const() and s.env[nm].pad.c == 0 for s in states):
                            head.env[nm] = PList()
                            continue
                        raise Unsupported(f"loop: list `{nm}` is empty on some paths only")
                    padded = any(not (s.env[nm].pad.is_const() and s.env[nm].pad.c == 0) for s in states)
                    head.env[nm] = PList(fresh(nm + ".lo"), fresh(nm + ".hi"), False, fresh(nm + ".pad") if padded else 0)
                elif isinstance(v, (NoneV, Const, Opaque, SelfV, SliceV)):
                    head.env[nm] = v
                else:
                    raise Unsupported(f"loop: cannot generalise `{nm}` = {v!r}")
            P.names = names
            P.head = head
            P.head_atoms = atoms(head, names)
            st_atoms = [atoms(s, names) for s in states]
            keys = sorted(k for k in P.head_atoms if all(k in a for a in st_atoms))
            mod_keys = {k for k in keys if any(k == m or k.startswith(m + ".") or k == f"A({m})" or k.startswith(f"A({m}.") or k.startswith(f"end({m}.") for m in modified)}
            sats = [self.saturate(s) for s in states]
            models = [sy.model() or {} for sy in sats]
            cands = []
            for a, b in itertools.combinations(keys, 2):
                if a in mod_keys or b in mod_keys:
                    cands.append(("eq", a, b, None))
            for a, b in itertools.permutations(keys, 2):
                if a in mod_keys or b in mod_keys:
                    cands.append(("le", a, b, None))
                    cands.append(("lt", a, b, None))
            for a, b in itertools.combinations(keys, 2):
                for c in keys:
                    if c in (a, b) or "0" in (a, b, c):
                        continue
                    if sum(x in mod_keys for x in (a, b, c)) >= 2:
                        cands.append(("sum", a, b, c))
            self.stats["candidates"] += len(cands)
            live = [cd for cd in cands if all(holds_at_model(cd, at, m) for at, m in zip(st_atoms, models))]
            P.live = [cd for cd in live if all(self._q(sat, con(cd, at)) for at, sat in zip(st_atoms, sats))]

        parts = {}
        for s in cont:
            P = parts.get(sig(s))
            if P is None:
                P = parts[sig(s)] = Part()
                P.states, P.head, P.exits, P.dirty = [], None, [], True
            P.states.append(s)
        for _round in range(30):
            changed = False
            for key in list(parts):
                P = parts[key]
                if P.head is None:
                    build(P)
                    P.dirty = True
                if not P.dirty:
                    continue
                P.dirty = False
                changed = True
                hs = P.head.copy()
                hs.facts = P.head.facts + [con(cd, P.head_atoms) for cd in P.live]
                cont2, exits2 = self._iteration(hs, test, enter, body, step)
                P.exits = exits2
                for s2 in cont2:
                    T = parts.get(sig(s2))
                    if T is None:
                        if len(parts) >= 5:
                            raise Unsupported("loop: too many partitions")
                        T = parts[sig(s2)] = Part()
                        T.states, T.head, T.exits, T.dirty = [s2], None, [], True
                        changed = True
                        continue
                    if T.head is None:
                        T.states.append(s2)
                        continue
                    if any(nm not in s2.env for nm in T.names):
                        raise Unsupported("loop: variable sets differ")
                    at = atoms(s2, T.names)
                    sat = self.saturate(s2)
                    have = {c.key() for c in s2.facts}
                    kept_facts = [c for c in T.head.facts if c.key() in have or self._q(sat, c)]
                    if len(kept_facts) != len(T.head.facts):
                        T.head.facts = kept_facts
                        T.head._sys = None
                        T.dirty = True
                        changed = True
                    keep = [cd for cd in T.live if all(x is None or x in at for x in cd[1:]) and self._q(sat, con(cd, at))]
                    if len(keep) != len(T.live):
                        T.live = keep
                        T.dirty = True
                        changed = True
            if not changed:
                break
        else:
            raise Unsupported("loop invariant did not stabilise")
        out = list(exits)
        for key, P in parts.items():
            out.extend(P.exits)
            self.stats["invariants"] += len(P.live)
            self.invariants.append((f"line {getattr(node, 'lineno', 0)}" + (f" [{', '.join(f'{a}={b}' for a, b in key)}]" if key else ""),
                                    [f"{a} {'==' if k == 'eq' else '+'} {b}" + (f" == {c}" if k == "sum" else "") for k, a, b, c in P.live if k in ("eq", "sum") and "@entry +" not in f"{a} +" and not a.endswith("@entry")][:40]))
        return out


# ---------------------------------------------------------------------------------------------------- specifications
def slice_spec(it, a, b, st):
    """Python semantics of T[a:b] on a string of length n.  -> [((lo, hi) | (None, None) for empty, state)]"""
    out = []
    for lo, s1 in it.norm_bound(a, N, st, lin(0)):
        for hi, s2 in it.norm_bound(b, N, s1, N):
            s_ne = s2.assume(lt(lo, hi))
            if it.feasible(s_ne):
                out.append(((lo, hi), s_ne))
            s_e = s2.assume(ge(lo, hi))
            if it.feasible(s_e):
                out.append(((None, None), s_e))
    return out


def normalise_text(it, parts, st):
    """Drop parts proved empty, merge contiguous covers.  Returns a list, or ('split', constraint) when the emptiness of a part
    is not determined in this state (the caller decides both sides)."""
    out = []
    for p in parts:
        if p[0] == "cov":
            if it.proves(st, ge(p[1], p[2])):
                continue
            if not it.proves(st, lt(p[1], p[2])):
                return ("split", lt(p[1], p[2]))
            if out and out[-1][0] == "cov" and it.proves(st, eq(out[-1][2], p[1])):
                out[-1] = ("cov", out[-1][1], p[2])
            else:
                out.append(p)
        else:
            if it.proves(st, le(p[1], 0)):
                continue
            if not it.proves(st, ge(p[1], 1)):
                return ("split", ge(p[1], 1))
            if out and out[-1][0] == p[0]:
                out[-1] = (p[0], out[-1][1] + p[1])
            else:
                out.append(p)
    return out


def same_text(it, got, want, st, depth=0):
    """got, want: part lists.  Equal as shown texts in every integer point of the state."""
    g = normalise_text(it, got, st)
    w = normalise_text(it, want, st) if not isinstance(g, tuple) else None
    sp = g if isinstance(g, tuple) else w if isinstance(w, tuple) else None
    if sp is not None:
        if depth > 6:
            return False
        from .fm import negations
        for cons in ([sp[1]], negations(sp[1])):
            s2 = st.assume(*cons)
            if it.feasible(s2) and not same_text(it, got, want, s2, depth + 1):
                return False
        return True
    if len(g) != len(w):
        return False
    for a, b in zip(g, w):
        if a[0] != b[0]:
            return False
        for x, y in zip(a[1:], b[1:]):
            if not it.proves(st, eq(x, y)):
                return False
    return True


def witness(it, st, names):
    m = it.saturate(st).model() or {}
    return {k: (int(v) if v.denominator == 1 else str(v)) for k, v in sorted(m.items()) if k in names}
