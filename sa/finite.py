"""Finite-domain abstract interpreter over function bodies (path-sensitive,
forking on undetermined tests).  No repository code is executed: the AST is
interpreted on *abstract* values only.

Values
  C(v)      a known constant (str / int / bool / None / tuple / frozenset of constants)
  K(kind, empty)  an opaque value of a known kind; kind in KINDS, empty in {True, False, None}
  S(parts)  a symbolic string: tuple of parts, each a str literal or a tagged tuple
  TOP       anything

Environment: dict  lvalue-text -> value   (e.g. 'self.op', 'value').
Events (calls the client asked to record) are kept in env['@events'] as a tuple.
"""
import ast

from .core import AnalysisError, call_name, norm, const

KINDS = ("none", "list", "tuple", "set", "dict", "str", "int", "float", "bool", "bytes", "other")
TYPE_KIND = {"list": "list", "tuple": "tuple", "set": "set", "dict": "dict", "str": "str", "int": "int", "bool": "bool", "bytes": "bytes",
             "frozenset": "set"}


class C:
    __slots__ = ("v",)

    def __init__(self, v):
        self.v = v

    def __eq__(self, o):
        return isinstance(o, C) and type(o.v) is type(self.v) and o.v == self.v

    def __hash__(self):
        return hash(("C", repr(self.v)))

    def __repr__(self):
        return f"C({self.v!r})"


class K:
    __slots__ = ("kind", "empty", "tag")

    def __init__(self, kind, empty=None, tag=None):
        self.kind, self.empty, self.tag = kind, empty, tag

    def __eq__(self, o):
        return isinstance(o, K) and (o.kind, o.empty, o.tag) == (self.kind, self.empty, self.tag)

    def __hash__(self):
        return hash(("K", self.kind, self.empty, self.tag))

    def __repr__(self):
        return f"K({self.kind}{'' if self.empty is None else ',empty' if self.empty else ',nonempty'}{'' if self.tag is None else ',' + str(self.tag)})"


class S:
    __slots__ = ("parts",)

    def __init__(self, parts):
        self.parts = tuple(parts)

    def __eq__(self, o):
        return isinstance(o, S) and o.parts == self.parts

    def __hash__(self):
        return hash(("S", self.parts))

    def __repr__(self):
        return f"S{self.parts!r}"


class _Top:
    def __repr__(self):
        return "TOP"


TOP = _Top()


def kind_of(v):
    if isinstance(v, C):
        x = v.v
        if x is None:
            return "none"
        if isinstance(x, bool):
            return "bool"
        for t, k in ((str, "str"), (int, "int"), (tuple, "tuple"), (list, "list"), (frozenset, "set"), (bytes, "bytes"), (dict, "dict")):
            if isinstance(x, t):
                return k
        return "other"
    if isinstance(v, K):
        return v.kind
    if isinstance(v, S):
        return "str"
    return None


def truth(v):
    """-> set of possible truth values"""
    if isinstance(v, C):
        return {bool(v.v)}
    if isinstance(v, K):
        if v.kind == "none":
            return {False}
        if v.kind in ("list", "tuple", "set", "dict", "str", "bytes"):
            return {True, False} if v.empty is None else {not v.empty}
        if v.kind == "other":
            return {True} if v.empty is False else {True, False}
        if v.kind in ("int", "float") and v.tag in ("zero", "nonzero"):
            return {v.tag == "nonzero"}
        return {True, False}
    if isinstance(v, S):
        return {True, False}
    return {True, False}


class Outcome:
    __slots__ = ("how", "env", "value", "node")

    def __init__(self, how, env, value=None, node=None):
        self.how, self.env, self.value, self.node = how, env, value, node

    def __repr__(self):
        return f"<{self.how} {self.value!r}>"


class Interp:
    """Subclass / configure:  record_calls = set of method names whose calls are
    recorded as events (receiver text, method, evaluated args)."""

    def __init__(self, record_calls=(), refine_hook=None, call_hook=None, max_paths=4096, consts=None):
        self.record_calls = set(record_calls)
        # constant tables known by their text (`self.NAME`, `cls.NAME`, `Class.NAME`, module globals): python list / tuple / set /
        # dict values folded from literals; used for membership tests, subscripts with a constant key, .get / .keys / .values
        self.consts = dict(consts or {})
        self.call_hook = call_hook
        self.max_paths = max_paths
        self.steps = 0

    # ------------------------------------------------------------ expressions
    def ev(self, e, env):
        if isinstance(e, ast.Constant):
            return C(e.value)
        if isinstance(e, (ast.Tuple, ast.List)):
            vals = [self.ev(x, env) for x in e.elts]
            if all(isinstance(v, C) for v in vals):
                return C(tuple(v.v for v in vals))
            return K("tuple" if isinstance(e, ast.Tuple) else "list", empty=not vals)
        if isinstance(e, ast.Set):
            vals = [self.ev(x, env) for x in e.elts]
            if all(isinstance(v, C) for v in vals):
                return C(frozenset(v.v for v in vals))
            return K("set", empty=False)
        if isinstance(e, ast.Dict):
            return K("dict", empty=not e.keys)
        if isinstance(e, (ast.Name, ast.Attribute)):
            t = norm(e)
            if t in env:
                return env[t]
            return S((("ref", t),))
        if isinstance(e, ast.IfExp):
            ts = self.test(e.test, env)
            outs = []
            for tv, env2 in ts:
                outs.append(self.ev(e.body if tv else e.orelse, env2))
            if len(outs) == 1 or all(o == outs[0] for o in outs):
                return outs[0]
            return TOP
        if isinstance(e, ast.BinOp) and isinstance(e.op, ast.Add):
            a, b = self.ev(e.left, env), self.ev(e.right, env)
            if isinstance(a, C) and isinstance(b, C) and type(a.v) is type(b.v) and isinstance(a.v, (str, int, tuple)):
                return C(a.v + b.v)
            if kind_of(a) == "list" and kind_of(b) == "list":
                ea = a.empty if isinstance(a, K) else None
                eb = b.empty if isinstance(b, K) else None
                return K("list", empty=(True if ea and eb else False if (ea is False or eb is False) else None), tag="fresh")

            def parts(v):
                if isinstance(v, C) and isinstance(v.v, str):
                    return (v.v,)
                if isinstance(v, S):
                    return v.parts
                return None
            pa, pb = parts(a), parts(b)
            if pa is not None and pb is not None:
                return S(pa + pb)
            return TOP
        if isinstance(e, ast.Subscript) and norm(e.value) in self.consts and isinstance(self.consts[norm(e.value)], dict):
            k = self.ev(e.slice, env)
            tbl = self.consts[norm(e.value)]
            if isinstance(k, C):
                try:
                    if k.v in tbl:
                        return C(tbl[k.v])
                except TypeError:
                    pass
            return TOP
        if isinstance(e, ast.Subscript):
            base = norm(e.value)
            k = self.ev(e.slice, env)
            if isinstance(k, C):
                return S((("sub", base, k.v),))
            return S((("sub", base, norm(e.slice)),))
        if isinstance(e, ast.Call):
            return self.call(e, env)
        if isinstance(e, ast.JoinedStr):
            ps = []
            for v in e.values:
                if isinstance(v, ast.Constant):
                    ps.append(v.value)
                else:
                    x = self.ev(v.value, env)
                    if isinstance(x, C) and isinstance(x.v, str):
                        ps.append(x.v)
                    elif isinstance(x, S):
                        ps.extend(x.parts)
                    else:
                        ps.append(("fmt", norm(v.value)))
            return S(ps)
        if isinstance(e, ast.BoolOp) and not all(isinstance(v, (ast.Compare, ast.BoolOp)) or (isinstance(v, ast.UnaryOp) and isinstance(v.op, ast.Not)) for v in e.values):
            # `a or b` / `a and b` used for its value: the first operand that decides, else the last one
            is_or = isinstance(e.op, ast.Or)
            cands = []
            for i, x in enumerate(e.values):
                v = self.ev(x, env)
                if i == len(e.values) - 1:
                    cands.append(v)
                    break
                t = truth(v)
                if t == {is_or}:
                    cands.append(v)
                    break
                if t == {not is_or}:
                    continue
                cands.append(v)      # may decide, may not
            if len(cands) == 1 or all(c == cands[0] for c in cands):
                return cands[0]
            ks = {kind_of(c) for c in cands}
            if len(ks) == 1 and None not in ks:
                return K(ks.pop())
            return TOP
        if isinstance(e, (ast.Compare, ast.BoolOp)) or (isinstance(e, ast.UnaryOp) and isinstance(e.op, ast.Not)):
            ts = {tv for tv, _ in self.test(e, env)}
            return C(ts.pop()) if len(ts) == 1 else K("bool")
        if isinstance(e, (ast.ListComp, ast.GeneratorExp)):
            self.__dict__.setdefault("_comps", {})[norm(e)] = e        # so that a join over the local that holds it can read it
            return K("list", tag=("comp", norm(e)))
        if isinstance(e, ast.UnaryOp) and isinstance(e.op, (ast.USub, ast.UAdd)):
            v = self.ev(e.operand, env)
            if isinstance(v, C) and isinstance(v.v, (int, float)) and not isinstance(v.v, bool):
                return C(-v.v if isinstance(e.op, ast.USub) else v.v)
            return TOP
        return TOP

    def call(self, e, env):
        name = call_name(e)
        f = e.func
        if self.call_hook is not None:
            r = self.call_hook(self, e, env)
            if r is not None:
                return r
        if isinstance(f, ast.Attribute) and name == "get" and norm(f.value) in self.consts and isinstance(self.consts[norm(f.value)], dict) and 1 <= len(e.args) <= 2 and not e.keywords:
            k = self.ev(e.args[0], env)
            tbl = self.consts[norm(f.value)]
            if isinstance(k, C):
                try:
                    if k.v in tbl:
                        return C(tbl[k.v])
                    return self.ev(e.args[1], env) if len(e.args) == 2 else C(None)
                except TypeError:
                    return TOP
            return TOP
        if isinstance(f, ast.Attribute) and name in ("upper", "lower", "strip") and not e.args:
            v = self.ev(f.value, env)
            if isinstance(v, C) and isinstance(v.v, str):
                return C(getattr(v.v, name)())
            return K("str")
        if isinstance(f, ast.Attribute) and name == "join" and len(e.args) == 1:
            sep = self.ev(f.value, env)
            a = e.args[0]
            if isinstance(a, ast.Name):
                v_ = env.get(a.id)
                if isinstance(v_, K) and isinstance(v_.tag, tuple) and len(v_.tag) == 2 and v_.tag[0] == "comp" and v_.tag[1] in self.__dict__.get("_comps", {}):
                    a = self._comps[v_.tag[1]]          # the comprehension the local was bound to
            if isinstance(a, (ast.GeneratorExp, ast.ListComp)) and len(a.generators) == 1:
                g = a.generators[0]
                tgt = norm(g.target)
                env2 = dict(env)
                env2[tgt] = S((("elt", norm(g.iter)),))
                elt = self.ev(a.elt, env2)
                return S((("join", sep.v if isinstance(sep, C) else repr(sep), elt, norm(g.iter), tuple(norm(i) for i in g.ifs), tgt),))
            if isinstance(a, ast.BinOp) and isinstance(a.op, ast.Mult):
                # sep.join([x] * len(seq)): one x per element of seq, like (x for _ in seq)
                lst, cnt = (a.left, a.right) if isinstance(a.left, (ast.List, ast.Tuple)) else (a.right, a.left)
                if isinstance(lst, (ast.List, ast.Tuple)) and len(lst.elts) == 1 and isinstance(cnt, ast.Call) and isinstance(cnt.func, ast.Name) and cnt.func.id == "len" \
                        and len(cnt.args) == 1 and not cnt.keywords:
                    return S((("join", sep.v if isinstance(sep, C) else repr(sep), self.ev(lst.elts[0], env), norm(cnt.args[0]), (), None),))
            return S((("join", sep.v if isinstance(sep, C) else repr(sep), None, norm(a), (), None),))
        if name == "isinstance" and len(e.args) == 2:
            ts = {tv for tv, _ in self.test(e, env)}
            return C(ts.pop()) if len(ts) == 1 else K("bool")
        if name in ("list", "tuple", "set", "sorted") and len(e.args) == 1:
            v = self.ev(e.args[0], env)
            return K({"sorted": "list"}.get(name, name), empty=v.empty if isinstance(v, K) else None, tag="fresh")
        if name == "str" and len(e.args) == 1:
            return S((("str", norm(e.args[0])),))
        if self.call_hook is not None:
            # an unknown call: its arguments are still evaluated, so that calls nested in them are seen by the hook
            for a in list(e.args) + [k.value for k in e.keywords]:
                if any(isinstance(x, ast.Call) for x in ast.walk(a)):
                    self.ev(a, env)
        return TOP

    # ------------------------------------------------------------ tests
    def test(self, t, env):
        """-> list of (truth value, refined env)"""
        if isinstance(t, ast.UnaryOp) and isinstance(t.op, ast.Not):
            return [(not tv, e2) for tv, e2 in self.test(t.operand, env)]
        if isinstance(t, ast.BoolOp):
            is_and = isinstance(t.op, ast.And)
            states = [(None, env)]
            results = []
            cur = [env]
            for i, v in enumerate(t.values):
                nxt = []
                for e1 in cur:
                    for tv, e2 in self.test(v, e1):
                        if tv != is_and:      # short circuit
                            results.append((tv, e2))
                        else:
                            nxt.append(e2)
                cur = nxt
            for e1 in cur:
                results.append((is_and, e1))
            return results
        if isinstance(t, ast.Compare) and len(t.ops) == 1:
            op = t.ops[0]
            l, r = self.ev(t.left, env), self.ev(t.comparators[0], env)
            if isinstance(op, (ast.Is, ast.IsNot)) and isinstance(r, C) and r.v is None:
                k = kind_of(l)
                if isinstance(l, S) and len(l.parts) == 1 and isinstance(l.parts[0], tuple) and l.parts[0][0] == "ref":
                    k = None
                if k is None:
                    key = norm(t.left)
                    e_t, e_f = dict(env), dict(env)
                    e_t[key] = C(None)
                    return [(isinstance(op, ast.Is), e_t), (not isinstance(op, ast.Is), e_f)]
                res = (k == "none")
                return [(res if isinstance(op, ast.Is) else not res, env)]
            if isinstance(op, (ast.In, ast.NotIn)) and isinstance(l, C):
                rt = t.comparators[0]
                cont = None
                if norm(rt) in self.consts:
                    cont = self.consts[norm(rt)]
                elif isinstance(rt, ast.Call) and isinstance(rt.func, ast.Attribute) and rt.func.attr in ("keys", "values") and not rt.args and norm(rt.func.value) in self.consts \
                        and isinstance(self.consts[norm(rt.func.value)], dict):
                    d_ = self.consts[norm(rt.func.value)]
                    cont = list(d_.keys()) if rt.func.attr == "keys" else list(d_.values())
                if cont is not None:
                    try:
                        res = l.v in cont
                        return [(res if isinstance(op, ast.In) else not res, env)]
                    except TypeError:
                        pass
            if isinstance(op, (ast.In, ast.NotIn)) and isinstance(l, C) and isinstance(r, C) and isinstance(r.v, (tuple, frozenset, str)):
                res = l.v in r.v
                return [(res if isinstance(op, ast.In) else not res, env)]
            if isinstance(op, (ast.Eq, ast.NotEq)) and isinstance(l, C) and isinstance(r, C):
                res = l.v == r.v
                return [(res if isinstance(op, ast.Eq) else not res, env)]
            if isinstance(op, (ast.Eq, ast.NotEq)):
                for a, b in ((l, r), (r, l)):
                    # a string of known emptiness compared with the empty string literal
                    if isinstance(a, C) and a.v == "" and isinstance(b, K) and b.kind == "str" and b.empty is not None:
                        return [(b.empty if isinstance(op, ast.Eq) else not b.empty, env)]
            return [(True, env), (False, env)]
        if isinstance(t, ast.Call) and call_name(t) == "isinstance" and len(t.args) == 2:
            v = self.ev(t.args[0], env)
            types = t.args[1].elts if isinstance(t.args[1], ast.Tuple) else [t.args[1]]
            kinds = set()
            unknown_type = False
            for ty in types:
                nm = norm(ty).split(".")[-1]
                if nm == "Number":
                    kinds.update(("int", "float", "bool"))
                elif nm == "float":
                    kinds.add("float")
                elif nm in TYPE_KIND:
                    kinds.add(TYPE_KIND[nm])
                    if nm == "int":
                        kinds.add("bool")
                else:
                    unknown_type = True
                    kinds.add("@" + nm)
            k = kind_of(v)
            if isinstance(v, K) and v.kind == "other" and v.tag is not None:
                # an opaque object of a named class
                if ("@" + str(v.tag)) in kinds:
                    return [(True, env)]
                return [(False, env)] if not unknown_type or True else [(True, env), (False, env)]
            if k is None or (isinstance(v, S) and len(v.parts) == 1 and isinstance(v.parts[0], tuple) and v.parts[0][0] == "ref"):
                return [(True, env), (False, env)]
            if k == "other":
                return [(False, env)] if not unknown_type else [(True, env), (False, env)]
            return [(k in kinds, env)]
        v = self.ev(t, env)
        return [(tv, env) for tv in sorted(truth(v), reverse=True)]

    # ------------------------------------------------------------ statements
    def run(self, stmts, env):
        """-> list of Outcome"""
        outs = []
        live = [env]
        for st in stmts:
            nxt = []
            for e in live:
                for o in self.stmt(st, e):
                    if o.how == "fall":
                        nxt.append(o.env)
                    else:
                        outs.append(o)
            live = nxt
            self.steps += len(live)
            if len(live) + len(outs) > self.max_paths:
                raise AnalysisError("finite", "paths", "too many paths")
            if not live:
                break
        outs.extend(Outcome("fall", e) for e in live)
        return outs

    def assign(self, target, val, env):
        env = dict(env)
        env[norm(target)] = val
        return env

    def stmt(self, st, env):
        if isinstance(st, ast.Assign):
            v = self.ev(st.value, env)
            if getattr(self, "record_stores", False):
                for t in st.targets:
                    if isinstance(t, ast.Subscript):
                        env = dict(env)
                        env["@events"] = env.get("@events", ()) + (("store", norm(t.value), self.ev(t.slice, env), v, st),)
            for t in st.targets:
                if isinstance(t, (ast.Tuple, ast.List)):
                    if isinstance(st.value, (ast.Tuple, ast.List)) and len(st.value.elts) == len(t.elts) and not any(isinstance(x, ast.Starred) for x in list(t.elts) + list(st.value.elts)):
                        vals_ = [self.ev(y, env) for y in st.value.elts]       # a, b = (x, y): position-wise, right side evaluated first
                        for x, y in zip(t.elts, vals_):
                            env = self.assign(x, y, env)
                    else:
                        for x in t.elts:
                            env = self.assign(x, TOP, env)
                else:
                    env = self.assign(t, v, env)
            return [Outcome("fall", env)]
        if isinstance(st, ast.AugAssign):
            if isinstance(st.op, ast.Add):
                v = self.ev(ast.BinOp(left=_load(st.target), op=ast.Add(), right=st.value), env)
            else:
                v = TOP
            return [Outcome("fall", self.assign(st.target, v, env))]
        if isinstance(st, ast.AnnAssign):
            if st.value is not None:
                return [Outcome("fall", self.assign(st.target, self.ev(st.value, env), env))]
            return [Outcome("fall", env)]
        if isinstance(st, ast.If):
            outs = []
            for tv, e2 in self.test(st.test, env):
                outs.extend(self.run(st.body if tv else st.orelse, e2))
            return outs
        if isinstance(st, ast.Return):
            return [Outcome("return", env, self.ev(st.value, env) if st.value is not None else C(None), st)]
        if isinstance(st, ast.Raise):
            nm = call_name(st.exc) if isinstance(st.exc, ast.Call) else (norm(st.exc) if st.exc is not None else "reraise")
            return [Outcome("raise", env, nm, st)]
        if isinstance(st, ast.Assert):
            outs = []
            for tv, e2 in self.test(st.test, env):
                if tv:
                    outs.append(Outcome("fall", e2))
                else:
                    outs.append(Outcome("raise", e2, "AssertionError", st))
            return outs
        if isinstance(st, ast.Expr):
            v = st.value
            if isinstance(v, ast.Call):
                if isinstance(v.func, ast.Attribute) and v.func.attr in self.record_calls:
                    ev = (norm(v.func.value), v.func.attr, tuple(self.ev(a, env) for a in v.args), tuple(norm(a) for a in v.args))
                    env = dict(env)
                    env["@events"] = env.get("@events", ()) + (ev,)
                elif self.call_hook is not None:
                    self.call_hook(self, v, env)
            return [Outcome("fall", env)]
        if isinstance(st, ast.Pass):
            return [Outcome("fall", env)]
        if isinstance(st, ast.Continue):
            return [Outcome("continue", env, None, st)]
        if isinstance(st, ast.Break):
            return [Outcome("break", env, None, st)]
        if isinstance(st, (ast.For, ast.While)):
            # loops: body analysed once for its effects on recorded events (0 or 1+ iterations); assigned names become TOP
            from .core import assigned_names
            env2 = dict(env)
            for n in assigned_names(st):
                env2[n] = TOP
            outs = [Outcome("fall", env)]
            for o in self.run(st.body, env2):
                if o.how in ("fall",):
                    outs.append(o)
                elif o.how in ("continue", "break"):
                    outs.append(Outcome("fall", o.env))      # leaves the pass / the loop: execution goes on after the loop
                elif o.how in ("return", "raise"):
                    outs.append(o)
            return outs
        if isinstance(st, ast.Try):
            outs = self.run(st.body, env)
            for h in st.handlers:
                outs.extend(self.run(h.body, env))
            return outs
        if isinstance(st, ast.With):
            return self.run(st.body, env)
        if isinstance(st, (ast.FunctionDef, ast.ClassDef, ast.Import, ast.ImportFrom, ast.Global, ast.Nonlocal, ast.Delete)):
            return [Outcome("fall", env)]
        raise AnalysisError("finite", type(st).__name__, "statement kind not supported by the finite interpreter")


def _load(t):
    import copy
    t2 = copy.copy(t)
    t2.ctx = ast.Load()
    return t2
