"""Summaries of "walks over the symbols of a production" (FIRST / FOLLOW / look-ahead computations of an LL table builder).

A walk is a `for sym in <symbols>` loop whose body decides, per symbol, what the symbol contributes to an accumulator set and
whether the walk goes on behind it.  Whatever the spelling (break + for/else, early `return` from a helper, flags), its
behaviour is a function of the *class* of the symbol:

    NONE   the empty-production marker None
    T      a terminal
    NN     a nullable non-terminal
    NX     a non-nullable non-terminal

The body is interpreted once per class with the tests `sym is None`, `sym in <terminals>`, `sym in <nullables>` decided by the
class; any other test forks and is recorded in the path condition.  The result:

    per_class[c] = [Path(effects, how, conds)]     how: "next" | "break" | "return"
    exhausted    = effects that run only after the loop ran to its end (for/else, then the statements after the loop)
    after_break  = effects of the statements after the loop (they also run after a `break`)

Effects are (op, receiver text, argument text) with op in {"add", "merge", "other:<method>"}; the loop variable is written
`<sym>`; local names are replaced by their reaching definitions.  Nothing is executed.
"""
import ast

from .core import AnalysisError, call_name, norm, parent
from .guards import expand_at, split

CLASSES = ("NONE", "T", "NN", "NX")


class Unknown(Exception):
    pass


class Path:
    __slots__ = ("effects", "how", "conds", "value")

    def __init__(self, effects=(), how="next", conds=(), value=None):
        self.effects, self.how, self.conds, self.value = tuple(effects), how, tuple(conds), value

    def __repr__(self):
        return f"<{self.how} {list(self.effects)} if {list(self.conds)}>"


class Summary:
    def __init__(self):
        self.per_class = {}
        self.exhausted = ()
        self.after_break = ()
        self.loop = None
        self.sym = None
        self.rename = {}
        self.exhaust_value = None
        self.result_is_flag = False

    def describe(self):
        out = []
        for c in CLASSES:
            out.append(f"{c}: " + " | ".join(f"{[e[0] + ' ' + e[1] + ' <- ' + e[2] for e in p.effects]} then {p.how}" for p in self.per_class.get(c, [])))
        out.append(f"exhausted: {[e[0] + ' ' + e[1] + ' <- ' + e[2] for e in self.exhausted]}")
        return "; ".join(out)


def _txt(e, at, sym, rename):
    t = norm(expand_at(e, at))
    return _rn(t, sym, rename)


def _rn(t, sym, rename):
    import re
    if sym:
        t = re.sub(rf"\b{re.escape(sym)}\b", "<sym>", t)
    for k, v in rename.items():
        t = re.sub(rf"(?<![\w.]){re.escape(k)}\b", v, t)
    return t


PURE_CALLS = {"len", "min", "max", "sorted", "set", "frozenset", "list", "tuple", "str", "bool", "int", "isinstance", "any", "all", "sum", "reversed", "enumerate", "zip", "range", "repr"}


def _effect(st, sym, rename, with_node=False):
    """effect of one simple statement on some set, or None"""
    out = None
    if isinstance(st, ast.Expr) and isinstance(st.value, ast.Call) and isinstance(st.value.func, ast.Attribute):
        c = st.value
        m = c.func.attr
        if m in ("add", "update", "append", "extend", "discard", "remove", "clear", "difference_update", "intersection_update") and len(c.args) <= 1:
            op = {"add": "add", "update": "merge"}.get(m, "other:" + m)
            arg = expand_at(c.args[0], st) if c.args else None
            out = (op, _txt(c.func.value, st, sym, rename), _rn(norm(arg), sym, rename) if arg is not None else "", arg)
    elif isinstance(st, ast.AugAssign) and isinstance(st.op, ast.BitOr):
        arg = expand_at(st.value, st)
        out = ("merge", _txt(st.target, st, sym, rename), _rn(norm(arg), sym, rename), arg)
    elif isinstance(st, ast.AugAssign) and isinstance(st.op, (ast.Sub, ast.BitAnd, ast.BitXor)):
        out = ("other:" + type(st.op).__name__, _txt(st.target, st, sym, rename), _txt(st.value, st, sym, rename), None)
    if out is None:
        return None
    return out if with_node else out[:3]


def _impure_calls(node):
    """calls inside `node` that are not known to be free of effects on sets"""
    out = []
    for c in ast.walk(node):
        if isinstance(c, ast.Call):
            if isinstance(c.func, ast.Name) and c.func.id in PURE_CALLS:
                continue
            if isinstance(c.func, ast.Attribute) and c.func.attr in ("get", "items", "keys", "values", "copy", "strip", "split", "startswith", "endswith", "union", "intersection",
                                                                     "difference", "issubset", "issuperset", "isdisjoint", "index", "count", "format", "join"):
                continue
            out.append(c)
    return out


class _Run:
    def __init__(self, sym, roles, rename, klass):
        self.sym, self.roles, self.rename, self.klass = sym, roles, rename, klass

    def test(self, t):
        """-> list of (truth, cond or None)"""
        out = [(True, [])]
        res = []
        # evaluate conjunct-wise through split (handles not / and / or-negation)
        return self._bool(t)

    def _bool(self, t):
        if isinstance(t, ast.UnaryOp) and isinstance(t.op, ast.Not):
            return [(not v, c) for v, c in self._bool(t.operand)]
        if isinstance(t, ast.BoolOp):
            is_and = isinstance(t.op, ast.And)
            cur = [([],)]
            results = []
            live = [[]]
            for v in t.values:
                nxt = []
                for conds in live:
                    for tv, c in self._bool(v):
                        if tv != is_and:
                            results.append((tv, conds + c))
                        else:
                            nxt.append(conds + c)
                live = nxt
            for conds in live:
                results.append((is_and, conds))
            return results
        if isinstance(t, ast.Compare) and len(t.ops) == 1:
            op = t.ops[0]
            l, r = _txt(t.left, t, self.sym, self.rename), _txt(t.comparators[0], t, self.sym, self.rename)
            k = self.klass
            if l == "<sym>" and isinstance(op, (ast.Is, ast.IsNot, ast.Eq, ast.NotEq)) and r == "None":
                v = (k == "NONE")
                return [(v if isinstance(op, (ast.Is, ast.Eq)) else not v, [])]
            if l == "<sym>" and isinstance(op, (ast.In, ast.NotIn)):
                if r in self.roles["terminals"]:
                    v = (k == "T")
                    return [(v if isinstance(op, ast.In) else not v, [])]
                if r in self.roles["nullables"]:
                    if k == "NONE":
                        raise Unknown("the empty-production marker is tested for nullability")
                    v = (k == "NN")
                    return [(v if isinstance(op, ast.In) else not v, [])]
            txt = f"{l} {'in' if isinstance(op, ast.In) else 'not in' if isinstance(op, ast.NotIn) else type(op).__name__} {r}"
            if isinstance(op, ast.NotIn):
                return [(True, [(f"{l} in {r}", False)]), (False, [(f"{l} in {r}", True)])]
            return [(True, [(txt, True)]), (False, [(txt, False)])]
        if isinstance(t, ast.Constant):
            return [(bool(t.value), [])]
        if _impure_calls(t):
            raise Unknown(f"call in the test `{norm(t)[:50]}`")
        txt = _txt(t, t, self.sym, self.rename)
        return [(True, [(txt, True)]), (False, [(txt, False)])]

    def block(self, stmts, eff, conds):
        """-> list of Path (how in next / break / return / fall)"""
        live = [(list(eff), list(conds))]
        done = []
        for st in stmts:
            nxt = []
            for e, c in live:
                for p in self.stmt(st, e, c):
                    if p.how == "fall":
                        nxt.append((list(p.effects), list(p.conds)))
                    else:
                        done.append(p)
            live = nxt
            if len(live) + len(done) > 64:
                raise Unknown("too many paths")
            if not live:
                break
        done.extend(Path(e, "fall", c) for e, c in live)
        return done

    def stmt(self, st, eff, conds):
        if isinstance(st, ast.If):
            out = []
            for tv, c in self._bool(st.test):
                out.extend(self.block(st.body if tv else st.orelse, eff, conds + c))
            return out
        if isinstance(st, ast.Continue):
            return [Path(eff, "next", conds)]
        if isinstance(st, ast.Break):
            return [Path(eff, "break", conds)]
        if isinstance(st, ast.Return):
            return [Path(eff, "return", conds, st.value)]
        if isinstance(st, (ast.Pass, ast.Assert)):
            return [Path(eff, "fall", conds)]
        if isinstance(st, ast.Raise):
            return [Path(eff, "raise", conds)]
        ef = _effect(st, self.sym, self.rename, with_node=True)
        if ef is not None:
            outs = []
            for arg, c in self.arg_cases(ef[3]):
                e3 = ef[:3]
                if arg is not None:
                    txt = _rn(norm(arg), self.sym, self.rename)
                    if isinstance(arg, (ast.Tuple, ast.List, ast.Set)) and len(arg.elts) == 1 and ef[0] == "merge":
                        e3 = ("add", ef[1], _rn(norm(arg.elts[0]), self.sym, self.rename))      # update((x,)) == add(x)
                    else:
                        e3 = (ef[0], ef[1], txt)
                    if _impure_calls(arg):
                        raise Unknown(f"call inside `{norm(st)[:50]}`")
                outs.append(Path(eff + [e3], "fall", conds + c))
            return outs
        if isinstance(st, ast.Assign) and all(isinstance(t, ast.Name) for t in st.targets):
            bad = _impure_calls(st.value)
            if bad:
                raise Unknown(f"call `{norm(bad[0])[:50]}` (its effect on the sets is not known)")
            return [Path(eff, "fall", conds)]      # a local: read through its reaching definition where it is used
        if isinstance(st, ast.AugAssign) and isinstance(st.target, ast.Name) and isinstance(st.op, (ast.BitOr, ast.Add)) and not isinstance(st.value, (ast.Name, ast.Subscript, ast.Attribute, ast.Call)):
            return [Path(eff, "fall", conds)]      # a change flag such as `updated |= len(s) != n`
        if isinstance(st, ast.Expr) and isinstance(st.value, ast.Constant):
            return [Path(eff, "fall", conds)]
        raise Unknown(f"statement `{norm(st)[:60]}`")

    def arg_cases(self, arg):
        """a conditional expression as the argument of an effect is decided by the class of the symbol where possible"""
        if arg is None or not isinstance(arg, ast.IfExp):
            return [(arg, [])]
        out = []
        for tv, c in self._bool(arg.test):
            for a2, c2 in self.arg_cases(arg.body if tv else arg.orelse):
                out.append((a2, c + c2))
        return out


def _straight(stmts, sym, rename, stop_at=None):
    """effects of a straight-line statement list (no symbol-dependent branching allowed)"""
    out = []
    for st in stmts:
        if st is stop_at:
            break
        ef = _effect(st, sym, rename)
        if ef is not None:
            out.append(ef)
            continue
        if isinstance(st, (ast.Assert, ast.Pass)) or (isinstance(st, ast.Assign) and all(isinstance(t, ast.Name) for t in st.targets)):
            continue
        if isinstance(st, ast.Return):
            break
        if isinstance(st, ast.Expr) and isinstance(st.value, ast.Constant):
            continue
        # any other statement (a loop consuming the set, a conditional ...): effects inside it are conditional
        for x in ast.walk(st):
            if isinstance(x, ast.stmt):
                ef = _effect(x, sym, rename)
                if ef is not None:
                    out.append(("nested:" + ef[0], ef[1], ef[2]))
    return out


def summarize(loop, roles, rename=None, tail=None):
    """loop: ast.For over the symbols; roles: {"terminals": {texts}, "nullables": {texts}} in the vocabulary *after* renaming;
    rename: helper-local text -> caller text; tail: statements after the loop that belong to the walk (default: the rest of
    the statement list the loop is in)."""
    rename = rename or {}
    if not isinstance(loop.target, ast.Name):
        raise Unknown("loop target is not a simple name")
    sym = loop.target.id
    s = Summary()
    s.loop, s.sym, s.rename = loop, sym, rename
    for k in CLASSES:
        r = _Run(sym, roles, rename, k)
        try:
            paths = r.block(loop.body, [], [])
        except Unknown as e:
            if k == "NONE":
                s.per_class[k] = None        # the marker cannot be classified: the caller decides whether it can occur
                continue
            raise
        s.per_class[k] = [Path(p.effects, "next" if p.how == "fall" else p.how, p.conds, p.value) for p in paths]
    if tail is None:
        p = parent(loop)
        tail = []
        for f in ("body", "orelse", "finalbody"):
            lst = getattr(p, f, None)
            if isinstance(lst, list) and any(x is loop for x in lst):
                i = [j for j, x in enumerate(lst) if x is loop][0]
                tail = lst[i + 1:]
    s.after_break = tuple(_straight(tail, None, rename))
    s.exhausted = tuple(_straight(loop.orelse, None, rename)) + s.after_break
    s.exhaust_value = next((st.value for st in list(loop.orelse) + list(tail) if isinstance(st, ast.Return)), None)
    return s


def const_truth(e):
    if e is None:
        return False        # bare return / falling off the end
    if isinstance(e, ast.Constant):
        return bool(e.value)
    return None


def attach_caller_branch(summ, call):
    """The walk lives in a helper whose result is only tested by the caller (`if helper(..): <effects>`): the effects of the
    branch taken for the value returned after exhaustion are appended to `exhausted`, those of the branch taken after a stop to
    every stopping path.  Raises Unknown when the returned values are not constants that separate the two situations."""
    p = parent(call)
    neg = False
    if isinstance(p, ast.UnaryOp) and isinstance(p.op, ast.Not):
        neg = True
        p = parent(p)
    if not (isinstance(p, ast.If) and (p.test is call or (neg and isinstance(p.test, ast.UnaryOp) and p.test.operand is call))):
        raise Unknown("the helper's result is neither assigned nor the test of an `if`")
    ex = const_truth(summ.exhaust_value)
    stops = {const_truth(pa.value) for ps in summ.per_class.values() if ps for pa in ps if pa.how == "return"}
    if ex is None or None in stops or ex in stops:
        raise Unknown("the helper's return values do not tell exhaustion from a stop")
    # `if T: <..leaves>` followed by REST is `if T: <..leaves> else: REST`
    orelse = p.orelse
    if not orelse and p.body and isinstance(p.body[-1], (ast.Continue, ast.Break, ast.Return, ast.Raise)):
        from .guards import _block_of
        _o, _f, lst_ = _block_of(p)
        if lst_ is not None:
            k_ = [i for i, x in enumerate(lst_) if x is p][0]
            orelse = lst_[k_ + 1:]
    when_ex = p.body if (ex != neg) else orelse
    when_stop = orelse if (ex != neg) else p.body
    summ.exhausted = tuple(summ.exhausted) + tuple(_straight(when_ex, None, {}))
    stop_eff = tuple(_straight(when_stop, None, {}))
    if stop_eff:
        for k, ps in summ.per_class.items():
            if ps:
                summ.per_class[k] = [Path(tuple(pa.effects) + (stop_eff if pa.how == "return" else ()), pa.how, pa.conds, pa.value) for pa in ps]
    summ.result_is_flag = True
    return p


def locate(func, module, is_symbols, within=None):
    """Find the walk that `func` performs over an expression satisfying is_symbols(text) - in `func` itself or in the one private
    helper it hands such an expression to.  -> dict(loop, host, rename, call, target) ; raises Unknown."""
    from .core import FUNC, walk_local, params
    scope = within if within is not None else func
    nested = {id(x) for m in ast.walk(func) if isinstance(m, FUNC) and m is not func for x in ast.walk(m)}
    direct = [l for l in ast.walk(scope) if isinstance(l, ast.For) and id(l) not in nested and is_symbols(norm(expand_at(l.iter, l)))]
    if len(direct) == 1:
        return {"loop": direct[0], "host": func, "rename": {}, "call": None, "target": None}
    if len(direct) > 1:
        raise Unknown(f"{len(direct)} loops over the symbols")
    cls = getattr(func, "_parent", None)
    while cls is not None and not isinstance(cls, ast.ClassDef):
        cls = getattr(cls, "_parent", None)
    cands = []
    for c in (ast.walk(scope) if within is not None else walk_local(func)):
        if not isinstance(c, ast.Call):
            continue
        f = c.func
        h = None
        if isinstance(f, ast.Attribute) and isinstance(f.value, ast.Name) and (f.value.id in ("self", "cls") or (cls is not None and f.value.id == cls.name)) and cls is not None:
            h = next((m for m in cls.body if isinstance(m, FUNC) and m.name == f.attr), None)
        elif isinstance(f, ast.Name):
            h = next((m for m in ast.walk(func) if isinstance(m, FUNC) and m is not func and m.name == f.id), None) or \
                next((m for m in module.tree.body if isinstance(m, FUNC) and m.name == f.id), None)
        if h is None or h is func or not h.name.startswith("_"):
            continue
        ps = params(h)
        static = any(isinstance(d, ast.Name) and d.id == "staticmethod" for d in h.decorator_list)
        if ps and ps[0] in ("self", "cls") and not static and isinstance(c.func, ast.Attribute):
            ps = ps[1:]
        if any(isinstance(a, ast.Starred) for a in c.args) or any(k.arg is None for k in c.keywords) or len(c.args) > len(ps):
            continue
        bound = dict(zip(ps, c.args))
        for k in c.keywords:
            bound[k.arg] = k.value
        sym_par = [p_ for p_, a in bound.items() if is_symbols(norm(expand_at(a, c)))]
        loops = [l for l in ast.walk(h) if isinstance(l, ast.For) and
                 ((isinstance(l.iter, ast.Name) and l.iter.id in sym_par) or is_symbols(norm(expand_at(l.iter, l))))]
        if loops:
            cands.append((c, h, bound, loops))
    if len(cands) != 1:
        raise Unknown(f"no loop over the symbols here and {len(cands)} helper calls that walk them")
    c, h, bound, loops = cands[0]
    if len(loops) != 1:
        raise Unknown(f"{len(loops)} loops over the symbols in {h.name}")
    rename = {p_: norm(expand_at(a, c)) for p_, a in bound.items() if isinstance(a, (ast.Name, ast.Attribute, ast.Subscript, ast.Constant))}
    rets = [r for r in walk_local(h) if isinstance(r, ast.Return)]
    target = None
    st = c
    while st is not None and not isinstance(st, ast.stmt):
        st = parent(st)
    if isinstance(st, ast.Assign) and st.value is c and len(st.targets) == 1 and isinstance(st.targets[0], ast.Name):
        target = st.targets[0].id
        if rets and all(isinstance(r.value, ast.Name) for r in rets) and len({r.value.id for r in rets}) == 1:
            rename[rets[0].value.id] = target
        else:
            raise Unknown(f"{h.name} does not return one local set on every path")
    return {"loop": loops[0], "host": h, "rename": rename, "call": c, "target": target}


def returned_text(value, summ):
    """text of a returned expression in the caller's vocabulary"""
    return _rn(norm(value), None, summ.rename)
