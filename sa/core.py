"""Program index: parse the repository, parent links, qualified names, class
hierarchy, lookups by qualified name.  Nothing of the repository is imported
or executed; everything is `ast` over the source text."""
import ast
import hashlib
import os
import re


class AnalysisError(Exception):
    """An anchor vanished or an idiom is not recognised: the rule cannot be
    decided (exit 2, never a VIOLATION)."""

    def __init__(self, rule, anchor, detail=""):
        super().__init__(f"rule={rule} anchor={anchor} {detail}")
        self.rule, self.anchor, self.detail = rule, anchor, detail


FUNC = (ast.FunctionDef, ast.AsyncFunctionDef)
SCOPE = FUNC + (ast.ClassDef, ast.Lambda)


def norm(node):
    """Normalised source text of a node (position independent)."""
    if isinstance(node, str):
        return " ".join(node.split())
    try:
        s = ast.unparse(node)
    except Exception:  # pragma: no cover
        s = ast.dump(node)
    return " ".join(s.split())


def short(node, n=110):
    s = norm(node)
    return s if len(s) <= n else s[: n - 3] + "..."


def head(node):
    """Normalised text of the *header* of a compound statement (or of the
    whole simple statement)."""
    if isinstance(node, (ast.If, ast.While)):
        return f"{type(node).__name__.lower()} {norm(node.test)}:"
    if isinstance(node, (ast.For, ast.AsyncFor)):
        return f"for {norm(node.target)} in {norm(node.iter)}:"
    if isinstance(node, ast.With):
        return "with " + ", ".join(norm(i) for i in node.items) + ":"
    if isinstance(node, FUNC):
        return f"def {node.name}(...)"
    if isinstance(node, ast.ClassDef):
        return f"class {node.name}"
    if isinstance(node, ast.Try):
        return "try:"
    s = norm(node)
    return s if len(s) <= 160 else s[:157] + "..."


class Module:
    def __init__(self, root, rel):
        self.rel = rel
        self.path = os.path.join(root, rel)
        with open(self.path, encoding="utf-8") as f:
            self.src = f.read()
        self.tree = ast.parse(self.src, filename=self.path)
        # local variable names are brought to the spelling of the reference copy (see sa/alpha.py): a valid alpha-renaming,
        # so the rules - many of which name locals - decide the same thing whatever the locals are called
        from . import alpha
        self.alpha = alpha.normalise_module(self.tree, rel, root)
        self.tree._parent = None
        self.tree._mod = self
        for n in ast.walk(self.tree):
            for c in ast.iter_child_nodes(n):
                c._parent = n
                c._mod = self
        self.defs = {}  # qualname -> node (functions and classes)
        self._index(self.tree, "")
        # module-level simple assignments  name -> value node (last one wins)
        self.globals = {}
        for st in self.tree.body:
            if isinstance(st, ast.Assign):
                for t in st.targets:
                    if isinstance(t, ast.Name):
                        self.globals[t.id] = st.value
            elif isinstance(st, ast.AnnAssign) and isinstance(st.target, ast.Name) and st.value is not None:
                self.globals[st.target.id] = st.value
        # imports: local name -> (module, name)
        self.imports = {}
        for st in ast.walk(self.tree):
            if isinstance(st, ast.ImportFrom):
                for a in st.names:
                    self.imports[a.asname or a.name] = (st.module, a.name)
            elif isinstance(st, ast.Import):
                for a in st.names:
                    self.imports[a.asname or a.name.split(".")[0]] = (a.name, None)

    def _index(self, node, prefix):
        for c in ast.iter_child_nodes(node):
            if isinstance(c, FUNC + (ast.ClassDef,)):
                q = prefix + c.name
                # keep the first definition under the plain name; later
                # re-definitions (e.g. property setters) get a suffix
                k, i = q, 1
                while k in self.defs:
                    i += 1
                    k = f"{q}#{i}"
                self.defs[k] = c
                c._qual = k
                self._index(c, q + ".")
            elif not isinstance(c, ast.Lambda):
                self._index(c, prefix)


class Repo:
    """All python sources of the repository under analysis."""

    def __init__(self, root, with_tests=False):
        self.root = root
        self.modules = {}
        dirs = ["ak", "bin"] + (["tests"] if with_tests else [])
        for d in dirs:
            p = os.path.join(root, d)
            if not os.path.isdir(p):
                continue
            for fn in sorted(os.listdir(p)):
                if fn.endswith(".py"):
                    rel = f"{d}/{fn}"
                    self.modules[rel] = Module(root, rel)
        if "ak/__init__.py" not in self.modules:
            raise AnalysisError("index", "ak/__init__.py", f"no package under {root}")
        self.classes = {}  # class simple name -> list of (module, node)
        for m in self.modules.values():
            for q, n in m.defs.items():
                if isinstance(n, ast.ClassDef):
                    self.classes.setdefault(n.name, []).append((m, n))

    # ---- lookups -------------------------------------------------------
    def mod(self, rel, rule="index"):
        if rel not in self.modules:
            raise AnalysisError(rule, rel, "module not found")
        return self.modules[rel]

    def get(self, rel, qual, rule="index", kinds=FUNC + (ast.ClassDef,)):
        m = self.mod(rel, rule)
        n = m.defs.get(qual)
        if n is None or not isinstance(n, kinds):
            raise AnalysisError(rule, f"{rel}::{qual}", "anchor not found")
        return n

    def func(self, rel, qual, rule="index"):
        return self.get(rel, qual, rule, FUNC)

    def cls(self, rel, qual, rule="index"):
        return self.get(rel, qual, rule, (ast.ClassDef,))

    def has(self, rel, qual):
        return rel in self.modules and qual in self.modules[rel].defs

    def functions(self, rels=None):
        for rel, m in self.modules.items():
            if rels is not None and rel not in rels:
                continue
            for q, n in m.defs.items():
                if isinstance(n, FUNC):
                    yield m, q, n

    def all_classes(self, rels=None):
        for rel, m in self.modules.items():
            if rels is not None and rel not in rels:
                continue
            for q, n in m.defs.items():
                if isinstance(n, ast.ClassDef):
                    yield m, q, n

    # ---- class hierarchy (by simple base names inside the package) ------
    def bases(self, cnode):
        out = []
        for b in cnode.bases:
            name = b.id if isinstance(b, ast.Name) else (b.attr if isinstance(b, ast.Attribute) else None)
            if name and name in self.classes:
                out.append(self.classes[name][0][1])
        return out

    def mro(self, cnode):
        seen, out, work = set(), [], [cnode]
        while work:
            c = work.pop(0)
            if id(c) in seen:
                continue
            seen.add(id(c))
            out.append(c)
            work.extend(self.bases(c))
        return out

    def subclasses(self, cnode):
        out = []
        for lst in self.classes.values():
            for m, c in lst:
                if c is not cnode and cnode in self.mro(c):
                    out.append(c)
        return out

    def method(self, cnode, name):
        """Resolve a method through the package MRO."""
        for c in self.mro(cnode):
            for st in c.body:
                if isinstance(st, FUNC) and st.name == name:
                    return st
        return None

    def digest(self, rels):
        h = hashlib.sha256()
        for r in sorted(rels):
            if r in self.modules:
                h.update(r.encode())
                h.update(self.modules[r].src.encode())
        return h.hexdigest()[:16]


# ---- navigation helpers ---------------------------------------------------
def parent(n):
    return getattr(n, "_parent", None)


def ancestors(n):
    n = parent(n)
    while n is not None:
        yield n
        n = parent(n)


def enclosing(n, kinds):
    for a in ancestors(n):
        if isinstance(a, kinds):
            return a
    return None


def enclosing_func(n):
    return enclosing(n, FUNC)


def enclosing_stmt(n):
    while n is not None and not isinstance(n, ast.stmt):
        n = parent(n)
    return n


def qual(n):
    """file::Qualified.name of the innermost def/class containing n (or n)."""
    cur = n
    while cur is not None and not hasattr(cur, "_qual"):
        cur = parent(cur)
    mod = _mod_of(n)
    rel = mod.rel if mod else "?"
    return f"{rel}::{cur._qual}" if cur is not None else f"{rel}::<module>"


def _mod_of(n):
    """the module of a node; nodes created by an analysis copy (helper expansion, respelling) take it from their ancestors"""
    cur, k = n, 0
    while cur is not None and k < 200:
        m = getattr(cur, "_mod", None)
        if m is not None:
            return m
        cur = getattr(cur, "_parent", None)
        k += 1
    return None


def where(n):
    mod = _mod_of(n)
    return f"{mod.rel if mod else '?'}:{getattr(n, 'lineno', 0)}"


def walk_local(node, skip_nested=True):
    """ast.walk that does not descend into nested function / class bodies
    (lambdas and comprehensions are descended)."""
    todo = list(ast.iter_child_nodes(node))
    while todo:
        n = todo.pop()
        yield n
        if skip_nested and isinstance(n, FUNC + (ast.ClassDef,)):
            continue
        todo.extend(ast.iter_child_nodes(n))


def names_in(node):
    return {x.id for x in ast.walk(node) if isinstance(x, ast.Name)}


def is_name(n, *ids):
    return isinstance(n, ast.Name) and (not ids or n.id in ids)


def is_attr(n, attr=None, base=None):
    """n is  <base>.<attr>  (base: Name id or None for any)."""
    if not isinstance(n, ast.Attribute):
        return False
    if attr is not None and n.attr != attr and not (isinstance(attr, (set, tuple, list, frozenset)) and n.attr in attr):
        return False
    if base is not None:
        return isinstance(n.value, ast.Name) and n.value.id == base
    return True


def is_self_attr(n, attr=None):
    return is_attr(n, attr, "self")


def call_name(c):
    """Simple name of the callee of a Call: f(...) -> 'f', x.m(...) -> 'm'."""
    if not isinstance(c, ast.Call):
        return None
    f = c.func
    if isinstance(f, ast.Name):
        return f.id
    if isinstance(f, ast.Attribute):
        return f.attr
    return None


def dotted(n):
    """a.b.c -> 'a.b.c' ; anything else -> None"""
    parts = []
    while isinstance(n, ast.Attribute):
        parts.append(n.attr)
        n = n.value
    if isinstance(n, ast.Name):
        parts.append(n.id)
        return ".".join(reversed(parts))
    return None


def const(n, *types):
    if isinstance(n, ast.Constant) and (not types or isinstance(n.value, types)):
        return True
    return False


def calls_in(node, name=None, local=True):
    it = walk_local(node) if local else ast.walk(node)
    for n in it:
        if isinstance(n, ast.Call) and (name is None or call_name(n) == name or (isinstance(name, (set, tuple, frozenset)) and call_name(n) in name)):
            yield n


def assigned_names(node):
    """Names bound anywhere inside node (assign, augassign, for targets, with, walrus)."""
    out = set()
    for n in ast.walk(node):
        if isinstance(n, ast.Name) and isinstance(n.ctx, (ast.Store, ast.Del)):
            out.add(n.id)
    return out


def assignments(func, name):
    """All value expressions assigned to local `name` in func (plain Assign /
    AnnAssign only); returns list of (stmt, value).  Augmented assignments and
    other bindings are returned with value None."""
    out = []
    for n in walk_local(func):
        if isinstance(n, ast.Assign):
            for t in n.targets:
                if is_name(t, name):
                    out.append((n, n.value))
                elif isinstance(t, (ast.Tuple, ast.List)) and any(is_name(e, name) for e in ast.walk(t)):
                    out.append((n, None))
        elif isinstance(n, ast.AnnAssign) and is_name(n.target, name) and n.value is not None:
            out.append((n, n.value))
        elif isinstance(n, ast.AugAssign) and is_name(n.target, name):
            out.append((n, None))
        elif isinstance(n, (ast.For, ast.AsyncFor)) and any(is_name(e, name) for e in ast.walk(n.target)):
            out.append((n, None))
        elif isinstance(n, ast.NamedExpr) and is_name(n.target, name):
            out.append((n, n.value))
        elif isinstance(n, ast.With):
            for it in n.items:
                if it.optional_vars is not None and any(is_name(e, name) for e in ast.walk(it.optional_vars)):
                    out.append((n, None))
        elif isinstance(n, ast.comprehension) and any(is_name(e, name) for e in ast.walk(n.target)):
            out.append((n, None))
    return out


def params(func):
    a = func.args
    return [x.arg for x in a.posonlyargs + a.args + a.kwonlyargs] + ([a.vararg.arg] if a.vararg else []) + ([a.kwarg.arg] if a.kwarg else [])


def literal(node, mod=None, depth=0):
    """Constant-fold a *literal* expression (tables of constants).  Raises
    ValueError when the expression is not a literal."""
    if depth > 6:
        raise ValueError("too deep")
    if isinstance(node, ast.Constant):
        return node.value
    if isinstance(node, (ast.Tuple, ast.List, ast.Set)):
        vals = [literal(e, mod, depth + 1) for e in node.elts]
        return tuple(vals) if isinstance(node, ast.Tuple) else (list(vals) if isinstance(node, ast.List) else set(vals))
    if isinstance(node, ast.Dict):
        out = {}
        for k, v in zip(node.keys, node.values):
            if k is None:
                out.update(literal(v, mod, depth + 1))
            else:
                out[literal(k, mod, depth + 1)] = literal(v, mod, depth + 1)
        return out
    if isinstance(node, ast.UnaryOp) and isinstance(node.op, ast.USub):
        return -literal(node.operand, mod, depth + 1)
    if isinstance(node, ast.BinOp) and isinstance(node.op, (ast.Add, ast.Mult, ast.Sub, ast.Pow)):
        a, b = literal(node.left, mod, depth + 1), literal(node.right, mod, depth + 1)
        if isinstance(node.op, ast.Add):
            return a + b
        if isinstance(node.op, ast.Sub):
            return a - b
        if isinstance(node.op, ast.Pow):
            if isinstance(b, int) and abs(b) > 4096:
                raise ValueError("pow too large")
            return a ** b
        if isinstance(a, (str, list, tuple)) and isinstance(b, int) and b > 10000:
            raise ValueError("repeat too large")
        return a * b
    if isinstance(node, ast.BinOp) and isinstance(node.op, ast.Mod):
        a, b = literal(node.left, mod, depth + 1), literal(node.right, mod, depth + 1)
        if isinstance(a, str) and isinstance(b, (str, int, tuple)) and all(isinstance(x, (str, int)) and not isinstance(x, bool) for x in (b if isinstance(b, tuple) else (b,))):
            try:
                return a % b            # constant text formatted with constant str / int operands
            except (TypeError, ValueError) as e:
                raise ValueError(f"bad format: {e}")
        if isinstance(a, int) and isinstance(b, int) and b:
            return a % b
        raise ValueError("% on non-constants")
    if isinstance(node, ast.JoinedStr):
        out = ""
        for v in node.values:
            if isinstance(v, ast.Constant):
                out += v.value
            elif isinstance(v, ast.FormattedValue) and v.conversion == -1 and v.format_spec is None:
                x = literal(v.value, mod, depth + 1)
                if not isinstance(x, (str, int)) or isinstance(x, bool):
                    raise ValueError("f-string hole")
                out += str(x)
            else:
                raise ValueError("f-string hole")
        return out
    if isinstance(node, ast.Call) and isinstance(node.func, ast.Attribute) and node.func.attr == "join" and len(node.args) == 1 and not node.keywords:
        sep, items = literal(node.func.value, mod, depth + 1), literal(node.args[0], mod, depth + 1)
        if isinstance(sep, str) and isinstance(items, (list, tuple, str)) and all(isinstance(x, str) for x in items):
            return sep.join(items)
        raise ValueError("join of non-strings")
    if isinstance(node, ast.Call) and isinstance(node.func, ast.Name) and node.func.id == "len" and len(node.args) == 1 and not node.keywords:
        v = literal(node.args[0], mod, depth + 1)
        if isinstance(v, (str, list, tuple, set, dict)):
            return len(v)
        raise ValueError("len of a non-container")
    if isinstance(node, ast.Name) and mod is not None and node.id in mod.globals:
        return literal(mod.globals[node.id], mod, depth + 1)
    if isinstance(node, ast.Call) and isinstance(node.func, ast.Name) and node.func.id in ("list", "tuple", "set", "frozenset", "sorted") and len(node.args) == 1 and not node.keywords:
        v = literal(node.args[0], mod, depth + 1)
        return {"list": list, "tuple": tuple, "set": set, "frozenset": frozenset, "sorted": sorted}[node.func.id](v)
    raise ValueError(f"not a literal: {short(node, 60)}")


def seq_tokens(e):
    """A concatenation of sequences as a token list, whatever the spelling: `tuple(list(a) + [x])`, `a + (x,)`, `[*a, x]` all read
    ['*a', 'x'] (a name stands for all its elements).  None when `e` is not such a concatenation."""
    if isinstance(e, ast.Call) and isinstance(e.func, ast.Name) and e.func.id in ("tuple", "list") and len(e.args) == 1 and not e.keywords:
        return seq_tokens(e.args[0])
    if isinstance(e, ast.BinOp) and isinstance(e.op, ast.Add):
        a_, b_ = seq_tokens(e.left), seq_tokens(e.right)
        return None if a_ is None or b_ is None else a_ + b_
    if isinstance(e, (ast.Tuple, ast.List)):
        out_ = []
        for x_ in e.elts:
            if isinstance(x_, ast.Starred):
                t_ = seq_tokens(x_.value)
                if t_ is None:
                    return None
                out_ += t_
            else:
                out_.append(norm(x_))
        return out_
    if isinstance(e, ast.Name):
        return ["*" + e.id]
    return None


def class_attr(cnode, name):
    """Value node of a class-level assignment  name = <value>  (or None)."""
    for st in cnode.body:
        if isinstance(st, ast.Assign):
            for t in st.targets:
                if is_name(t, name):
                    return st.value
        elif isinstance(st, ast.AnnAssign) and is_name(st.target, name):
            return st.value
    return None


CACHING_DECORATORS = ("lru_cache", "cache", "cached_property", "memoize", "memoized", "cached", "functools.lru_cache", "functools.cache", "functools.cached_property")


def caching_decorators(func):
    """Decorators of func that memoise its results (by equality of arguments)."""
    out = []
    for d in getattr(func, "decorator_list", []):
        t = d.func if isinstance(d, ast.Call) else d
        nm = dotted(t)
        if nm and (nm in CACHING_DECORATORS or nm.split(".")[-1] in CACHING_DECORATORS):
            out.append(d)
    return out


_PURITY_MUTATORS = {"append", "extend", "insert", "pop", "remove", "clear", "update", "add", "discard", "setdefault", "popitem", "sort", "reverse",
                    "appendleft", "popleft"}


def param_mutations(func, p):
    """In-place changes of the object passed as parameter `p`, through the parameter or a name that may alias it.
    Path-sensitive on the statement CFG: a change through name X counts only if a binding of X to the parameter object
    (the parameter itself at entry, or `X = <alias>`) reaches the change without X being re-bound on the way.
    -> [(node, alias name, description)].  Re-binding a name is not a change."""
    from .cfg import CFG
    g = CFG(func)
    aliases = {p}
    alias_assigns = {}      # name -> [Assign statements `name = <alias>`]
    grew = True
    while grew:
        grew = False
        for n in walk_local(func):
            if isinstance(n, ast.Assign) and isinstance(n.value, ast.Name) and n.value.id in aliases:
                for t in n.targets:
                    if isinstance(t, ast.Name):
                        if n not in alias_assigns.setdefault(t.id, []):
                            alias_assigns[t.id].append(n)
                        if t.id not in aliases:
                            aliases.add(t.id)
                            grew = True

    def rebinds(name):
        out = set()
        for n in walk_local(func):
            tg = []
            if isinstance(n, ast.Assign):
                tg = [x for t in n.targets for x in ast.walk(t)]
            elif isinstance(n, (ast.AugAssign, ast.AnnAssign)):
                tg = [n.target] if not isinstance(n, ast.AugAssign) else []
            elif isinstance(n, (ast.For, ast.With)):
                tg = list(ast.walk(n.target)) if isinstance(n, ast.For) else [x for it_ in n.items if it_.optional_vars is not None for x in ast.walk(it_.optional_vars)]
            if any(isinstance(x, ast.Name) and x.id == name and isinstance(x.ctx, ast.Store) for x in tg):
                nd = g.node_of(n)
                if nd is not None:
                    out.add(nd.id)
        return out

    def reaches(name, site):
        sn = g.node_of(enclosing_stmt(site))
        if sn is None:
            return True
        rb = rebinds(name)
        starts = []
        if name == p:
            starts.append((g.entry, rb))
        for a in alias_assigns.get(name, []):
            an = g.node_of(a)
            if an is not None:
                if an.id == sn.id:
                    return True
                starts.append((an, rb - {an.id}))
        for start, avoid in starts:
            if sn.id in avoid:
                avoid = avoid - {sn.id}
            if g.reach_avoiding(start, {sn.id}, avoid) is not None:
                return True
        return False
    out = []
    for x in walk_local(func):
        hit = None
        if isinstance(x, ast.Subscript) and isinstance(x.ctx, (ast.Store, ast.Del)) and isinstance(x.value, ast.Name) and x.value.id in aliases:
            hit = (x.value.id, f"`{norm(enclosing_stmt(x))[:60]}` assigns / deletes items of `{x.value.id}`")
        elif isinstance(x, ast.AugAssign) and isinstance(x.target, ast.Name) and x.target.id in aliases:
            hit = (x.target.id, f"`{norm(x)[:60]}` extends `{x.target.id}` in place")
        elif isinstance(x, ast.Call) and isinstance(x.func, ast.Attribute) and x.func.attr in _PURITY_MUTATORS and isinstance(x.func.value, ast.Name) and x.func.value.id in aliases:
            hit = (x.func.value.id, f"`{norm(x)[:60]}` mutates `{x.func.value.id}`")
        if hit and reaches(hit[0], x):
            out.append((x, hit[0], hit[1]))
    return out


def clone(n):
    """Copy of an AST subtree that does not follow the `_parent` links (copy.deepcopy would drag the whole module along)."""
    if isinstance(n, ast.AST):
        new = n.__class__()
        for f in n._fields:
            if hasattr(n, f):
                setattr(new, f, clone(getattr(n, f)))
        for a in ("lineno", "col_offset", "end_lineno", "end_col_offset", "_mod", "_qual"):
            if hasattr(n, a):
                setattr(new, a, getattr(n, a))
        return new
    if isinstance(n, list):
        return [clone(x) for x in n]
    return n
