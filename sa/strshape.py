"""String-shape analysis: abstract a string-valued expression of the repository
to a regular language (regex AST of sa.automata).

Flow-insensitive over a function's local assignments (union of all values a
name can get), sensitive to must-facts for integers (`isinstance(x, int)` and
a dominating `x < 0` rejection give \\d+), inter-procedural through methods of
the same class / module-level functions (union of return shapes, depth-bound).
Anything not understood becomes ANY (Sigma*), which makes inclusion checks
fail closed.
"""
import ast

from . import automata as A
from .core import (FUNC, assignments, call_name, class_attr, const, dotted, enclosing, enclosing_func, is_name, literal,
                   norm, params, parent, walk_local, is_attr)
from .guards import facts, int_bounds


class Shaper:
    def __init__(self, repo, max_depth=4):
        self.repo = repo
        self.max_depth = max_depth
        self.unknown = []   # (node, reason) that were widened to ANY
        self.stack = []

    # -------------------------------------------------------------- entry points
    def returns(self, func, index=None, depth=0):
        """Union of the shapes of the values returned by func (component `index`
        of a returned tuple when given)."""
        outs = []
        for n in walk_local(func):
            if isinstance(n, ast.Return) and n.value is not None:
                v = n.value
                if index is not None:
                    if isinstance(v, ast.Tuple) and len(v.elts) > index:
                        v = v.elts[index]
                    else:
                        self.unknown.append((n, "return is not a tuple"))
                        outs.append(A.ANY)
                        continue
                outs.append(self.shape(v, func, depth))
        return A.alt(*outs) if outs else A.ANY

    def shape(self, e, func, depth=0):
        """Regular shape of expression e evaluated inside func."""
        if depth > self.max_depth:
            self.unknown.append((e, "depth"))
            return A.ANY
        if isinstance(e, ast.Constant):
            if isinstance(e.value, str):
                return A.lit(e.value)
            if isinstance(e.value, bytes):
                return A.lit(e.value.decode("latin-1"))
            if isinstance(e.value, bool) or e.value is None:
                return A.lit(str(e.value))
            if isinstance(e.value, int):
                return A.lit(str(e.value))
            return A.ANY
        if isinstance(e, ast.JoinedStr):
            parts = []
            for v in e.values:
                if isinstance(v, ast.Constant):
                    parts.append(A.lit(v.value))
                else:
                    parts.append(self._formatted(v, func, depth))
            return A.cat(*parts)
        ar = self.arith(e, func, depth)
        if ar is not None:
            return ar
        if isinstance(e, ast.BinOp) and isinstance(e.op, ast.Add):
            return A.cat(self.shape(e.left, func, depth), self.shape(e.right, func, depth))
        if isinstance(e, ast.BinOp) and isinstance(e.op, ast.Mult):
            # "x" * n  -> (x)*
            l, r = e.left, e.right
            if isinstance(r, ast.Constant) and isinstance(r.value, str):
                l, r = r, l
            return A.star(self.shape(l, func, depth))
        if isinstance(e, ast.IfExp):
            return A.alt(self.shape(e.body, func, depth), self.shape(e.orelse, func, depth))
        if isinstance(e, ast.Name):
            return self._name(e, func, depth)
        if isinstance(e, ast.Subscript):
            return self._subscript(e, func, depth)
        if isinstance(e, ast.Call):
            return self._call(e, func, depth)
        if isinstance(e, ast.Attribute):
            # class-level constant  Cls.NAME / cls.NAME / self.NAME
            v = self._class_const(e, func)
            if v is not None:
                return self.shape(v, func, depth + 1)
        self.unknown.append((e, "expression form"))
        return A.ANY

    # -------------------------------------------------------------- pieces
    def arith(self, e, func, depth):
        """Shape of str(e) for integer arithmetic: int constants, int(..) / len(..) calls, names whose shape is a set of integer
        numerals, combined with + - * // % and unary minus.  None when e is not of that form (so that `+` / `*` on strings keep
        their string meaning).  Only the sign is tracked (NAT / INT): ranges are the business of the rules that need them."""
        def go(x):
            if isinstance(x, ast.Constant):
                if isinstance(x.value, int) and not isinstance(x.value, bool):
                    return "nat" if x.value >= 0 else "int"
                return None
            if isinstance(x, ast.UnaryOp) and isinstance(x.op, (ast.USub, ast.UAdd)):
                r = go(x.operand)
                return None if r is None else ("int" if isinstance(x.op, ast.USub) else r)
            if isinstance(x, ast.BinOp) and isinstance(x.op, (ast.Add, ast.Sub, ast.Mult, ast.FloorDiv, ast.Mod)):
                l, r = go(x.left), go(x.right)
                if l is None or r is None:
                    return None
                return "nat" if l == r == "nat" and isinstance(x.op, (ast.Add, ast.Mult)) else "int"
            if isinstance(x, ast.Call) and isinstance(x.func, ast.Name) and x.func.id in ("int", "len") and not x.keywords and len(x.args) == 1:
                return "nat" if x.func.id == "len" else "int"
            if isinstance(x, ast.Name):
                key = (id(func), x.id)
                if key in self.stack:
                    return None
                n0 = len(self.unknown)
                sh = self._name(x, func, depth + 1)
                if len(self.unknown) > n0:
                    del self.unknown[n0:]
                    return None
                if A.find_in_a_not_b(sh, A.NAT)[0] is None:
                    return "nat"
                if A.find_in_a_not_b(sh, A.INT)[0] is None:
                    lo, _hi = int_bounds(facts(x), x.id)       # a guard on the way here may exclude the negative values
                    return "nat" if lo is not None and lo >= 0 else "int"
                return None
            return None
        if not isinstance(e, (ast.BinOp, ast.UnaryOp, ast.Call)):
            return None
        if isinstance(e, ast.Call) and not (isinstance(e.func, ast.Name) and e.func.id == "int"):
            return None
        r = go(e)
        return None if r is None else (A.NAT if r == "nat" else A.INT)

    def int_shape(self, e, func):
        """Shape of str(e) when e is known to be an int by must-facts."""
        if isinstance(e, ast.Constant) and isinstance(e.value, int) and not isinstance(e.value, bool):
            return A.lit(str(e.value))
        if not isinstance(e, ast.Name):
            return None
        fs = facts(e)
        is_int = any(isinstance(t, ast.Call) and call_name(t) == "isinstance" and pol and len(t.args) == 2 and is_name(t.args[0], e.id)
                     and is_name(t.args[1], "int") for t, pol in fs)
        if not is_int:
            return None
        lo, _hi = int_bounds(fs, e.id)       # either operand order, either polarity, chained comparisons
        return A.NAT if lo is not None and lo >= 0 else A.INT

    def _formatted(self, v, func, depth):
        if not isinstance(v, ast.FormattedValue):
            return A.ANY
        if v.conversion not in (-1, 115):   # !r / !a change the text
            self.unknown.append((v, "conversion"))
            return A.ANY
        spec = None
        if v.format_spec is not None:
            try:
                spec = literal(v.format_spec)
            except ValueError:
                self.unknown.append((v, "dynamic format spec"))
                return A.ANY
        i = self.int_shape(v.value, func)
        if i is not None:
            if spec in (None, "", "d"):
                return i
            if spec and spec.lstrip("0").isdigit() or (spec and spec[0] == "0" and spec[1:].isdigit()):
                return i   # zero padding / min width with digits only adds digits or blanks
            self.unknown.append((v, f"format spec {spec!r}"))
            return A.ANY
        if spec not in (None, ""):
            s = self.shape(v.value, func, depth)
            self.unknown.append((v, f"format spec {spec!r} on a non-int"))
            return A.ANY
        return self.shape(v.value, func, depth)

    def _name(self, e, func, depth):
        key = (id(func), e.id)
        if key in self.stack:
            return A.ANY
        defs = assignments(func, e.id) if func is not None else []
        if e.id in (params(func) if func is not None else []):
            i = self.int_shape(e, func)
            if i is not None and not defs:
                return i
            if not defs:
                self.unknown.append((e, "parameter"))
                return A.ANY
            i = self.int_shape(e, func)
            if i is not None:
                return i
            self.unknown.append((e, "parameter (re-assigned)"))
            return A.ANY
        if not defs:
            mod = getattr(e, "_mod", None)
            if mod is not None and e.id in mod.globals:
                return self.shape(mod.globals[e.id], None, depth + 1)
            self.unknown.append((e, "unbound name"))
            return A.ANY
        i = self.int_shape(e, func)
        if i is not None:
            return i
        self.stack.append(key)
        try:
            outs = []
            for st, v in defs:
                if v is None:
                    # loop variable over a list variable / comprehension variable
                    el = self._element_of_binding(st, e.id, func, depth)
                    outs.append(el)
                elif isinstance(v, ast.Call) and isinstance(v.func, ast.Attribute) and v.func.attr in ("encode", "decode") and is_name(v.func.value, e.id):
                    continue   # x = x.encode(): same characters
                else:
                    outs.append(self.shape(v, func, depth))
            return A.alt(*outs) if outs else A.ANY
        finally:
            self.stack.pop()

    def _element_of_binding(self, st, name, func, depth):
        it = None
        if isinstance(st, (ast.For, ast.comprehension)):
            if is_name(st.target, name):
                it = st.iter
            elif isinstance(st.target, ast.Tuple) and any(is_name(x, name) for x in st.target.elts):
                # `for a, b in ((x1, y1), (x2, y2), ..)`: position-wise over a literal table (possibly bound to a name once)
                k = next(i for i, x in enumerate(st.target.elts) if is_name(x, name))
                tbl = st.iter
                if isinstance(tbl, ast.Name):
                    ds = [v for _, v in assignments(func, tbl.id) if v is not None]
                    tbl = ds[0] if len(ds) == 1 and len(assignments(func, tbl.id)) == 1 else None
                if isinstance(tbl, (ast.Tuple, ast.List)) and tbl.elts and all(isinstance(r, (ast.Tuple, ast.List)) and len(r.elts) == len(st.target.elts) for r in tbl.elts):
                    return A.alt(*[self.shape(r.elts[k], func, depth) for r in tbl.elts])
        if it is None and isinstance(st, ast.Assign) and len(st.targets) == 1 and isinstance(st.targets[0], ast.Tuple) and any(is_name(x, name) for x in st.targets[0].elts):
            # a, b = (x, y)  /  a, b = (x1, y1) if c else (x2, y2)  : position-wise
            k = next(i for i, x in enumerate(st.targets[0].elts) if is_name(x, name))
            arms = [st.value.body, st.value.orelse] if isinstance(st.value, ast.IfExp) else [st.value]
            if all(isinstance(a, (ast.Tuple, ast.List)) and len(a.elts) == len(st.targets[0].elts) and not any(isinstance(x, ast.Starred) for x in a.elts) for a in arms):
                return A.alt(*[self.shape(a.elts[k], func, depth) for a in arms])
            # a, b, c = seq  where a must-fact says all(isinstance(x, int) [and 0 <= x ..] for x in seq): ints
            if isinstance(st.value, ast.Name):
                for t, pol in facts(st):
                    if pol and isinstance(t, ast.Call) and call_name(t) == "all" and len(t.args) == 1 and isinstance(t.args[0], ast.GeneratorExp) \
                            and len(t.args[0].generators) == 1 and is_name(t.args[0].generators[0].iter, st.value.id) and isinstance(t.args[0].generators[0].target, ast.Name) \
                            and not t.args[0].generators[0].ifs:
                        v_ = t.args[0].generators[0].target.id
                        conj = t.args[0].elt.values if isinstance(t.args[0].elt, ast.BoolOp) and isinstance(t.args[0].elt.op, ast.And) else [t.args[0].elt]
                        if any(isinstance(c, ast.Call) and call_name(c) == "isinstance" and len(c.args) == 2 and is_name(c.args[0], v_) and is_name(c.args[1], "int") for c in conj):
                            nonneg = any(isinstance(c, ast.Compare) and const(c.left, int) and c.left.value >= 0 and isinstance(c.ops[0], (ast.LtE, ast.Lt)) and is_name(c.comparators[0], v_) for c in conj)
                            return A.NAT if nonneg else A.INT
        if it is None:
            self.unknown.append((st, f"binding of {name}"))
            return A.ANY
        return self.element_shape(it, func, depth)

    def element_shape(self, it, func, depth):
        """Shape of the elements of a list-valued expression."""
        if isinstance(it, (ast.List, ast.Tuple, ast.Set)):
            return A.alt(*[self.shape(x, func, depth) for x in it.elts]) if it.elts else A.charset([])
        if isinstance(it, (ast.ListComp, ast.GeneratorExp, ast.SetComp)):
            return self.shape(it.elt, func, depth)
        if isinstance(it, ast.Name):
            outs = []
            for st, v in assignments(func, it.id):
                if v is None:
                    self.unknown.append((st, "list binding"))
                    return A.ANY
                outs.append(self.element_shape(v, func, depth))
            for n in walk_local(func):
                if isinstance(n, ast.Call) and isinstance(n.func, ast.Attribute) and is_name(n.func.value, it.id):
                    if n.func.attr == "append" and n.args:
                        outs.append(self.shape(n.args[0], func, depth))
                    elif n.func.attr == "extend" and n.args:
                        outs.append(self.element_shape(n.args[0], func, depth))
                    elif n.func.attr == "insert" and len(n.args) == 2:
                        outs.append(self.shape(n.args[1], func, depth))
                    elif n.func.attr in ("pop", "remove", "clear", "sort", "reverse", "copy", "index", "count"):
                        pass
                    else:
                        self.unknown.append((n, "list method"))
                        return A.ANY
                if isinstance(n, ast.AugAssign) and is_name(n.target, it.id):
                    outs.append(self.element_shape(n.value, func, depth))
            return A.alt(*outs) if outs else A.charset([])
        if isinstance(it, ast.Call) and call_name(it) in ("list", "tuple", "sorted", "reversed", "iter", "set") and len(it.args) == 1:
            return self.element_shape(it.args[0], func, depth)
        if isinstance(it, ast.BinOp) and isinstance(it.op, ast.Add):
            return A.alt(self.element_shape(it.left, func, depth), self.element_shape(it.right, func, depth))
        self.unknown.append((it, "iterable form"))
        return A.ANY

    def _class_const(self, e, func):
        """Value node of  X.NAME  where X is cls / self / a class name."""
        if not isinstance(e, ast.Attribute) or not isinstance(e.value, ast.Name):
            return None
        owner = None
        if e.value.id in ("cls", "self"):
            owner = enclosing(e, (ast.ClassDef,))
        elif e.value.id in self.repo.classes:
            owner = self.repo.classes[e.value.id][0][1]
        if owner is None:
            return None
        for c in self.repo.mro(owner):
            v = class_attr(c, e.attr)
            if v is not None:
                return v
        return None

    def _subscript(self, e, func, depth):
        # TABLE[key]  where TABLE is a literal dict (module or class level): union of the values
        tbl = None
        if isinstance(e.value, ast.Attribute):
            tbl = self._class_const(e.value, func)
        elif isinstance(e.value, ast.Name):
            mod = getattr(e, "_mod", None)
            if not assignments(func, e.value.id) and mod is not None and e.value.id in mod.globals:
                tbl = mod.globals[e.value.id]
        if isinstance(tbl, ast.Dict):
            return A.alt(*[self.shape(v, None, depth + 1) for v in tbl.values])
        self.unknown.append((e, "subscript"))
        return A.ANY

    def resolve_callee(self, c):
        f = c.func
        if isinstance(f, ast.Attribute) and isinstance(f.value, ast.Name):
            if f.value.id in ("self", "cls"):
                owner = enclosing(c, (ast.ClassDef,))
                if owner is not None:
                    return self.repo.method(owner, f.attr)
            if f.value.id in self.repo.classes:
                return self.repo.method(self.repo.classes[f.value.id][0][1], f.attr)
        if isinstance(f, ast.Name):
            mod = getattr(c, "_mod", None)
            if mod is not None and f.id in mod.defs and isinstance(mod.defs[f.id], FUNC):
                return mod.defs[f.id]
        return None

    def _call(self, e, func, depth):
        name = call_name(e)
        f = e.func
        # sep.join(xs)
        if isinstance(f, ast.Attribute) and f.attr == "join" and len(e.args) == 1:
            sep = self.shape(f.value, func, depth)
            el = self.element_shape(e.args[0], func, depth)
            body = A.cat(el, A.star(A.cat(sep, el)))
            # non-empty when the iterated list is known to be truthy here
            src = e.args[0]
            if isinstance(src, (ast.GeneratorExp, ast.ListComp)) and len(src.generators) == 1 and not src.generators[0].ifs:
                src = src.generators[0].iter
            if isinstance(src, ast.Name) and any(is_name(t, src.id) and pol for t, pol in facts(e)):
                return body
            return A.opt(body)
        if isinstance(f, ast.Attribute) and f.attr in ("encode", "decode") and not e.args:
            return self.shape(f.value, func, depth)
        if isinstance(f, ast.Attribute) and f.attr == "format" and isinstance(f.value, ast.Constant) and isinstance(f.value.value, str):
            return self._format_call(e, func, depth)
        if name == "str" and len(e.args) == 1:
            i = self.int_shape(e.args[0], func)
            if i is not None:
                return i
            return self.shape(e.args[0], func, depth) if isinstance(e.args[0], (ast.Constant, ast.JoinedStr)) else self._any(e, "str() of a non-int")
        callee = self.resolve_callee(e)
        if callee is not None:
            key = (id(callee), "<ret>")
            if key in self.stack:
                return A.ANY
            self.stack.append(key)
            try:
                return self.returns(callee, None, depth + 1)
            finally:
                self.stack.pop()
        return self._any(e, "unresolved call")

    def _any(self, e, why):
        self.unknown.append((e, why))
        return A.ANY

    def _format_call(self, e, func, depth):
        import string
        tmpl = e.func.value.value
        parts = []
        auto = 0
        try:
            for text, field, spec, conv in string.Formatter().parse(tmpl):
                if text:
                    parts.append(A.lit(text))
                if field is None:
                    continue
                if conv not in (None, "s"):
                    return self._any(e, "conversion in format()")
                if field == "":
                    idx = auto
                    auto += 1
                elif field.isdigit():
                    idx = int(field)
                else:
                    kw = {k.arg: k.value for k in e.keywords}
                    if field not in kw:
                        return self._any(e, "format field")
                    arg = kw[field]
                    idx = None
                if idx is not None:
                    if idx >= len(e.args):
                        return self._any(e, "format index")
                    arg = e.args[idx]
                i = self.int_shape(arg, func)
                if i is not None and (not spec or spec.isdigit() or spec == "d" or (spec.endswith("d") and spec[:-1].isdigit())):
                    parts.append(i)
                elif not spec:
                    parts.append(self.shape(arg, func, depth))
                else:
                    return self._any(e, f"format spec {spec!r}")
        except ValueError:
            return self._any(e, "bad format template")
        return A.cat(*parts)
