"""Allocation-site flow analysis for the objects of one class inside one module.

Flow-insensitive, container-collapsing (Andersen style):  pts(x) = set of construction sites of class K whose objects may be
reachable from x at any nesting depth (lists, tuples, dicts, generators, attributes are collapsed into their holder).
Variables are per function; attributes are per attribute name (module wide); function results (returns and yields) per function.
Calls are resolved by callee name inside the module (plain names, self./cls./Class. methods); unknown callees return the union of
what flows into them (receiver and arguments).  The result over-approximates: every object that can reach x at run time is in
pts(x); it is used for "may be one of these sites" obligations only.
"""
import ast

from .core import FUNC, call_name, params, qual, walk_local

ADDERS = {"append", "extend", "add", "update", "insert", "setdefault", "appendleft", "__setitem__"}


class ObjFlow:
    def __init__(self, module, klass):
        self.m = module
        self.klass = klass
        self.sites = []  # ast.Call, in source order
        self.V = {}      # (func qual, name) -> set(site index)
        self.F = {}      # attribute name -> set
        self.R = {}      # func qual -> set
        self.funcs = {}  # simple name -> [func nodes]
        self.fq = {}
        for n in ast.walk(module.tree):
            if isinstance(n, FUNC):
                self.funcs.setdefault(n.name, []).append(n)
                self.fq[id(n)] = qual(n)
            if isinstance(n, ast.Call) and call_name(n) == klass and isinstance(n.func, ast.Name):
                self.sites.append(n)
        self.sites.sort(key=lambda c: (c.lineno, c.col_offset))
        self.site_ix = {id(c): i for i, c in enumerate(self.sites)}
        self.changed = True
        rounds = 0
        while self.changed:
            self.changed = False
            rounds += 1
            for fl in self.funcs.values():
                for f in fl:
                    self._sweep(f)
            if rounds > 60:
                raise RuntimeError("objflow: no fixpoint")
        self.rounds = rounds

    # ------------------------------------------------------------------ stores
    def _add(self, table, key, vals):
        if not vals:
            return
        cur = table.setdefault(key, set())
        if not vals <= cur:
            cur |= vals
            self.changed = True

    def _store(self, target, vals, fq):
        if not vals:
            return
        if isinstance(target, ast.Name):
            self._add(self.V, (fq, target.id), vals)
        elif isinstance(target, (ast.Tuple, ast.List)):
            for e in target.elts:
                self._store(e, vals, fq)
        elif isinstance(target, ast.Starred):
            self._store(target.value, vals, fq)
        elif isinstance(target, ast.Attribute):
            self._add(self.F, target.attr, vals)
            self._store_holder(target.value, vals, fq)
        elif isinstance(target, ast.Subscript):
            self._store_holder(target.value, vals, fq)

    def _store_holder(self, e, vals, fq):
        """`e` holds (contains) the values: collapse into the variable / attribute that names the holder."""
        while isinstance(e, ast.Subscript):
            e = e.value
        if isinstance(e, ast.Name):
            if e.id not in ("self", "cls"):
                self._add(self.V, (fq, e.id), vals)
        elif isinstance(e, ast.Attribute):
            self._add(self.F, e.attr, vals)
            self._store_holder(e.value, vals, fq)

    # ------------------------------------------------------------------ expressions
    def pts(self, e, fq):
        if e is None:
            return set()
        if isinstance(e, ast.Call):
            if id(e) in self.site_ix:
                return {self.site_ix[id(e)]}
            return self._call(e, fq)
        if isinstance(e, ast.Name):
            return set(self.V.get((fq, e.id), ()))
        if isinstance(e, ast.Attribute):
            return set(self.F.get(e.attr, ())) | self.pts(e.value, fq)
        if isinstance(e, ast.Subscript):
            return self.pts(e.value, fq)
        if isinstance(e, (ast.List, ast.Tuple, ast.Set)):
            out = set()
            for x in e.elts:
                out |= self.pts(x, fq)
            return out
        if isinstance(e, ast.Dict):
            out = set()
            for x in list(e.keys) + list(e.values):
                out |= self.pts(x, fq)
            return out
        if isinstance(e, (ast.ListComp, ast.SetComp, ast.GeneratorExp, ast.DictComp)):
            for g in e.generators:
                self._store(g.target, self.pts(g.iter, fq), fq)
            if isinstance(e, ast.DictComp):
                return self.pts(e.key, fq) | self.pts(e.value, fq)
            return self.pts(e.elt, fq)
        if isinstance(e, ast.BinOp):
            return self.pts(e.left, fq) | self.pts(e.right, fq)
        if isinstance(e, ast.BoolOp):
            out = set()
            for x in e.values:
                out |= self.pts(x, fq)
            return out
        if isinstance(e, ast.IfExp):
            return self.pts(e.body, fq) | self.pts(e.orelse, fq)
        if isinstance(e, ast.Starred):
            return self.pts(e.value, fq)
        if isinstance(e, ast.NamedExpr):
            v = self.pts(e.value, fq)
            self._store(e.target, v, fq)
            return v
        if isinstance(e, (ast.Yield, ast.YieldFrom, ast.Await)):
            return self.pts(e.value, fq)
        return set()

    def resolve(self, c):
        """Functions of this module a call may reach (by simple name); [] = unknown / external."""
        f = c.func
        if isinstance(f, ast.Name):
            cands = self.funcs.get(f.id, [])
            return [x for x in cands]
        if isinstance(f, ast.Attribute) and isinstance(f.value, ast.Name) and (f.value.id in ("self", "cls") or f.value.id[:1].isupper()):
            return list(self.funcs.get(f.attr, []))
        return []

    def _call(self, c, fq):
        callees = self.resolve(c)
        argv = [self.pts(a, fq) for a in c.args]
        kwv = {k.arg: self.pts(k.value, fq) for k in c.keywords}
        recv = self.pts(c.func.value, fq) if isinstance(c.func, ast.Attribute) else set()
        if isinstance(c.func, ast.Attribute) and c.func.attr in ADDERS:
            vals = set()
            for v in argv:
                vals |= v
            for v in kwv.values():
                vals |= v
            self._store_holder(c.func.value, vals, fq)
        if not callees:
            out = set(recv)
            for v in argv:
                out |= v
            for v in kwv.values():
                out |= v
            return out
        out = set()
        for f in callees:
            q = self.fq[id(f)]
            ps = params(f)
            if ps and ps[0] in ("self", "cls") and isinstance(c.func, ast.Attribute):
                ps = ps[1:]
            for i, v in enumerate(argv):
                if i < len(ps):
                    self._add(self.V, (q, ps[i]), v)
            for k, v in kwv.items():
                if k in ps:
                    self._add(self.V, (q, k), v)
            out |= self.R.get(q, set())
        return out

    # ------------------------------------------------------------------ statements
    def _sweep(self, f):
        fq = self.fq[id(f)]
        for n in walk_local(f):
            if isinstance(n, ast.Assign):
                v = self.pts(n.value, fq)
                for t in n.targets:
                    self._store(t, v, fq)
            elif isinstance(n, ast.AnnAssign) and n.value is not None:
                self._store(n.target, self.pts(n.value, fq), fq)
            elif isinstance(n, ast.AugAssign):
                self._store(n.target, self.pts(n.value, fq), fq)
            elif isinstance(n, (ast.For, ast.AsyncFor)):
                self._store(n.target, self.pts(n.iter, fq), fq)
            elif isinstance(n, ast.withitem) and n.optional_vars is not None:
                self._store(n.optional_vars, self.pts(n.context_expr, fq), fq)
            elif isinstance(n, ast.Return) and n.value is not None:
                self._add(self.R, fq, self.pts(n.value, fq))
            elif isinstance(n, (ast.Yield, ast.YieldFrom)) and n.value is not None:
                self._add(self.R, fq, self.pts(n.value, fq))
            elif isinstance(n, ast.Expr):
                self.pts(n.value, fq)
            elif isinstance(n, (ast.If, ast.While, ast.Assert)):
                self.pts(n.test, fq)

    def of_name(self, func, name):
        return set(self.V.get((self.fq[id(func)], name), ()))
