"""Statement-level control-flow graph of one function, for the statement
kinds the repository uses.

Nodes: one per simple statement, one per branch point (if / while / for /
with / try heads), ENTRY and EXIT (normal return), RAISE (exceptional exit).
Edges carry a label: None, ('test', expr, polarity), 'iter', 'exhausted',
'except'.  Short-circuit tests are not split into several nodes; rules that
need that use sa.guards.split on the edge label.
"""
import ast
import collections

from .core import FUNC


class Node:
    __slots__ = ("id", "kind", "ast", "succ", "pred")

    def __init__(self, nid, kind, node=None):
        self.id, self.kind, self.ast = nid, kind, node
        self.succ = []  # (Node, label)
        self.pred = []

    def __repr__(self):
        return f"<{self.id}:{self.kind}:{getattr(self.ast, 'lineno', '')}>"


class CFG:
    def __init__(self, func):
        self.func = func
        self.nodes = []
        self.entry = self._mk("entry")
        self.exit = self._mk("exit")
        self.raise_ = self._mk("raise")
        self.by_ast = {}
        first = self._block(func.body, self.exit, None, None, [])
        self._edge(self.entry, first, None)
        self._prune()

    # ---- construction --------------------------------------------------
    def _mk(self, kind, node=None):
        n = Node(len(self.nodes), kind, node)
        self.nodes.append(n)
        if node is not None:
            self.by_ast.setdefault(id(node), n)
        return n

    def _edge(self, a, b, label):
        a.succ.append((b, label))
        b.pred.append((a, label))

    def _block(self, stmts, nxt, brk, cont, handlers):
        cur = nxt
        for st in reversed(stmts):
            cur = self._stmt(st, cur, brk, cont, handlers)
        return cur

    def _exc_target(self, handlers):
        return handlers[-1] if handlers else self.raise_

    def _stmt(self, st, nxt, brk, cont, handlers):
        if isinstance(st, ast.If):
            n = self._mk("if", st)
            self._edge(n, self._block(st.body, nxt, brk, cont, handlers), ("test", st.test, True))
            self._edge(n, self._block(st.orelse, nxt, brk, cont, handlers), ("test", st.test, False))
            return n
        if isinstance(st, (ast.For, ast.AsyncFor)):
            n = self._mk("for", st)
            self._edge(n, self._block(st.body, n, nxt, n, handlers), "iter")
            self._edge(n, self._block(st.orelse, nxt, brk, cont, handlers), "exhausted")
            return n
        if isinstance(st, ast.While):
            n = self._mk("while", st)
            self._edge(n, self._block(st.body, n, nxt, n, handlers), ("test", st.test, True))
            if not (isinstance(st.test, ast.Constant) and st.test.value):
                self._edge(n, self._block(st.orelse, nxt, brk, cont, handlers), ("test", st.test, False))
            return n
        if isinstance(st, (ast.With, ast.AsyncWith)):
            n = self._mk("with", st)
            self._edge(n, self._block(st.body, nxt, brk, cont, handlers), None)
            return n
        if isinstance(st, ast.Try):
            after = nxt
            if st.finalbody:
                after = self._block(st.finalbody, nxt, brk, cont, handlers)
            hnode = self._mk("except", st)
            for h in st.handlers:
                self._edge(hnode, self._block(h.body, after, brk, cont, handlers), "except")
            if not st.handlers:
                self._edge(hnode, self._exc_target(handlers), "except")
            else:
                # an exception not matched by any handler propagates
                self._edge(hnode, self._exc_target(handlers), "except-unmatched")
            orelse = self._block(st.orelse, after, brk, cont, handlers) if st.orelse else after
            n = self._mk("try", st)
            body = self._block(st.body, orelse, brk, cont, handlers + [hnode])
            self._edge(n, body, None)
            return n
        if isinstance(st, ast.Return):
            n = self._mk("stmt", st)
            self._edge(n, self.exit, None)
            return n
        if isinstance(st, ast.Raise):
            n = self._mk("stmt", st)
            self._edge(n, self._exc_target(handlers), "raise")
            return n
        if isinstance(st, ast.Break):
            n = self._mk("stmt", st)
            self._edge(n, brk if brk is not None else self.exit, None)
            return n
        if isinstance(st, ast.Continue):
            n = self._mk("stmt", st)
            self._edge(n, cont if cont is not None else self.exit, None)
            return n
        if isinstance(st, ast.Assert):
            n = self._mk("stmt", st)
            if isinstance(st.test, ast.Constant) and not st.test.value:
                self._edge(n, self._exc_target(handlers), "raise")
            else:
                self._edge(n, nxt, ("test", st.test, True))
                self._edge(n, self._exc_target(handlers), ("test", st.test, False))
            return n
        if isinstance(st, FUNC + (ast.ClassDef,)):
            n = self._mk("def", st)
            self._edge(n, nxt, None)
            return n
        if isinstance(st, ast.Match):
            n = self._mk("match", st)
            for c in st.cases:
                self._edge(n, self._block(c.body, nxt, brk, cont, handlers), "case")
            self._edge(n, nxt, "nocase")
            return n
        n = self._mk("stmt", st)
        self._edge(n, nxt, None)
        if handlers:
            # any statement inside a try body may raise into the handler
            self._edge(n, handlers[-1], "may-raise")
        return n

    def _prune(self):
        reach, work = {self.entry.id}, [self.entry]
        while work:
            n = work.pop()
            for s, _ in n.succ:
                if s.id not in reach:
                    reach.add(s.id)
                    work.append(s)
        self.reachable = reach
        for n in self.nodes:
            n.pred = [(p, l) for p, l in n.pred if p.id in reach]

    # ---- queries ---------------------------------------------------------
    def node_of(self, stmt):
        return self.by_ast.get(id(stmt))

    def dominators(self, reverse=False):
        """dict node id -> set of node ids that dominate it (iterative)."""
        nodes = [n for n in self.nodes if n.id in self.reachable]
        if reverse:
            roots = [self.exit, self.raise_]
            preds = lambda n: [s for s, _ in n.succ]
        else:
            roots = [self.entry]
            preds = lambda n: [p for p, _ in n.pred]
        allids = {n.id for n in nodes}
        dom = {n.id: set(allids) for n in nodes}
        for r in roots:
            dom[r.id] = {r.id}
        changed = True
        while changed:
            changed = False
            for n in nodes:
                if n in roots:
                    continue
                ps = [dom[p.id] for p in preds(n) if p.id in dom]
                new = set.intersection(*ps) if ps else set()
                new = new | {n.id}
                if new != dom[n.id]:
                    dom[n.id] = new
                    changed = True
        return dom

    def reach_avoiding(self, start, targets, avoid, follow_raise=True):
        """Can a node in `targets` (set of ids) be reached from `start`
        (exclusive) without passing through a node in `avoid` (set of ids)?
        Returns the path (list of nodes) or None."""
        prev = {}
        work = collections.deque()
        for s, lab in start.succ:
            if not follow_raise and lab in ("may-raise", "except-unmatched"):
                continue
            if s.id not in prev:
                prev[s.id] = start
                work.append(s)
        while work:
            n = work.popleft()
            if n.id in targets:
                path = [n]
                while path[-1] is not start:
                    path.append(prev[path[-1].id])
                return list(reversed(path))
            if n.id in avoid:
                continue
            for s, lab in n.succ:
                if not follow_raise and lab in ("may-raise", "except-unmatched"):
                    continue
                if s.id not in prev:
                    prev[s.id] = n
                    work.append(s)
        return None

    def stmts(self):
        return [n for n in self.nodes if n.id in self.reachable and n.ast is not None]


def path_lines(path):
    return [getattr(n.ast, "lineno", n.kind) for n in path]
