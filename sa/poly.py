"""Linear (affine) normal forms of integer expressions.

linear(expr) -> {1: const, name_or_key: coefficient, ...} or None when the
expression is not affine in its atoms.  Atoms are names, or any sub-expression
made opaque by the `atom` callback (e.g. len(x), col.width)."""
import ast
from fractions import Fraction

from .core import norm


def _add(a, b, sign=1):
    out = dict(a)
    for k, v in b.items():
        out[k] = out.get(k, 0) + sign * v
    return {k: v for k, v in out.items() if v != 0 or k == 1}


def _scale(a, c):
    return {k: v * c for k, v in a.items() if v * c != 0 or k == 1}


def _const(a):
    return all(k == 1 for k in a)


def linear(e, atom=None, env=None, depth=0):
    """env: name -> already-linear dict to substitute."""
    if depth > 40:
        return None
    if isinstance(e, ast.Constant) and isinstance(e.value, int) and not isinstance(e.value, bool):
        return {1: e.value}
    if isinstance(e, ast.Name):
        if env and e.id in env:
            return dict(env[e.id])
        return {e.id: 1}
    if isinstance(e, ast.UnaryOp) and isinstance(e.op, ast.USub):
        a = linear(e.operand, atom, env, depth + 1)
        return None if a is None else _scale(a, -1)
    if isinstance(e, ast.UnaryOp) and isinstance(e.op, ast.UAdd):
        return linear(e.operand, atom, env, depth + 1)
    if isinstance(e, ast.BinOp):
        if isinstance(e.op, (ast.Add, ast.Sub)):
            a, b = linear(e.left, atom, env, depth + 1), linear(e.right, atom, env, depth + 1)
            if a is None or b is None:
                return None
            return _add(a, b, 1 if isinstance(e.op, ast.Add) else -1)
        if isinstance(e.op, ast.Mult):
            a, b = linear(e.left, atom, env, depth + 1), linear(e.right, atom, env, depth + 1)
            if a is None or b is None:
                return None
            if _const(a):
                return _scale(b, a.get(1, 0))
            if _const(b):
                return _scale(a, b.get(1, 0))
            return None
    if atom is not None:
        k = atom(e)
        if k is not None:
            return {k: 1}
    return None


def show(a):
    if a is None:
        return "?"
    parts = []
    for k in sorted(a, key=lambda x: (x == 1, str(x))):
        v = a[k]
        if k == 1:
            if v or len(a) == 1:
                parts.append(str(v))
        else:
            parts.append(f"{'' if v == 1 else v}{'*' if v != 1 else ''}{k}")
    return " + ".join(parts) if parts else "0"


def equal(a, b):
    if a is None or b is None:
        return False
    na = {k: v for k, v in a.items() if v != 0}
    nb = {k: v for k, v in b.items() if v != 0}
    return na == nb
