"""Affine width domain: symbolic visible widths of strings, chunks, chunk lists
and texts as linear expressions, with path facts (equalities, bounds) and a
small bound-substitution prover for non-negativity side conditions.

Abstract values
  Lin            integer, linear over symbols  {sym: coeff, 1: const}
  Str(n)         a str of length n
  Chunk(n)       a coloured chunk whose visible text has length n
  CL(n)          list of chunks of total visible width n
  Cells(c, w)    list of c cells (each a CL), total width w
  Text(n)        CHText of visible width n
  UNK            anything else

Paths are enumerated structurally (both branches of every `if`), each with its
list of facts.  Calls are replaced by *contracts* supplied by the rule (each
contract is itself an obligation checked on the callee).
"""
import ast

from .core import AnalysisError, norm, call_name, is_name, const, walk_local
from .guards import split


# ---------------------------------------------------------------------------- linear expressions
class Lin(dict):
    @staticmethod
    def const(c):
        return Lin({1: c})

    @staticmethod
    def sym(s, k=1):
        return Lin({s: k, 1: 0})

    def __add__(self, o):
        out = Lin(self)
        for k, v in o.items():
            out[k] = out.get(k, 0) + v
        return out.norm()

    def __sub__(self, o):
        return self + o.scale(-1)

    def scale(self, c):
        return Lin({k: v * c for k, v in self.items()}).norm()

    def norm(self):
        return Lin({k: v for k, v in self.items() if v != 0 or k == 1})

    def is_const(self):
        return all(k == 1 for k in self)

    def c(self):
        return self.get(1, 0)

    def syms(self):
        return [k for k in self if k != 1]

    def subst(self, sym, lin):
        if sym not in self:
            return self
        k = self[sym]
        out = Lin({a: b for a, b in self.items() if a != sym})
        return (out + lin.scale(k)).norm()

    def key(self):
        return tuple(sorted((str(k), v) for k, v in self.items() if v != 0))

    def __repr__(self):
        parts = []
        for k in sorted(self, key=str):
            v = self[k]
            if k == 1:
                if v or len(self) == 1:
                    parts.append(str(v))
            elif v:
                parts.append(("" if v == 1 else "-" if v == -1 else f"{v}*") + str(k))
        return " + ".join(parts).replace("+ -", "- ") if parts else "0"


ZERO = Lin.const(0)


class Str:
    def __init__(self, n):
        self.n = n

    def __repr__(self):
        return f"Str({self.n})"


class Chunk:
    def __init__(self, n):
        self.n = n

    def __repr__(self):
        return f"Chunk({self.n})"


class CL:
    def __init__(self, n, fresh=True):
        self.n = n
        self.fresh = fresh

    def __repr__(self):
        return f"CL({self.n})"


class Cells:
    def __init__(self, c, w):
        self.c, self.w = c, w

    def __repr__(self):
        return f"Cells(count={self.c}, width={self.w})"


class Text:
    def __init__(self, n):
        self.n = n

    def __repr__(self):
        return f"Text({self.n})"


class _Unk:
    def __repr__(self):
        return "UNK"


UNK = _Unk()


class Facts:
    """Equalities lin == 0, and bounds on symbols."""

    def __init__(self, parent=None):
        self.eqs = list(parent.eqs) if parent else []
        self.nonneg = list(parent.nonneg) if parent else []      # Lin known >= 0
        self.lb = dict(parent.lb) if parent else {}               # sym -> int lower bound
        self.ub = dict(parent.ub) if parent else {}               # sym -> Lin upper bound
        self.lbl = dict(parent.lbl) if parent else {}             # sym -> Lin lower bound
        self.neq = list(parent.neq) if parent else []             # Lin known != 0

    def add_nonneg(self, lin):
        self.nonneg.append(lin)
        self.strengthen()

    def add_neq(self, lin):
        self.neq.append(lin)
        self.strengthen()

    def strengthen(self):
        """f >= 0 and f != 0  =>  f - 1 >= 0"""
        for i, f in enumerate(self.nonneg):
            rf = self.reduce(f)
            for g in self.neq:
                rg = self.reduce(g)
                if (rf - rg).norm().key() == () or (rf + rg).norm().key() == ():
                    if not any((self.reduce(h) - (rf - Lin.const(1))).norm().key() == () for h in self.nonneg):
                        self.nonneg.append(f - Lin.const(1))

    def copy(self):
        return Facts(self)

    def reduce(self, lin):
        """Normalise lin modulo the equalities (each equality eliminates one symbol)."""
        cur = lin
        for sym, rhs in self._solved():
            cur = cur.subst(sym, rhs)
        return cur

    def _solved(self):
        out = []
        eqs = [Lin(e) for e in self.eqs]
        for i in range(len(eqs)):
            e = eqs[i]
            for sym, rhs in out:
                e = e.subst(sym, rhs)
            syms = [s for s in e.syms() if abs(e[s]) == 1]
            if not syms:
                continue
            # prefer eliminating program variables standing for widths of inputs ("L(...)") last
            syms.sort(key=lambda s: (not str(s).startswith("W("), str(s)))
            s = syms[0]
            k = e[s]
            rest = Lin({a: b for a, b in e.items() if a != s})
            rhs = rest.scale(-1 if k == 1 else 1)
            out = [(a, b.subst(s, rhs)) for a, b in out] + [(s, rhs)]
        return out

    def equal(self, a, b):
        d = self.reduce(a - b)
        return d.is_const() and d.c() == 0

    def is_nonneg(self, lin, depth=0):
        lin = self.reduce(lin)
        if lin.is_const():
            return lin.c() >= 0
        for f in self.nonneg:
            d = self.reduce(lin - f)
            if d.is_const() and d.c() >= 0:
                return True
            if depth < 2 and not d.is_const() and len(d.syms()) < len(lin.syms()) and self.is_nonneg(d, depth + 1):
                return True
        if depth > 3:
            return False
        # substitute bounds: positive coefficient -> lower bound, negative -> upper bound
        for s in lin.syms():
            k = lin[s]
            if k > 0:
                if s in self.lbl:
                    if self.is_nonneg(lin.subst(s, self.lbl[s]), depth + 1):
                        return True
                lb = self.lb.get(s)
                if lb is not None and self.is_nonneg(lin.subst(s, Lin.const(lb)), depth + 1):
                    return True
            else:
                ub = self.ub.get(s)
                if ub is not None and self.is_nonneg(lin.subst(s, ub), depth + 1):
                    return True
        return False


class Path:
    def __init__(self, env, facts, notes=None):
        self.env = env
        self.facts = facts
        self.notes = notes or []

    def fork(self):
        return Path(dict(self.env), self.facts.copy(), list(self.notes))


class Obligation:
    def __init__(self, kind, node, ok, detail):
        self.kind, self.node, self.ok, self.detail = kind, node, ok, detail


class WidthInterp:
    """contracts: dict  callee simple name -> function(interp, call_node, args_abs, path) -> AbsVal or None
    sym_hook(expr_text) -> Lin or None : how to name integer expressions the rule knows (e.g. 'col.width')"""

    def __init__(self, contracts=None, palette_names=("cp",), int_hook=None, nonneg_syms=(), lower_bounds=None, max_paths=512):
        self.contracts = contracts or {}
        self.pal = set(palette_names)
        self.int_hook = int_hook
        self.nonneg_syms = set(nonneg_syms)
        self.lower_bounds = lower_bounds or {}
        self.max_paths = max_paths
        self.side = []          # Obligation list (side conditions)
        self.returns = []       # (node, AbsVal, Path)
        self.yields = []        # (node, AbsVal, Path)
        self.n_paths = 0

    # ------------------------------------------------------------------ helpers
    def base_facts(self):
        f = Facts()
        for s in self.nonneg_syms:
            f.lb[s] = 0
        for s, v in self.lower_bounds.items():
            f.lb[s] = v
        return f

    def declare_nonneg(self, path, sym):
        path.facts.lb.setdefault(sym, 0)

    def opaque(self, e, path, nonneg=False):
        s = f"<{norm(e)}>"
        if nonneg:
            self.declare_nonneg(path, s)
        return Lin.sym(s)

    def need_nonneg(self, lin, node, path, what):
        ok = path.facts.is_nonneg(lin)
        self.side.append(Obligation("nonneg", node, ok, f"{what}: {path.facts.reduce(lin)} >= 0" + ("" if ok else " cannot be shown")))
        return ok

    # ------------------------------------------------------------------ integer expressions
    def lin(self, e, path):
        """Linear value of an int expression (or None)."""
        if isinstance(e, ast.Constant) and isinstance(e.value, int) and not isinstance(e.value, bool):
            return Lin.const(e.value)
        if isinstance(e, ast.Name):
            v = path.env.get(e.id)
            if isinstance(v, Lin):
                return v
            if v is None:
                if self.int_hook:
                    h = self.int_hook(e, path)
                    if h is not None:
                        return h
                return Lin.sym(e.id)
            return None
        if isinstance(e, ast.Attribute):
            t = norm(e)
            v = path.env.get(t)
            if isinstance(v, Lin):
                return v
            if self.int_hook:
                h = self.int_hook(e, path)
                if h is not None:
                    return h
            return Lin.sym(t)
        if isinstance(e, ast.BinOp):
            if isinstance(e.op, (ast.Add, ast.Sub)):
                a, b = self.lin(e.left, path), self.lin(e.right, path)
                if a is None or b is None:
                    return None
                return a + b if isinstance(e.op, ast.Add) else a - b
            if isinstance(e.op, ast.Mult):
                a, b = self.lin(e.left, path), self.lin(e.right, path)
                if a is not None and b is not None:
                    if a.is_const():
                        return b.scale(a.c())
                    if b.is_const():
                        return a.scale(b.c())
                return None
            if isinstance(e.op, ast.FloorDiv):
                a, b = self.lin(e.left, path), self.lin(e.right, path)
                if a is not None and b is not None and b.is_const() and b.c() >= 1:
                    s = f"<{a!r} // {b.c()}>"
                    if path.facts.is_nonneg(a):
                        path.facts.lb[s] = 0
                        path.facts.ub[s] = a
                    return Lin.sym(s)
                return None
        if isinstance(e, ast.UnaryOp) and isinstance(e.op, ast.USub):
            a = self.lin(e.operand, path)
            return a.scale(-1) if a is not None else None
        if isinstance(e, ast.Call):
            nm = call_name(e)
            if nm == "len" and len(e.args) == 1:
                v = self.ev(e.args[0], path)
                if isinstance(v, Str):
                    return v.n
                if isinstance(v, Cells):
                    return v.c
                if self.int_hook:
                    h = self.int_hook(e, path)
                    if h is not None:
                        return h
                s = f"len({norm(e.args[0])})"
                self.declare_nonneg(path, s)
                return Lin.sym(s)
            if nm == "min" and len(e.args) == 2:
                a, b = self.lin(e.args[0], path), self.lin(e.args[1], path)
                if a is not None and b is not None:
                    s = f"<min({a!r}, {b!r})>"
                    # min(a,b) <= a, <= b ; >= 0 when both are
                    path.facts.ub[s] = b if a.is_const() else a
                    if path.facts.is_nonneg(a) and path.facts.is_nonneg(b):
                        path.facts.lb[s] = 0
                    return Lin.sym(s)
            if nm == "max" and len(e.args) == 2:
                a, b = self.lin(e.args[0], path), self.lin(e.args[1], path)
                if a is not None and b is not None:
                    s = f"<max({a!r}, {b!r})>"
                    path.facts.lbl[s] = a if not a.is_const() else b
                    if path.facts.is_nonneg(a) or path.facts.is_nonneg(b):
                        path.facts.lb[s] = 0
                    return Lin.sym(s)
            if nm == "sum" and len(e.args) == 1 and isinstance(e.args[0], ast.GeneratorExp) and self.int_hook:
                h = self.int_hook(e, path)
                if h is not None:
                    return h
            if nm == "calc_chunks_len" and len(e.args) == 1:
                v = self.ev(e.args[0], path)
                if isinstance(v, CL):
                    return v.n
            c = self.contracts.get(nm)
            if c is not None:
                r = c(self, e, path)
                if isinstance(r, Lin):
                    return r
            if self.int_hook:
                h = self.int_hook(e, path)
                if h is not None:
                    return h
        return None

    # ------------------------------------------------------------------ general expressions
    def ev(self, e, path):
        if isinstance(e, ast.Constant):
            if isinstance(e.value, str):
                return Str(Lin.const(len(e.value)))
            if isinstance(e.value, int) and not isinstance(e.value, bool):
                return Lin.const(e.value)
            return UNK
        if isinstance(e, ast.Name):
            v = path.env.get(e.id)
            if v is not None:
                return v
            return UNK
        if isinstance(e, ast.Attribute):
            v = path.env.get(norm(e))
            if v is not None:
                return v
            if e.attr == "text":
                b = self.ev(e.value, path)
                if isinstance(b, Chunk):
                    return Str(b.n)
            return UNK
        if isinstance(e, ast.JoinedStr):
            n = ZERO
            for v in e.values:
                if isinstance(v, ast.Constant):
                    n = n + Lin.const(len(v.value))
                else:
                    s = f"len(<{norm(v.value)}>)"
                    self.declare_nonneg(path, s)
                    n = n + Lin.sym(s)
            return Str(n)
        if isinstance(e, ast.BinOp) and isinstance(e.op, ast.Mult):
            l, r = e.left, e.right
            ls = self.ev(l, path)
            if not isinstance(ls, Str):
                l, r = r, l
                ls = self.ev(l, path)
            if isinstance(ls, Str):
                k = self.lin(r, path)
                if k is not None and ls.n.is_const():
                    self.need_nonneg(k, e, path, f"repeat count of {norm(e)[:40]}")
                    return Str(k.scale(ls.n.c()))
            return UNK
        if isinstance(e, ast.BinOp) and isinstance(e.op, ast.Add):
            a, b = self.ev(e.left, path), self.ev(e.right, path)
            if isinstance(a, Str) and isinstance(b, Str):
                return Str(a.n + b.n)
            if isinstance(a, CL) and isinstance(b, CL):
                return CL(a.n + b.n, fresh=True)
            if isinstance(a, Lin) or isinstance(b, Lin):
                l = self.lin(e, path)
                return l if l is not None else UNK
            return UNK
        if isinstance(e, ast.BinOp):
            l = self.lin(e, path)
            return l if l is not None else UNK
        if isinstance(e, ast.List):
            n = ZERO
            for x in e.elts:
                if isinstance(x, ast.Starred):
                    v = self.ev(x.value, path)
                    if isinstance(v, CL):
                        n = n + v.n
                        continue
                    return UNK
                v = self.ev(x, path)
                if isinstance(v, Chunk):
                    n = n + v.n
                else:
                    return UNK
            return CL(n, fresh=True)
        if isinstance(e, ast.Subscript) and isinstance(e.slice, ast.Slice):
            b = self.ev(e.value, path)
            if isinstance(b, Str) and e.slice.lower is None and e.slice.step is None and e.slice.upper is not None:
                k = self.lin(e.slice.upper, path)
                if k is not None:
                    self.need_nonneg(k, e, path, f"slice bound of {norm(e)[:40]}")
                    self.need_nonneg(b.n - k, e, path, f"slice {norm(e)[:40]} within the string")
                    return Str(k)
            return UNK
        if isinstance(e, ast.Call):
            return self.call(e, path)
        if isinstance(e, ast.IfExp):
            return UNK
        return UNK

    def call(self, e, path):
        nm = call_name(e)
        f = e.func
        # formatter call: cp.<fmt>(<str>) -> Chunk
        if isinstance(f, ast.Attribute) and isinstance(f.value, ast.Name) and f.value.id in self.pal and len(e.args) == 1 and nm not in ("get_sub_palette", "get_color"):
            s = self.ev(e.args[0], path)
            if isinstance(s, Str):
                return Chunk(s.n)
            return UNK
        if nm == "make_plain" and len(e.args) == 1:
            s = self.ev(e.args[0], path)
            return Chunk(s.n) if isinstance(s, Str) else UNK
        if nm == "clone" and len(e.args) == 1:
            s = self.ev(e.args[0], path)
            return Chunk(s.n) if isinstance(s, Str) else UNK
        if nm == "join" and isinstance(f, ast.Attribute) and len(e.args) == 1 and isinstance(e.args[0], (ast.GeneratorExp, ast.ListComp)):
            sep = self.ev(f.value, path)
            if isinstance(sep, Str) and self.int_hook:
                h = self.int_hook(e, path)
                if isinstance(h, Lin):
                    return Str(h)
            return UNK
        if nm == "copy" and isinstance(f, ast.Attribute) and isinstance(f.value, ast.Attribute) and f.value.attr == "chunks" and not e.args:
            b = self.ev(f.value.value, path)
            if isinstance(b, Text):
                return CL(b.n, fresh=True)
        d = norm(f)
        if d in ("CHText.make",) and len(e.args) == 1:
            v = self.ev(e.args[0], path)
            return Text(v.n) if isinstance(v, CL) else UNK
        if d == "CHText":
            n = ZERO
            for a in e.args:
                if isinstance(a, ast.Starred):
                    v = self.ev(a.value, path)
                    if isinstance(v, CL):
                        n = n + v.n
                        continue
                    return UNK
                v = self.ev(a, path)
                if isinstance(v, (Str, Chunk, Text, CL)):
                    n = n + v.n
                else:
                    return UNK
            return Text(n)
        c = self.contracts.get(nm)
        if c is not None:
            r = c(self, e, path)
            if r is not None:
                return r
        h = getattr(self, "helpers", {}).get(nm)
        if h is not None and getattr(self, "_inline_depth", 0) < 2:
            r = self.inline_helper(h, e, path)
            if r is not None:
                return r
        l = self.lin(e, path)
        if l is not None:
            return l
        return UNK

    def inline_helper(self, h, e, path):
        """A private helper with a straight-line body (assignments of names, then one return) is interpreted in place."""
        ps = [a.arg for a in h.args.args]
        if ps and ps[0] in ("self", "cls") and isinstance(e.func, ast.Attribute):
            ps = ps[1:]
        if len(ps) != len(e.args) or e.keywords:
            return None
        body = [st for st in h.body if not (isinstance(st, ast.Expr) and isinstance(st.value, ast.Constant))]
        if not body or not isinstance(body[-1], ast.Return) or not all(isinstance(st, ast.Assign) and len(st.targets) == 1 and isinstance(st.targets[0], ast.Name) for st in body[:-1]):
            return None
        inner = path.fork()
        inner.env = dict(path.env)
        for p_, a in zip(ps, e.args):
            inner.env[p_] = path.env.get(a.id) if isinstance(a, ast.Name) and a.id in self.pal else self.ev(a, path)
        pal_backup = self.pal
        self.pal = set(self.pal) | {p_ for p_, a in zip(ps, e.args) if isinstance(a, ast.Name) and a.id in pal_backup}
        self._inline_depth = getattr(self, "_inline_depth", 0) + 1
        try:
            for st in body[:-1]:
                inner.env[st.targets[0].id] = self.ev(st.value, inner)
            r = self.ev(body[-1].value, inner) if body[-1].value is not None else None
        finally:
            self._inline_depth -= 1
            self.pal = pal_backup
        return r

    # ------------------------------------------------------------------ facts from tests
    def assume(self, test, pol, path):
        for e, p in split(test, pol):
            if isinstance(e, ast.Compare) and len(e.ops) == 1:
                a, b = self.lin(e.left, path), self.lin(e.comparators[0], path)
                if a is None or b is None:
                    continue
                op = e.ops[0]
                if not p:
                    op = {ast.Eq: ast.NotEq, ast.NotEq: ast.Eq, ast.Lt: ast.GtE, ast.LtE: ast.Gt, ast.Gt: ast.LtE, ast.GtE: ast.Lt}.get(type(op), type(None))()
                if isinstance(op, ast.Eq):
                    path.facts.eqs.append(a - b)
                elif isinstance(op, ast.NotEq):
                    path.facts.add_neq(a - b)
                elif isinstance(op, ast.GtE):
                    path.facts.add_nonneg(a - b)
                elif isinstance(op, ast.Gt):
                    path.facts.add_nonneg(a - b - Lin.const(1))
                elif isinstance(op, ast.LtE):
                    path.facts.add_nonneg(b - a)
                elif isinstance(op, ast.Lt):
                    path.facts.add_nonneg(b - a - Lin.const(1))

    def static_test(self, t, path):
        """True / False when an isinstance test is decided by the abstract kind, else None."""
        if isinstance(t, ast.UnaryOp) and isinstance(t.op, ast.Not):
            r = self.static_test(t.operand, path)
            return None if r is None else (not r)
        if isinstance(t, ast.Call) and call_name(t) == "isinstance" and len(t.args) == 2 and isinstance(t.args[0], ast.Name):
            v = path.env.get(t.args[0].id)
            kinds = {CL: "list", Chunk: "Chunk", Text: "CHText", Str: "str"}
            k = kinds.get(type(v))
            if k is None:
                return None
            names = {norm(x).split(".")[-1] for x in (t.args[1].elts if isinstance(t.args[1], ast.Tuple) else [t.args[1]])}
            names = {"Chunk" if n == "_CHTextChunk" else n for n in names}
            return k in names
        return None

    # ------------------------------------------------------------------ statements
    def run(self, stmts, path, loop_hook=None):
        """Returns the list of paths that fall through."""
        live = [path]
        for st in stmts:
            nxt = []
            for p in live:
                nxt.extend(self.stmt(st, p, loop_hook))
            live = nxt
            self.n_paths = max(self.n_paths, len(live))
            if len(live) > self.max_paths:
                raise AnalysisError("affine", "paths", "too many paths")
        return live

    def stmt(self, st, path, loop_hook):
        if isinstance(st, ast.Assign):
            v = self.ev(st.value, path)
            if isinstance(v, _Unk):
                l = self.lin(st.value, path)
                if l is not None:
                    v = l
            for t in st.targets:
                if isinstance(t, (ast.Name, ast.Attribute)):
                    path.env[norm(t)] = v
                elif isinstance(t, ast.Tuple):
                    for x in t.elts:
                        path.env[norm(x)] = UNK
            return [path]
        if isinstance(st, ast.AugAssign):
            t = norm(st.target)
            cur = path.env.get(t)
            if isinstance(st.op, (ast.Add, ast.Sub)):
                a = cur if isinstance(cur, Lin) else self.lin(st.target, path)
                b = self.lin(st.value, path)
                if a is not None and b is not None:
                    path.env[t] = a + b if isinstance(st.op, ast.Add) else a - b
                    return [path]
            path.env[t] = UNK
            return [path]
        if isinstance(st, ast.Expr):
            v = st.value
            if isinstance(v, ast.Constant):
                return [path]
            if isinstance(v, (ast.Yield, ast.YieldFrom)):
                val = self.ev(v.value, path) if v.value is not None else UNK
                self.yields.append((st, val, path.fork(), isinstance(v, ast.YieldFrom)))
                return [path]
            if isinstance(v, ast.Call) and isinstance(v.func, ast.Attribute):
                t = norm(v.func.value)
                cur = path.env.get(t)
                m = v.func.attr
                if isinstance(cur, CL):
                    if m == "append" and len(v.args) == 1:
                        x = self.ev(v.args[0], path)
                        path.env[t] = CL(cur.n + x.n, cur.fresh) if isinstance(x, Chunk) else UNK
                        self._mutation(st, cur, t)
                        return [path]
                    if m == "insert" and len(v.args) == 2:
                        x = self.ev(v.args[1], path)
                        path.env[t] = CL(cur.n + x.n, cur.fresh) if isinstance(x, Chunk) else UNK
                        self._mutation(st, cur, t)
                        return [path]
                    if m == "extend" and len(v.args) == 1:
                        x = self.ev(v.args[0], path)
                        path.env[t] = CL(cur.n + x.n, cur.fresh) if isinstance(x, CL) else UNK
                        self._mutation(st, cur, t)
                        return [path]
                if isinstance(cur, Cells) and m == "append" and len(v.args) == 1:
                    x = self.ev(v.args[0], path)
                    path.env[t] = Cells(cur.c + Lin.const(1), cur.w + x.n) if isinstance(x, CL) else UNK
                    return [path]
                self.ev(v, path)
            return [path]
        if isinstance(st, ast.If):
            sv = self.static_test(st.test, path)
            if sv is True:
                return self.run(st.body, path, loop_hook)
            if sv is False:
                return self.run(st.orelse, path, loop_hook)
            a, b = path.fork(), path.fork()
            self.assume(st.test, True, a)
            self.assume(st.test, False, b)
            return self.run(st.body, a, loop_hook) + self.run(st.orelse, b, loop_hook)
        if isinstance(st, ast.Assert):
            self.assume(st.test, True, path)
            return [path]
        if isinstance(st, ast.Return):
            val = self.ev(st.value, path) if st.value is not None else UNK
            self.returns.append((st, val, path.fork()))
            return []
        if isinstance(st, ast.Raise):
            return []
        if isinstance(st, (ast.For, ast.While)):
            if loop_hook is not None:
                r = loop_hook(self, st, path)
                if r is not None:
                    return r
            raise AnalysisError("affine", f"loop at line {st.lineno}", "loop without a supplied summary / invariant")
        if isinstance(st, (ast.Pass, ast.Import, ast.ImportFrom)):
            return [path]
        if isinstance(st, ast.Try):
            return self.run(st.body, path, loop_hook)
        raise AnalysisError("affine", type(st).__name__, f"statement kind at line {getattr(st, 'lineno', 0)}")

    def _mutation(self, st, cur, target):
        if not cur.fresh:
            self.side.append(Obligation("alias", st, False, f"in-place mutation of `{target}`, which may alias a caller-owned / cached list"))
        else:
            self.side.append(Obligation("alias", st, True, f"in-place mutation of the fresh list `{target}`"))
