#!/usr/bin/env python
"""Print examples of various colors."""

import argparse
from ak.color import ColorFmt


def _gen_lines_of_sample_report(descr, modifiers):
    # generate lines of colors demo text
    result_len = 47  # each line will have that many printable characters

    separator = " " * result_len
    empty = ColorFmt.get_plaintext_fmt()("")
    cspace = ColorFmt.get_plaintext_fmt()(" ")

    yield f"{descr:{result_len}}"
    yield separator

    # named colors
    named_colors = [
        [(0, 'BLACK'), (1, 'RED'), (2, 'GREEN'), (3, 'YELLOW')],
        [(4, 'BLUE'), (5, 'MAGENTA'), (6, 'CYAN'), (7, 'WHITE')],
    ]

    for colors_pairs in zip(*named_colors):
        texts = []
        for color_id, color_name in colors_pairs:
            fmt = ColorFmt(color_name, **modifiers)
            t = fmt(f"{color_id:2}. {color_name}")
            t += " " * (15 - len(t))
            texts.append(t)
        text = empty.join(texts)
        yield f"{text:{result_len}}"
    yield separator

    # colors in range 16
    for base_color_id in range(8):
        texts = []
        for color_id in (base_color_id, base_color_id + 8):
            fmt = ColorFmt(color_id, **modifiers)
            t = fmt(f"COLOR {color_id:2}")
            t += " " * (15 - len(t))
            texts.append(t)
        text = empty.join(texts)
        yield f"{text:{result_len}}"
    yield separator

    # colors in range 256 corresponding to (r, g, b) pattern
    for r in range(6):
        for g in range(6):
            texts = []
            for b in range(6):
                fmt = ColorFmt((r, g, b), **modifiers)
                t = fmt(f"{r}{g}{b}={r*36 + g*6 + b + 16:03}")
                texts.append(t)
            text = cspace.join(texts)
            yield f"{text:{result_len}}"
        yield separator
    yield separator

    # colors corresponding to shades of gray
    for b in (0, 12):
        texts = []
        for i in range(12):
            color_id = 232 + b + i
            fmt = ColorFmt(color_id)
            t = fmt(str(color_id))
            texts.append(t)
        text = cspace.join(texts)
        yield f"{text:{result_len}}"

def main():
    parser = argparse.ArgumentParser(
        description="Run this script to print examples of colors")
    parser.parse_args()

    fmt_opts = [
        ('--', {}),
        ('bold', {"bold": True}),
        ('faint', {'faint': True}),
        ('both', {'bold': True, 'faint': True}),
    ]

    gens = [
        _gen_lines_of_sample_report(descr, modifiers)
        for (descr, modifiers) in fmt_opts
    ]

    for parts in zip(*gens):
        print("  ".join(parts))


if __name__ == '__main__':
    main()
