"""ak - collection of tools to be used in my python scripts.

Short description of sub-modules.

General sub-modules:
color     - helpers for printing colored text
logtools  - configure logging the way I usually do (use colors, log file, etc.)
ppobj     - pretty-printer
conn_http - tools for making authenticated http requests
mwrap     - tools for creation of "methods wrappers". "method wrapper" object
            is basically a collection of python wrappers for not-python methods
            (f.e. http rest methods).
            Main purpose is to make these methods console-friendly.

Console-related sub-modules:
it      - ready-to-use gadgets to be used in interactive python console
console - tools for creation of applications based on python console
hdoc    - implementation of 'h' and 'll' methods to be used in console

"""
