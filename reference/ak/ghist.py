"""Tool for creating commits history from several git repos."""


from datetime import datetime
import logging
from pathlib import Path
import re
import threading
from typing import Iterator

from ak.color import CHText, Palette, ConfColor
from ak.ppobj import PPObj
from ak.utils import Timer, Comparable, compare_dictionaries


try:
    from git import Repo, SymbolicReference
except ImportError:
    # git module is required 'in production'
    # but to run unittests the following dummies should be enough

    class Repo:
        """Dummy git.Repo (to run unittests w/o actual git package)."""
        def __init__(self, repo_path):
            raise Exception(
                "Looks like 'git' package is not installed. "
                "It is required to use 'ak.ghist' module. "
                "Check README for installation instructions."
            )


    SymbolicReference = None


logger = logging.getLogger(__name__)


# if head commit of some branch is older than latest report-related
# commit by that time - consider it obsolete and do not report
_OBSOLETE_BRANCH_CUTOFF_PERIOD = 86400 * 30


# ignore a component if oldest report-related build in this component
# is older than current commit by that time.
# (this constant could have been zero - there were no report-related commits
# of this component at the time of current commit. But let's allow for
# incorrectly configured time)
_CHECK_COMPONENTS_CUTOFF_PERIOD = 86400


#########################
# RGraph - Reduced Commits Graph
#
# Graph which contains only report-related commits and preserves structure
# of commits graph in git repository

class RCommit:
    """Commit to be included into report (aka report-related commit)

    Element of RGraph - graph of report-related commits. Contains branch-independent
    information about a commit (check description of RGraph and RBuild for more
    information)

    Commit may be related to current report in several cases:
    - it explicitely mentions the report topic (like bug number)
    - commit includes bumps of sub-projects versions (if these new versions
      contain other report-related commits)
    - a build was created from this commit, this build contains some
      other commits

    RCommit object is an element of Reduced Commits Graph - structure of this
    graph is induced by structure of commits graph in original git repository.
    """
    def __init__(self, commit, parents, is_explicit, build_nums, iid=None):
        self.iid = iid
        self.commit = commit  # git.Commit
        self.parents = parents  # [RCommit, ]
        self.is_explicit = is_explicit  # commit is explicitely related to report

        # Following attributes may be not initialized in case they are not
        # required for report
        self.build_nums = build_nums  # [BuildNumData, ]
        self.build_num = build_nums[0] if build_nums else None  # smallest, if any

    def __str__(self):
        t = ""
        t += "e" if self.is_explicit else "."
        t += "b" if self.build_num else "."
        hexsha = self.commit.hexsha[:11]
        author = self.commit.author.name
        message = self.commit.message.split('\n')[0].strip()
        build_num = f" |{self.build_num}|" if self.build_num else ""
        return f"<{self.iid}: {t}: {hexsha} {author} {message}{build_num}>"

    def __repr__(self):
        return str(self)


class ComponentBump:
    """Info about change of component version in some commit.

    Note:
    1. It should always be possible to tell exactly what is the version of a
    component in our commit. But there may be more (or less) than one parent
    commits, so 'to_buildnum' can contains only one BuildNumData, but
    'from_build_nums' is a list.

    2. in order to decide if the bump of component is relevant for a report it
    is necessary to understand if the new version of component contains any
    report-related commits. So this object contains information not only about
    new and previous versions of component, but also about latest report-related
    build corresponding to these versions.
    """

    __slots__ = 'from_build_nums', 'to_buildnum', 'from_rbuilds', 'to_rbuild'

    def __init__(
            self,
            from_build_nums, to_buildnum,
            from_rbuilds, to_rbuild,
    ):
        """Construct ComponentBump - info about bump of a component version

        Arguments:
        - from_build_nums: [BuildNumData, ]
        - to_buildnum: optional BuildNumData
        - from_rbuilds: idmap of RBuild's
        - to_rbuild: optional RBuild
        """
        self.from_build_nums = from_build_nums
        self.to_buildnum = to_buildnum
        self.from_rbuilds = from_rbuilds
        self.to_rbuild = to_rbuild

    def is_trivial(self):
        """Check if this change of version component is significant for report."""
        if self.to_rbuild is None:
            if self.from_rbuilds:
                # unusual situation: this component was present in parent builds
                # but is not present in this project's repo any more
                # assert False
                return False
            return True
        return self.to_rbuild.iid in self.from_rbuilds

    def get_rbuilds_in_bump(self):
        """Get {idd: RBuild} - all RBuild's included into this bump.

        For example, this ComponentBump states that compenent version changed
        from 1.1.5 to 1.1.10 since last build. But versions 1.1.7 and 1.1.8 are
        also report-related. In this case this method will return component
        RBuild's corresponding to 1.1.5, 1.1.7 and 1.1.8. All this versions
        of component were included into the same build of parent repo.
        """
        if self.to_rbuild is None:
            return {}
        # DFS rbuilds in the component
        dfs_stack = [[self.to_rbuild]]
        dfs_sp = [0]
        result_rbuilds = {}
        while dfs_stack:
            cur_sp = dfs_sp[-1]
            if cur_sp < 0:
                # all commits on top level processed.
                # finish processing commit on previous level
                dfs_stack.pop()
                dfs_sp.pop()
                if not dfs_stack:
                    # DFS completed
                    break
                cur_sp = dfs_sp[-1]
                cur_rbuild = dfs_stack[-1][cur_sp]

                result_rbuilds[cur_rbuild.iid] = cur_rbuild
                dfs_sp[-1] = cur_sp - 1
                continue

            cur_rbuild = dfs_stack[-1][cur_sp]

            if cur_rbuild.iid in self.from_rbuilds:
                # do not go deeper
                dfs_sp[-1] = cur_sp - 1
                continue

            # need to go deeper to analize cur_commit
            parents = sorted(
                cur_rbuild.parent_rbuilds.values(),
                key=lambda rb: rb.iid)
            dfs_stack.append(parents)
            dfs_sp.append(len(parents) - 1)

        return result_rbuilds

    def __str__(self):
        is_triv = "(t) " if self.is_trivial() else ""
        to_rbuild_descr = (
            "--" if self.to_rbuild is None
            else f"{self.to_rbuild.iid}.{self.to_rbuild}"
        )
        return (
            f"bump {self.to_buildnum}{is_triv} <- {self.from_build_nums} "
            f"({to_rbuild_descr} <- {self.from_rbuilds})")

    def __repr__(self):
        return str(self)


class BranchName(Comparable):
    """Branch name with smart sorting rules."""

    __slots__ = 'name', '_sort_items'

    def __init__(self, branch_name, sort_prefix=None):
        """BranchName constructor.

        Arguments:
        - branch_name: string, for eample "origin/release/10.250"
        - sort_prefix: optional list of items, which affect sorting rules (*)

        (*) For example, branch_name "origin/release/10.250" is transformed
        to sorting items ["origin", "release", 10, 250]. If sort_prefix=["zzz"]
        is specified, sorting items will be ["zzz", "origin", "release", 10, 250]
        """
        self.name = branch_name
        self._sort_items = list(self._mk_sort_items(self.name))
        if sort_prefix is not None:
            self._sort_items = sort_prefix + self._sort_items

    @staticmethod
    def _mk_sort_items(str_val):
        # branch_name -> tuple of strings and integers (to be used for sorting):
        # "release/ABA12.5U1" -> ("release", "ABA", 12, "5U1")
        s = str_val.replace(
            '/', ' ').replace('.', ' ').replace('-', ' ').replace('_', ' ')
        chunks = s.split()
        for strvalue in chunks:
            try:
                ivalue = int(strvalue)
                yield ivalue
            except ValueError:
                yield strvalue

    def cmp(self, other) -> int:
        """Compare branch names according to sorting rules.

        Return 0 if branch names are equal, positive number if self is 'bigger'
        and negative number otherwise.
        """
        def _cmp_sort_items(item_0, item_1):
            is_int_0 = isinstance(item_0, int)
            is_int_1 = isinstance(item_1, int)
            if is_int_0 and is_int_1:
                return item_0 - item_1
            if is_int_0:  # other is not int
                return -1  # string is always bigger
            if is_int_1:  # self must be not int
                return 1
            # both are strings
            if item_0 > item_1:
                return 1
            if item_0 < item_1:
                return -1
            return 0

        for item, other_item in zip(self._sort_items, other._sort_items):
            result = _cmp_sort_items(item, other_item)
            if result != 0:
                return result

        return len(self._sort_items) - len(other._sort_items)


class BuildNumData(Comparable):
    """Information about build number.

    Purpose of objects of this class is to keep (possibly incomplete) information
    related to build number.
    """
    __slots__ = 'major', 'minor', 'patch', 'build', 'branch_str', 'version_name'

    def __init__(
            self, major, minor, patch, *,
            build=None, branch_str=None, version_name=None):
        """Construct BuildNumData.

        Arguments:
        - major, minor, patch: integers, standard parts of build number
        - build: if not specified it is considered equal to patch.
            Build numbers "10.20.30-30" and "10.20.30" are considered identical.
        - branch_str: optional name of branch from where the build was created
        - version_name: optional name of version. If specified, the build number
            would look like "C22.10-4.5.71".
        """
        self.major = major
        self.minor = minor
        self.patch = patch
        self.build = build if build is not None else self.patch
        self.branch_str = branch_str
        self.version_name = version_name

    @classmethod
    def mk_fake_not_built(cls):
        """Make predefined number for fake "not-yet-built" build."""
        return cls(8888, 8888, 8888)

    @classmethod
    def mk_fake_not_merged(cls):
        """Make predefined number for fake "not-yet-merged" build."""
        return cls(9999, 9999, 9999)

    def is_fake_not_built(self):
        """Check if build number corresponds to fake 'not-yet-built' build."""
        return all(x == 8888 for x in (self.major, self.minor, self.patch))

    def is_fake_not_merged(self):
        """Check if build number corresponds to fake 'not-yet-merged' build."""
        return all(x == 9999 for x in (self.major, self.minor, self.patch))

    def __str__(self):
        v_name = "" if self.version_name is None else f"{self.version_name}-"
        if self.patch == self.build:
            return v_name + f"{self.major}.{self.minor}.{self.patch}"
        else:
            return v_name + f"{self.major}.{self.minor}.{self.patch}-{self.build}"

    def __repr__(self):
        return self.__str__()

    def cmp(self, other):
        def _cmp_opt_ints(item_0, item_1):
            is_int_0 = isinstance(item_0, int)
            is_int_1 = isinstance(item_1, int)
            if is_int_0 and is_int_1:
                return item_0 - item_1
            if is_int_0:  # other is not int
                return -1  # None is always bigger
            if is_int_1:  # self must be not int
                return 1
            # both are None
            return 0
        r = _cmp_opt_ints(self.major, other.major)
        if r:
            return r
        r = _cmp_opt_ints(self.minor, other.minor)
        if r:
            return r
        r = _cmp_opt_ints(self.patch, other.patch)
        if r:
            return r
        r = _cmp_opt_ints(self.build, other.build)
        return r

    def is_finalized(self):
        return all(
            v is not None
            for v in [self.major, self.minor, self.patch, self.build])

    def as_tuple(self):
        return (self.major, self.minor, self.patch, self.build)


class RBuild:
    """Info about build and RCommit's included into it.

    RBuild object can be 'fake' and correspond to set of commits not
    included into any build yet.
    """
    NORMAL, FAKE_NOT_BUILT, FAKE_NOT_MERGED = 0, 1, 2

    def __init__(self, rcommit, parent_rbuilds, rcommits, bumps, *, build_type=NORMAL):
        """RBuild - elements of Reduced Commits Graph included in a build

        Arguments:
        - rcommit: RCommit from which a project was build. Can be None
            in case of fake(*) RBuild.
        - parent_rbuilds - map of parent RBuild's. Usually there is one such parent
            (the previous build), but there may be several (in different
            sub-branches)
        - rcommits: {iid: RCommit} - new RCommit's included into this build (that
            is not included into any of previous builds).
        - bumps: {cmpnt_name: ComponentBump}
        - build_type: optional, should be specified for fake(*) builds.

        (*) fake RBuild. objects correspond to sets of commits not included
        into any build yet
        """
        assert build_type in [self.NORMAL, self.FAKE_NOT_BUILT, self.FAKE_NOT_MERGED]
        if rcommit is None:
            assert build_type != self.NORMAL
        else:
            assert build_type == self.NORMAL
            # commit marked as build is included into this build
            rcommits[rcommit.iid] = rcommit

        # internal integer id. If self is normal build it
        # corresponds to some RCommit and in this case it has same iid.
        self.iid = None

        self.build_type = build_type
        if rcommit is not None:
            self.build_num = rcommit.build_num
        elif build_type == self.FAKE_NOT_MERGED:
            self.build_num = BuildNumData.mk_fake_not_merged()
        else:
            assert False
        self.rcommit = rcommit  # RCommit
        self.parent_rbuilds = parent_rbuilds  # {iid: RBuild}
        self.bumps = bumps  # {repo_id: ComponentBump}
        self.rcommits = rcommits  # {iid: RCommit} - new RCommit's in this build

        # contains info about builds of parent component where this rbuild was
        # included into.
        # populated by parent components when they are parsed
        self.included_at = []  # [(repo_id, BranchName, BuildNumData), ]

    def __str__(self):
        return f"RBuild<{self.build_num}; {len(self.rcommits)} commits>"

    def __repr__(self):
        return str(self)

    def get_printable_rcommits(self):
        """Return properly sorted list of RCommit's to be printed in report."""
        return [
            rcommit
            for rcommit in sorted(self.rcommits.values(), key=lambda c: -c.iid)
            if rcommit.is_explicit]


class RBranch:
    """Info about report-related commits in some branch"""

    __slots__ = 'branch_name', 'rheads', 'rbuilds'

    def __init__(self, branch_name, rheads, rbuilds):
        """RBranch constructor.

        Arguments:
        - branch_name: str, for example 'release/10.240'
        - rheads: [RCommit, ]. Subgraph of git commits in a branch has a single
            head. But sub-set of commits selected for report may have not a
            single head.
        - rbuilds: id-map of RBuild's - builds in this branch
        """
        self.branch_name = branch_name
        self.rheads = rheads  # [RCommit, ] - heads or reduced graph in this branch
        self.rbuilds = rbuilds  # {iid: RBuild}

    def get_latest_rbuild(self):
        if not self.rbuilds:
            return None
        return self.rbuilds[max(self.rbuilds.keys())]

    def get_rbuilds_list(self):
        """Get sorted list of RBuild's in this branch.

        RBuild's a sorted, latest is the first.
        """
        return [
            self.rbuilds[iid]
            for iid in sorted(self.rbuilds.keys(), reverse=True)]

    def __str__(self):
        return f"RBranch<{self.branch_name}>"

    def __repr__(self):
        return str(self)


class RGraph:
    """Reduced Commits Graph.

    Graph of selected commits (f.e. commits to be included into a report).
    All commits correspond to a single git.Repo.
    Structure of graph is induced by the structure of commits graph
    of the original repo.
    """
    __slots__ = (
        'repo',
        'rcommits', '_rcommits_counter',
        'brcommits', '_brcommits_counter',
        'branches',
        'bn_map', 'min_rbuild_timestamp',
    )

    class _RepoParserCache:
        # container of misc caches used during git commits graph parsing
        __slots__ = (
            'done_commits', 'visited_commits', 'selected_commits', 'prev_branches_builds',
            'builds_detector', 'branches_refs_map', 'components_versions_cache')

        def __init__(
                self, builds_detector, branches_refs_map, components_versions_cache
        ):
            self.done_commits = set()  # {hexsha} - irrelevant (with all parents)
            self.visited_commits = {}  # {hexsha: [RCommit, ]}
            self.selected_commits = {}  # {hexsha: RCommit}
            self.prev_branches_builds = {}  # {iid: RBuild}
            self.builds_detector = builds_detector
            self.branches_refs_map = branches_refs_map
            self.components_versions_cache = components_versions_cache

    class _RepoParserPerBranchCache:
        # caches relavant during parsing of a single branch
        __slots__ = 'rcommits_bparents', 'rbuilds_ancestors'

        def __init__(self):
            self.rcommits_bparents = {}  # {RCommit.iid: RBuild's idmap}
            self.rbuilds_ancestors = {}  # {RBuild.iid: RBuild's idmap}

    class _NodeAccumdat:
        # commit information accumulated while parsing of commit's graph
        __slots__ = 'commit', 'selected_explicitely', 'relevant_cmpnts', 'rc_parents'

        def __init__(self, commit, selected_explicitely, relevant_cmpnts):
            self.commit = commit  # git.commit
            self.selected_explicitely = selected_explicitely
            self.relevant_cmpnts = relevant_cmpnts  # {repo_id, }
            self.rc_parents = []

        def __str__(self):
            return f"_NodeAccumdat({self.commit}, selected: {self.selected_explicitely})"

    class _ComponentVersionsMap:
        # info about report-related versions of component repo
        __slots__ = 'bn_map', 'cutoff_ts'

        def __init__(self, bn_map, cutoff_ts):
            self.bn_map = bn_map  # {(major, minor, patch, build): (RBranch, RBuild)}
            self.cutoff_ts = cutoff_ts  # skip checks for older commits

    def __init__(self, repo, search_predicate, cmpnts_rgraphs):
        """Construct RGraph

        Arguments:
        - repo: ProjectRepo
        - search_predicate: callable, which checks if commit should
            be selected (*). Most common ctiterion is "check if commit
            message contains some text".
        - cmpnts_rgraphs: {cmpnt_name: RGraph}

        Result graph may contain not only explicitely selected by
        'search_predicate'. For example commits corresponding to builds
        may also be included into result graph.
        """
        self.repo = repo  # ProjectRepo
        self.rcommits = {}  # {iid: RCommit} - map of all RCommit's in graph
        self._rcommits_counter = 0
        self.brcommits = {}  # {iid: RBuild} - all build commits
        # RBuild are registered with the same id's as corresponding RCommit's
        # Fake RBuild do not correspond to any RCommit, so they are registered
        # with id's which would not conflict with rcommits ids
        self._brcommits_counter = 1_000_000_000

        # get release branches
        branches_data = list(self.repo.iter_release_branches())
        branches_data.sort(key=lambda item: item[2])

        self.branches = []  # [RBranch, ] - sorted, contains info about
                            # report related commits in specific branches.
                            # (Last element corresponds to 'master' branch)

        with Timer(f"init {self.repo.repo_id} repo caches", log_method=logger.debug):
            cache = self._RepoParserCache(
                self.repo.make_builds_detector(),
                self.repo.make_branch_refs_map(),
                self.repo._mk_components_versions_cache(),
            )

        components_versions_maps = {
            cmpnt_repo_id: self._ComponentVersionsMap(
                cmpnt_rgraph.bn_map,
                cmpnt_rgraph.min_rbuild_timestamp - _CHECK_COMPONENTS_CUTOFF_PERIOD)
            for cmpnt_repo_id, cmpnt_rgraph in cmpnts_rgraphs.items()
            if cmpnt_rgraph.bn_map
        }

        # info about all builds which include any of report-related commits
        self.bn_map = {}  # {(major, minor, patch, build): (RBranch, RBuild)}
        self.min_rbuild_timestamp = None

        for ref_name, branch_name, _ in branches_data:
            prev_branch = self.branches[-1] if self.branches else None
            br_head = self.repo.repo.commit(
                cache.branches_refs_map[ref_name])
            if self.min_rbuild_timestamp is not None:
                if self.min_rbuild_timestamp > (
                    br_head.committed_date + _OBSOLETE_BRANCH_CUTOFF_PERIOD
                ):
                    # looks like this branch is very old and is not relevant any more
                    continue
            with Timer(f"read branch {self.repo.repo_id} {branch_name}",
                       report_start=True, log_method=logger.debug):
                rbranch, branch_bn_map = self._read_branch(
                    branch_name, ref_name, search_predicate,
                    prev_branch,
                    components_versions_maps,
                    cache)
            self.branches.append(rbranch)
            for k, rbuild in branch_bn_map.items():
                ts = rbuild.rcommit.commit.committed_date
                self.min_rbuild_timestamp = (
                    ts if self.min_rbuild_timestamp is None
                    else min(ts, self.min_rbuild_timestamp))
                self.bn_map[k] = (rbranch, rbuild)

        self.branches = [
            br
            for br in self.branches[::-1]  # reverse, so that 'master' is first
            if br.rbuilds  # skip branches if there is nothing to report in them
        ]

        # register 'included_at' buildnumbers in components
        for my_rbranch in self.branches:
            my_rbuilds = my_rbranch.get_rbuilds_list()
            my_rbuilds.reverse()
            for cmpnt_name, cmpnt_rgraph in cmpnts_rgraphs.items():
                for my_rbuild in my_rbuilds:
                    if my_rbuild.build_num.is_fake_not_merged():
                        continue
                    cmpnt_bump = my_rbuild.bumps.get(cmpnt_name)
                    if cmpnt_bump is None:
                        continue
                    # do register my_rbuild in component's rbuilds.
                    # This means: component build was included into this
                    # build of parent (my_rbuild)
                    inculed_into = (
                        self.repo.repo_id,
                        my_rbranch.branch_name,
                        my_rbuild.rcommit.build_num,
                    )
                    for cmpnt_rbuild in cmpnt_bump.get_rbuilds_in_bump().values():
                        cmpnt_rbuild.included_at.append(inculed_into)

    def __str__(self):
        return f"RGraph of {self.repo}"

    def __repr__(self):
        return str(self)

    def get_rbranches_by_name(self):
        """RBranch'es having any report-related data: {branch_name: RBranch}."""
        return {rbranch.branch_name: rbranch for rbranch in self.branches}

    def _read_branch(
            self, branch_name, ref_name,
            search_predicate, prev_branch,
            components_versions_maps,  # {repo_id: _ComponentVersionsMap}
            repo_cache,
    ):
        # Reduce graph of git.commit corresponding to a specified branch
        # to a graph of RCommit objects - which contains only report-related
        # commits and has structure induced by original graph.
        #
        # main parsing method
        #
        # Returns
        # - RBranch
        # - bn_map: {(major, minor, patch, build) -> RBuild}

        bn_map = {}
        cur_branch_rbuilds = {}  # idmap of RBuild objects in current branch

        # caches relevant during parsing of a single branch only
        br_cache = self._RepoParserPerBranchCache()

        # ==== init DFS ======================================
        head_commit = self.repo.repo.commit(repo_cache.branches_refs_map[ref_name])

        head_relevant_components_candidates = self._get_relevant_cmpnts_names(
            head_commit.committed_date,
            components_versions_maps.keys(), components_versions_maps,
        )

        # dfs_accumdata contains data accumulated for current commit.
        # dfs_accumdata[i] corresponds to one of commits at level i-1
        # So, dfs_accumdata[0] does not correspond to any commit and will
        # contain final results of the search.
        #
        #  -- dfs_stack structure:
        #                                     commit
        #                                     commit      commit<-   commit
        #                                     commit<-    commit     commit<-
        #                    head_commit<-    commit      commit     commit
        #
        #  -- dfs_accumdata:
        #  result_accumdat   accumdat         accumdat    accumdat
        dfs_stack = [(head_commit, )]
        dfs_sp = [0]  # pointers to commits in current path in dfs_stack
        dfs_accumdata = [
            self._NodeAccumdat(None, False, head_relevant_components_candidates), ]

        # ==== DFS loop ======================================
        while dfs_stack:
            cur_sp = dfs_sp[-1]
            if cur_sp < 0:
                # all commits on top level are processed.
                # finish processing current commit on previous level
                dfs_stack.pop()
                dfs_sp.pop()
                if not dfs_stack:
                    # DFS completed.
                    assert len(dfs_accumdata) == 1  # final results of DFS
                    break
                cur_accumdat = dfs_accumdata.pop()

                cur_commit = dfs_stack[-1][dfs_sp[-1]]
                comm_hex = cur_commit.hexsha

                # ==== create RCommit's from accumdat ========
                new_rcommit, new_rbuild, buildnums, parent_rbuilds = self._mk_rcommits(
                    cur_accumdat,
                    components_versions_maps, repo_cache, br_cache,
                    is_head_commit=cur_accumdat.commit.hexsha == head_commit.hexsha,
                )
                if new_rbuild is not None:
                    logger.debug("RBuild: %s", new_rbuild)

                # ==== register RCommit in misc caches =======
                if new_rcommit is None:
                    # this commit itsef will not be included into report...
                    assert comm_hex not in repo_cache.done_commits
                    assert comm_hex not in repo_cache.visited_commits
                    assert comm_hex not in repo_cache.selected_commits
                    if not cur_accumdat.rc_parents:
                        # ... and no parents of it. Never again look into it's subgraph
                        repo_cache.done_commits.add(comm_hex)
                    else:
                        # ... but some parents are. Need to remember them
                        repo_cache.visited_commits[comm_hex] = cur_accumdat.rc_parents
                else:
                    # this commit is selected for report
                    repo_cache.selected_commits[comm_hex] = new_rcommit

                if new_rbuild is not None:
                    # collect all RBuild ancestors of a new RBuild
                    newbuild_ancestors = {}
                    for parent in new_rbuild.parent_rbuilds.values():
                        newbuild_ancestors[parent.iid] = parent
                        newbuild_ancestors.update(
                            br_cache.rbuilds_ancestors[parent.iid])
                    br_cache.rbuilds_ancestors[new_rbuild.iid] = newbuild_ancestors
                    cur_branch_rbuilds[new_rbuild.iid] = new_rbuild

                # update bn_map
                if buildnums:
                    if new_rbuild is None:
                        for rbuild in parent_rbuilds.values():
                            for bn in buildnums:
                                bn_map[bn.as_tuple()] = rbuild
                    else:
                        for bn in buildnums:
                            bn_map[bn.as_tuple()] = new_rbuild

                continue
            # process commit on top of stack
            # cases when there is already enough info about current commit, so
            # that there is no need to go deeper
            cur_commit = dfs_stack[-1][cur_sp]
            prev_accumdat = dfs_accumdata[-1]
            comm_hex = cur_commit.hexsha
            if comm_hex in repo_cache.done_commits:
                dfs_sp[-1] -= 1
                continue
            if comm_hex in repo_cache.visited_commits:
                for rc in repo_cache.visited_commits[comm_hex]:
                    if rc not in prev_accumdat.rc_parents:
                        prev_accumdat.rc_parents.append(rc)
                dfs_sp[-1] -= 1
                continue
            if comm_hex in repo_cache.selected_commits:
                if comm_hex not in prev_accumdat.rc_parents:
                    prev_accumdat.rc_parents.append(repo_cache.selected_commits[comm_hex])
                dfs_sp[-1] -= 1
                continue

            # ==== DFS - go deeper ===========================
            dfs_stack.append(cur_commit.parents)
            dfs_sp.append(len(cur_commit.parents) - 1)

            new_accumdat = self._NodeAccumdat(
                cur_commit, search_predicate(cur_commit),
                self._get_relevant_cmpnts_names(
                    cur_commit.committed_date,
                    prev_accumdat.relevant_cmpnts,
                    components_versions_maps),
            )
            dfs_accumdata.append(new_accumdat)

        # ==== end of DFS ====================================

        assert len(dfs_accumdata) == 1
        result_accumdata = dfs_accumdata.pop()
        assert result_accumdata.commit is None

        # ==== prepare fake "not-merged-yet" build info ======
        all_commits_prev_branch = {
            iid: commit
            for rbuild in prev_branch.rbuilds.values()
            for iid, commit in rbuild.rcommits.items()
        } if prev_branch is not None else {}
        if prev_branch is not None:
            # the head of the previous branch may belong to one of the even
            # earlier branches. Commits reachable from it are not included
            # into builds of the previous branch, but still are candidates
            visited = set()
            rc_stack = list(prev_branch.rheads)
            while rc_stack:
                rc = rc_stack.pop()
                if rc.iid not in visited:
                    visited.add(rc.iid)
                    all_commits_prev_branch.setdefault(rc.iid, rc)
                    rc_stack.extend(rc.parents)

        all_commits_in_this_branch = {
            iid
            for rbuild in cur_branch_rbuilds.values()
            for iid in rbuild.rcommits.keys()
        }

        # commits reachable from the head of this branch. Not all of them
        # are included into builds of this branch: the head itself may belong
        # to one of the previous branches, such commits are not 'not merged'
        reachable_from_head = set()
        rc_stack = list(result_accumdata.rc_parents)
        while rc_stack:
            rc = rc_stack.pop()
            if rc.iid not in reachable_from_head:
                reachable_from_head.add(rc.iid)
                rc_stack.extend(rc.parents)

        not_merged_rcommits = {
            iid: rcommit
            for iid, rcommit in all_commits_prev_branch.items()
            if rcommit.is_explicit
            and iid not in all_commits_in_this_branch
            and iid not in reachable_from_head
        }

        # Get info about latest build in current branch - it will be a parent build
        # for the 'not-yet-merged' fake build.
        # Usually a build may have several parent builds, but in this case
        # only one is possible.
        # If there are several parent builds (created in different sub-branches), then
        # a fake 'not-yet-built' build would have been created based on head commit of
        # the branch.
        parent_rbuilds = {}
        if cur_branch_rbuilds:
            last_rbuild_iid = max(cur_branch_rbuilds.keys())
            parent_rbuilds[last_rbuild_iid] = cur_branch_rbuilds[last_rbuild_iid]
        assert len(parent_rbuilds) <= 1

        pending_cmpnts_bumps = {}  # {cmpnt_name: fake ComponentBump which
                                   # indicates new report-related builds of
                                   # the component}
        if cur_branch_rbuilds:
            latest_rbuild = cur_branch_rbuilds[max(cur_branch_rbuilds.keys())]
            for repo_id in latest_rbuild.bumps:
                cmpnt_prev_bump = latest_rbuild.bumps[repo_id]
                cmpnt_incl_rbuild = cmpnt_prev_bump.to_rbuild
                if cmpnt_incl_rbuild is None:
                    continue
                cmpnt_incl_buildnum = cmpnt_prev_bump.to_buildnum
                cmpnt_rbranch, _ = components_versions_maps[repo_id].bn_map[
                    cmpnt_incl_rbuild.build_num.as_tuple()]
                latest_cmpnt_rbuild = cmpnt_rbranch.get_latest_rbuild()
                bump = ComponentBump(
                    [cmpnt_incl_buildnum], latest_cmpnt_rbuild.build_num,
                    {cmpnt_incl_rbuild.iid: cmpnt_incl_rbuild}, latest_cmpnt_rbuild)
                if not bump.is_trivial():
                    pending_cmpnts_bumps[repo_id] = bump

        if not_merged_rcommits or pending_cmpnts_bumps:
            rbuild = RBuild(
                None, parent_rbuilds, not_merged_rcommits, pending_cmpnts_bumps,
                build_type=RBuild.FAKE_NOT_MERGED)
            rbuild.iid = self._brcommits_counter
            self._brcommits_counter += 1
            cur_branch_rbuilds[rbuild.iid] = rbuild
        # ==== done with fake "not-merged-yet" build info ====

        branch_rcommits = RBranch(
            branch_name, result_accumdata.rc_parents, cur_branch_rbuilds)

        repo_cache.prev_branches_builds.update(br_cache.rbuilds_ancestors)

        return branch_rcommits, bn_map

    def _mk_rcommits(
            self, accumdat, components_versions_maps, repo_cache, br_cache, *,
            is_head_commit,
    ):
        # create RCommit and RBuild objects from data accumulated from
        # git commits graph (if necessary)
        #
        # Method also returns info about buildnums and parent rbuilds - may
        # be useful even if RCommit and RBuild objects are not created.

        buildnums = None
        parent_rbuilds = None

        if not (accumdat.selected_explicitely
               or accumdat.relevant_cmpnts or accumdat.rc_parents):
            # this commit is definitely not interesting for the report
            return None, None, buildnums, parent_rbuilds

        is_build_commit = repo_cache.builds_detector.is_build_commit(accumdat.commit)
        # even if the commit is build-commit, it still may be not relevant for
        # report. Check if it relevant
        if is_build_commit or is_head_commit:
            rcommits_in_build, parent_rbuilds = self._find_new_rcommits_in_build(
                accumdat.rc_parents,
                br_cache.rcommits_bparents,
                br_cache.rbuilds_ancestors,
                repo_cache.prev_branches_builds,
            )
            contains_new_commits = accumdat.selected_explicitely or rcommits_in_build
            buildnums = repo_cache.builds_detector.get_builds_numbers(accumdat.commit)
            if is_head_commit and not buildnums:
                buildnums = [BuildNumData.mk_fake_not_built(), ]
            components_bumps = self._mk_bumps_info(
                accumdat.commit, accumdat.relevant_cmpnts, parent_rbuilds,
                components_versions_maps,
                repo_cache.components_versions_cache,
            )  # {repo_id: ComponentBump}

            non_trivial_bumps_present = any(
                not bump.is_trivial()
                for bump in components_bumps.values()
            )

            # build commit is relevant for report in three cases:
            is_rbuild = (
                # 1. it contains any new report-related commits
                contains_new_commits
                # 2. it contains bumps of relevant components
                or non_trivial_bumps_present
                # 3. there are several previous relevant builds - that means
                # relevant sub-branches are now merged. Each commit included into
                # this build is included into at least one of previous builds,
                # but only this build includes all of them together.
                or len(parent_rbuilds) > 1
            )
        else:
            # this info is not included into info about not-build commits
            rcommits_in_build, parent_rbuilds = None, None
            buildnums = []
            components_bumps = None
            is_rbuild = False

        is_rcommit = accumdat.selected_explicitely or is_rbuild

        if is_rcommit:
            new_rcommit = RCommit(
                accumdat.commit, accumdat.rc_parents,
                accumdat.selected_explicitely,
                buildnums)
            new_rcommit.iid = self._rcommits_counter
            self.rcommits[new_rcommit.iid] = new_rcommit
            self._rcommits_counter += 1
        else:
            new_rcommit = None

        if is_rbuild:
            assert new_rcommit is not None
            assert buildnums is not None
            if accumdat.selected_explicitely:
                rcommits_in_build[new_rcommit.iid] = new_rcommit
            new_rbuild = RBuild(
                new_rcommit, parent_rbuilds, rcommits_in_build, components_bumps)
            new_rbuild.iid = new_rcommit.iid
            self.brcommits[new_rbuild.iid] = new_rbuild
        else:
            new_rbuild = None

        return new_rcommit, new_rbuild, buildnums, parent_rbuilds

    def _find_new_rcommits_in_build(
            self,
            heads,  # [RCommit, ] - heads of the part of RCommit's graph to analize
            rcommits_bparents,  # {RCommit.iid: {RBuild.iid: RBuild}}
            rbuilds_ancestors,  # {RBuild.iid: {RBuild.iid: RBuild}}
            prev_branches_builds,  # idmap of all RBuild's in previous branches
    ):
        # Helper method for parsing already created part of RCommit's graph.
        # Find RCommit's not included into any builds yet, and latest RBuild's
        #
        # Method returns:
        # - {RCommit.iid: RCommit}: idmap of RCommit's not included into builds yet
        # - {RBuild.iid: RBuild}: idmap of 'latest' RBuild's
        new_rcommits = {}
        head_rbuilds = {}

        _is_cur_branch_build_iid = lambda iid: (
            iid in self.brcommits and iid not in prev_branches_builds)

        # DFS on already created part of RCommit's graph
        class _FakeRootRCommit:
            def __init__(self, parents):
                self.parents = parents

        fake_root = _FakeRootRCommit(heads)
        dfs_stack = [fake_root, ]
        dfs_sp = [len(fake_root.parents) - 1, ]  # stack path pointers

        while dfs_stack:
            cur_sp = dfs_sp[-1]
            if cur_sp >= 0:
                cur_commit = dfs_stack[-1].parents[cur_sp]
                if _is_cur_branch_build_iid(cur_commit.iid):
                    # this parent is build commit itself
                    dfs_sp[-1] -= 1
                    continue
                if cur_commit.iid in rcommits_bparents:
                    # we already know build parents of this commit
                    dfs_sp[-1] -= 1
                    continue
                # still not enough info about cur_commit. Need to analize parents
                dfs_stack.append(cur_commit)
                dfs_sp.append(len(cur_commit.parents) - 1)
                continue

            # done processing parents of some rcommit. Analyse this commit itself
            assert cur_sp < 0

            dfs_sp.pop()
            cur_commit = dfs_stack.pop()

            def _iter_parent_rbuilds():
                # get all parent RBuild's of all parent commits of cur_commit
                for parent in cur_commit.parents:
                    # every parent of cur_commit is either a build commit, or
                    # a usual commit (whose build parents we already know)
                    if _is_cur_branch_build_iid(parent.iid):
                        yield self.brcommits[parent.iid]
                    else:
                        assert parent.iid in rcommits_bparents
                        yield from rcommits_bparents[parent.iid].values()

            parent_rbuilds = {rbuild.iid: rbuild for rbuild in _iter_parent_rbuilds()}

            # parent_rbuilds may contain unnecessary items. Some build commits
            # may be already included into other build commits
            while True:
                extra_bcs = {
                    iid
                    for iid in parent_rbuilds.keys()
                    if any(
                        iid in rbuilds_ancestors[bc_iid]
                        for bc_iid in parent_rbuilds.keys()
                    )
                }
                if not extra_bcs:
                    break
                for iid in extra_bcs:
                    parent_rbuilds.pop(iid)

            # final minor optimisation: reuse map object if possible
            for parent in cur_commit.parents:
                if parent.iid in rcommits_bparents:
                    if parent_rbuilds == rcommits_bparents[parent.iid]:
                        parent_rbuilds = rcommits_bparents[parent.iid]
                        break

            if dfs_stack:
                # this is not a fake root yet
                rcommits_bparents[cur_commit.iid] = parent_rbuilds
                if cur_commit.is_explicit:
                    # otherwise cur_commit is included in RGraph only because it
                    # to a build from previous branch. There is no need to report
                    # this commit in builds of current branch
                    new_rcommits[cur_commit.iid] = cur_commit
            else:
                assert isinstance(cur_commit, _FakeRootRCommit)
                head_rbuilds = parent_rbuilds

        return new_rcommits, head_rbuilds

    def _mk_bumps_info(
            self, commit, relevant_components, parent_rbuilds,
            components_versions_maps,
            components_versions_cache,
    ):
        # Returns {repo_id: ComponentBump} - info about report-related bumps
        # of components since previous report related build(s) of current repo

        cur_components_buildnums = self._get_relevant_cmpnts_versions(
            commit, relevant_components,
            components_versions_maps,
            components_versions_cache,
        )  # {repo_id: BuildNumData}

        components_bumps = {}  # {repo_id: ComponentBump}
        for repo_id, cur_component_bn in cur_components_buildnums.items():
            if repo_id not in relevant_components:
                continue

            cur_component_rbuild = None
            if cur_component_bn is not None:
                cmpnt_bn_map = components_versions_maps[repo_id].bn_map
                branch_and_build = cmpnt_bn_map.get(
                    cur_component_bn.as_tuple(), None)
                if branch_and_build is not None:
                    cur_component_rbuild = branch_and_build[1]

            from_builnums = []
            from_rbuilds = {}
            for parent_rbuild in parent_rbuilds.values():
                parent_component_bump = parent_rbuild.bumps.get(repo_id)
                if not parent_component_bump:
                    continue
                from_builnums.append(parent_component_bump.to_buildnum)
                if parent_component_bump.to_rbuild is not None:
                    prev_rbuild = parent_component_bump.to_rbuild
                    from_rbuilds[prev_rbuild.iid] = prev_rbuild
                else:
                    from_rbuilds.update(parent_component_bump.from_rbuilds)

            if cur_component_rbuild is None and from_rbuilds:
                # quite unusual situation: current commit references missing version
                # component. We do not know where this version of component was built
                # from. Let's ignore this version and act as if component version
                # have not changed
                logger.warning(
                    "repo '%s' commit '%s' references unknown version '%s' "
                    "of component '%s'",
                    self.repo.repo_id,
                    commit.hexsha[:11],
                    str(cur_component_bn),
                    repo_id,
                )
                rbuild_id = max(rb.iid for rb in from_rbuilds.values())
                cur_component_rbuild = from_rbuilds[rbuild_id]

            components_bumps[repo_id] = ComponentBump(
                from_builnums, cur_component_bn,
                from_rbuilds, cur_component_rbuild)

        return components_bumps

    def _get_relevant_cmpnts_names(
            self, commit_ts, components_to_check,
            components_versions_maps,  # {repo_id: _ComponentVersionsMap}
    ):
        # get set of names of components which still may be relevant for report
        # (the deeper we go in commit tree the less relevant components remain.
        # Component becomes irrelevant when the earliest rbuild in this
        # component becomes younger than current commit)
        return {
            repo_id
            for repo_id in components_to_check
            if commit_ts > components_versions_maps[repo_id].cutoff_ts
        }

    def _get_relevant_cmpnts_versions(
            self, commit, components_to_check,
            components_versions_maps,  # {repo_id: _ComponentVersionsMap}
            cache,
    ):
        # return {comp_name: optional BuildNumData} for components still
        # relevant for report
        # (component is irrelevant if we are sure that earlier commits do not
        # contain any report-related builds of this component)
        #
        # Note: method may return versions of components not included
        # into components_to_check.
        ret_val = {}
        commit_components_versions = self.repo.get_components_versions(
            commit, components_to_check, cache)
        for comp_name, build_num in commit_components_versions.items():
            if comp_name not in components_versions_maps:
                # repo returned info about some component, but we do not
                # care about this component for some reason
                continue
            cmpnt_vmap = components_versions_maps[comp_name]
            if commit.committed_date < cmpnt_vmap.cutoff_ts:
                continue

            ret_val[comp_name] = build_num

            # not found rbuild usually means that specified version of component
            # does not contain any report-related commits, so it is possible
            # to skip rest of the graph.
            # But it can be wrong in several rare cases (if component version numbers
            # do not grow monotonously in parent repo) - so instead of not reporting
            # this component at all report None ('not found') version
        return ret_val


class GitRepo(Repo):
    """git.Repo with some addtional features."""

    def __init__(self, repo_path):
        """Constructor of GitRepo: git.Repo with a few additional features."""
        super().__init__(repo_path)

    def iter_refs(self, *prefixes):
        """yields (ref_name, optional_hexsha) for all refs having specified prefixes.

        Finding commit associated with ref_obj is very inefficient in GitPython.
        This method can be used to find commits corresponding to a number of
        refs in one run.

        If the yielded optional_hexsha value is None, correct hexsha can be found
        the following way:
        hexsha = SymbolicReference(repo, ref_name).commit.hexsha

        (info about ref can be stored in .git either in one of two locations:
        1. packed-refs file. GitPython is inefficient in this case, but this method
            yields correct hexsha
        2. separate file. This method yileds None in this case, but GitPython can
            be used to get correct value.

        Yielded ref_name's are full, for example:
        - 'refs/remotes/origin/release/abc-7.5'
        - 'refs/tags/build_1128_release_9_60_success'
        """
        for prefix in prefixes:
            assert prefix.startswith("refs/")

        # remove redundant prefixes
        if prefixes:
            prefixes = sorted(prefixes)
            unique_prefixes = [prefixes[0]]
            for p in prefixes[1:]:
                if not p.startswith(unique_prefixes[-1]):
                    unique_prefixes.append(p)
            prefixes = unique_prefixes

        # iter refs on file-system
        fs_ref_names = set()
        for prefix in prefixes:
            for ref_name, _path in self._iter_refs_files(prefix):
                fs_ref_names.add(ref_name)
                yield ref_name, None

        # iter packed-refs
        for ref_name, hexsha in self._iter_packed_refs(prefixes):
            if ref_name in fs_ref_names:
                # packed-refs contains incorrect values of hexsha in case
                # there is a ref file on file-system.
                # do not report such invalid values
                continue
            yield ref_name, hexsha

    def _iter_packed_refs(self, prefixes):
        # yield (ref_name, hexsha) for refs stored in '.git/packed-refs'
        #
        # Note, that haxsha values stored in the packed-refs may be 'incorrect'
        # In case there is a ref file in '.git/refs/...' that file contains
        # correct hexsha value
        if isinstance(prefixes, str):
            prefixes = [prefixes, ]
        packed_refs_path = Path(self.git_dir) / "packed-refs"
        accum_ref_name, accum_hexsha = None, None
        try:
            with open(packed_refs_path) as refs_file:
                for line in refs_file:
                    line = line.strip()
                    if not line:
                        continue
                    if line[0] == '#':
                        # expected very first line to be a comment like this
                        # '# pack-refs with: peeled fully-peeled sorted'
                        if any(s not in line for s in ['# pack-refs', 'peeled']):
                            raise TypeError(
                                f"PackingType of packed-Refs not understood: '{line}'")
                        continue
                    if line[0] == '^':
                        # lines like these in the file mean
                        # fc6e...62 refs/tags/some_tag <- hexsha of tag object
                        # ^27d4...9f                   <- hexsha of the tagged commit
                        # we need to report the hexsha of actual commit
                        if len(line) != 41:
                            raise TypeError(
                                f"unexpected line '{line}' in {packed_refs_path}")
                        if accum_hexsha:
                            accum_hexsha = line[1:]
                        continue
                    hexsha, ref_name = line.split(None, 1)

                    if accum_hexsha:
                        yield accum_ref_name, accum_hexsha
                        accum_ref_name, accum_hexsha = None, None

                    if any(ref_name.startswith(prefix) for prefix in prefixes):
                        accum_ref_name, accum_hexsha = ref_name, hexsha
            if accum_hexsha:
                yield accum_ref_name, accum_hexsha
        except OSError:
            logger.warning("Can't process %s", packed_refs_path)

    def _iter_refs_files(self, prefix):
        # yield (ref_name, path) for refs stored in '.git/refs/' dir of git storage
        git_dir = Path(self.git_dir)
        refs_dir = Path(self.git_dir) / prefix
        for f in refs_dir.glob("**/*"):
            if not f.is_file():
                continue
            ref_name = str(f.relative_to(git_dir))
            yield ref_name, f

    def get_ref_commit(self, ref_name):
        """Get commit corresponding to reference.

        Arguments:
        - ref_name: string, full ref name, f.e. "refs/remote/origin/master"
        """
        return SymbolicReference(self, ref_name).commit


class ProjectRepo:
    """Provides access to a single git repository of some project.

    Implementation of some operations (like finding out sub-component version
    corresponding to a specific commit) is project-specific. It is supposed that
    this functionality will be implemented in derived classes - so in most cases
    there will be a separate ProjectRepo-derived class for each project.
    """

    REPO_DESCR = None  # optional description of repository

    # successfull build tag examples:
    #   build_4155_master_success
    #   build_4154_release_10_240_success
    _RE_BUILD_TAG = re.compile(
        r"build_(?P<build>\d+)_(?P<branch>.*)_success$"
    )

    # release branch name in successfull build tag
    #   release_10_250
    _RE_BRANCH_IN_TAG_SUBSTR = re.compile(
        r"release_(?P<major>\d+)_(?P<minor>\d+)$"
    )

    # list of possible locations of a file, which contains version number
    # of this component. Usually it is a 'VERSION' or some '__init__.py' file.
    # Check doc of get_saved_build_number method for more details
    _SAVED_BUILD_NUM_SOURCES = []  # list of strings - paths to files

    # locations of files which contain verstions of sub-components
    _COMPONENTS_VERSIONS_LOCATIONS = {}  # {project_repo_id: local_path}

    __slots__ = 'repo_id', 'repo', 'remote_name'

    def __init__(self, repo_id, repo_path, remote_name):
        """ProjectRepo constructor.

        Arguments:
        - repo_id: string, repo_id of this ProjectRepo.
        - repo_path: path to local git repository or GitRepo object
        - remote_name: name of the git remote. Local data fetched from this
            remote will be used for report.
        """
        self.repo_id = repo_id
        self.repo = repo_path if hasattr(repo_path, 'remotes') else GitRepo(repo_path)
        assert remote_name, (
            "Remote name must be specified. Preparing reports for commits "
            "not pushed to remote server is not supported yet.")
        self.remote_name = remote_name

    def __str__(self):
        return f"ProjectRepo {self.repo_id} ({type(self)})"

    def __repr__(self):
        return str(self)

    def build_report_rgraph(self, search_text, components_rgraphs):
        """Prepare and return RGraph

        RGraph - graph of RCommit's - commits which are related to
        current report.

        Arguments:
        - search_text: string to find in commit messages
        - components_rgraphs: {cmpnt_name: RGraph} - report-related commits
        of components.
        """
        # ToDo: make it an option
        #search_predicate = lambda commit: search_text in commit.message.split('\n')[0]
        search_predicate = lambda commit: search_text in commit.message

        with Timer(f"search '{search_text}' '{self.repo}' repo", log_method=logger.info):
            gr = RGraph(self, search_predicate, components_rgraphs)

        return gr

    def sync(self) -> bool:
        """Sync with remote: 'git fetch <remote_name>'

        Return value indicates if sync was successfull.
        """
        with Timer(
            f"sync {self.repo_id} {self.repo.working_dir} {self.remote_name}",
            report_start=True,
            log_method=logger.info
        ):
            remote = self.repo.remotes[self.remote_name]
            try:
                remote.fetch()
            except:
                logger.exception(
                    "Unexpected error during Repo '%s' synchronization", self.repo)
                return False
        return True

    def iter_release_branches(self):
        # yield (ref_name, branch_name, BranchName) for release branches
        prefix_len = len(f"{self.remote_name}/")
        for ref in self.repo.remotes[self.remote_name].refs:
            if ref.name in (f"{self.remote_name}/master", f"{self.remote_name}/main"):
                bn = BranchName(ref.name, sort_prefix=["zzzzzzzzzzzzzz", ])
                branch_name = ref.name[prefix_len:]
                yield ref.name, "master", bn
            if ref.name.startswith(f"{self.remote_name}/release/"):
                branch_name = ref.name[prefix_len:]
                bn = BranchName(ref.name)
                yield ref.name, branch_name, bn

    def _read_saved_build_num_from_file(self, blob, path) -> BuildNumData:
        # to be implemented in derived classes if necessry
        #
        # applicable for repositories where build number is stored in a file
        _ = blob, path
        raise NotImplementedError(f"Implement this method in '{type(self)}'!")

    #########################
    # methods for processing info about builds associated with commits

    def make_builds_detector(self):
        """Make RepoBuildsDetector - object which gets builds info from repo"""
        # default implementation guess build numbers by git tags.
        # in order for it to work derived ProjectRepo class should implement
        # several project-specific methods (check RepoBuildsByTagDetector doc)
        return RepoBuildsByTagDetector(self)

    @classmethod
    def parse_buildtag(cls, tag_str) -> BuildNumData:
        """tag_str -> BuildNumData (if tag_str is a build tag)."""
        return cls._parse_default_buildtag(tag_str)

    @classmethod
    def _parse_default_buildtag(cls, tag_str):
        # match tag to successfull build tag pattern in 'standard' format
        m = cls._RE_BUILD_TAG.match(tag_str)
        if m is None:
            return None

        return BuildNumData(
            None, None, None, # major, minor, patch
            build=int(m.group('build')),
            branch_str=m.group('branch'),
        )

    def guess_major_minor_build_by_tag_substr(self, tag_substr):
        """'release_10_240' -> (10, 240)"""
        # this method is required if RepoBuildsByTagDetector by this repo.
        # default implementation, works if standard build tags (like
        # 'build_4154_release_10_240_success') are used
        m = self._RE_BRANCH_IN_TAG_SUBSTR.match(tag_substr)
        if m:
            return int(m.group('major')), int(m.group('minor'))
        return None, None

    def get_saved_build_number(self, commit, cache) -> BuildNumData:
        """Get build number info saved in a file in commit.

        Returns BuildNumData. It should be treated not as an actual build number
        but as a container of known attributes.

        Returned build number is NOT a build number this commit is included into.
        If build number if saved in component source files, than build is triggered
        when this saved number changes. For example several commits contain build
        number 1.1.1, then new commit increases this version to 1.1.2 and build is
        triggered. Artifact version will be 1.1.2, but it will contain only one
        commit with version 1.1.2. All subsequent commits with this version will
        be included into build 1.1.3 only.
        """
        # default implementation tries to read major-minor-patch from
        # files specified in _SAVED_BUILD_NUM_SOURCES
        try:
            return cache[commit.hexsha]
        except KeyError:
            pass

        problems_descrs = []

        for local_path in self._SAVED_BUILD_NUM_SOURCES:
            try:
                blob = commit.tree / local_path
            except KeyError as err:
                problems_descrs.append(str(err))
                continue

            if blob.hexsha in cache:
                build_num = cache[blob.hexsha]
                cache[commit.hexsha] = build_num
                return build_num

            try:
                build_num = self._read_saved_build_num_from_file(
                    blob, local_path)
            except ValueError as err:
                problems_descrs.append(str(err))
                continue

            cache[blob.hexsha] = build_num
            cache[commit.hexsha] = build_num

            return build_num

        # failed to read build info from any sources
        logger.debug(
            "failed to read build info from commit '%s': %s",
            commit.hexsha,
            "; ".join(
                f"{local_path}: {err}"
                for local_path, err in zip(
                    self._SAVED_BUILD_NUM_SOURCES, problems_descrs)
            ))
        major, minor, patch = ('?', '?', '?')
        build_num = BuildNumData(major, minor, patch)
        cache[commit.hexsha] = build_num
        return build_num

    #########################
    # methods for processing components versions

    def get_components_versions(self, commit, components, cache):
        """Get info avout versions of specified components.

        Arguments:
        - commit: git.commit object
        - components: list of names of components to get versions of.
            If is None - version of all known components will be returned

        Return value:
        - {component_name: BuildNumData}: - may contain info about not
            requested components
        """
        if components is None:
            # get info about all components if components not specified
            components = self._COMPONENTS_VERSIONS_LOCATIONS.keys()

        assert all(c in self._COMPONENTS_VERSIONS_LOCATIONS for c in components)
        known_componens = cache.get(commit.hexsha, {})
        components_to_check = {}
        for c in components:
            if c not in known_componens:
                v_file_path = self._COMPONENTS_VERSIONS_LOCATIONS[c]
                components_to_check.setdefault(v_file_path, []).append(c)

        if not components_to_check:
            return known_componens

        for v_file_path, cmps in components_to_check.items():
            try:
                blob = commit.tree / v_file_path
            except KeyError:
                logger.warning(
                    "repo '%s' ('%s') commit '%s' does not contain a file '%s'",
                    self.repo_id,
                    self.repo.git_dir,
                    commit.hexsha[:11],
                    v_file_path,
                )
                continue

            try:
                components_in_file = cache[blob.hexsha]
            except KeyError:
                components_in_file = {
                    cmpnt: BuildNumData(major, minor, patch)
                    for cmpnt, (major, minor, patch)
                    in self.read_components_from_file(v_file_path, blob).items()
                }
                cache[blob.hexsha] = components_in_file

            missing_components = [c for c in cmps if c not in components_in_file]
            assert not missing_components, (
                f"info about versions of components {missing_components} not "
                f"found in file '{v_file_path}'. Check implementation of "
                f"method 'read_components_from_file' in {type(self)}")

            known_componens.update(components_in_file)

        cache[commit.hexsha] = known_componens
        return known_componens

    def read_components_from_file(self, v_file_path, blob):
        # to be implemented in derived classes
        # should return {'component_name': (major, minor, patch)}
        _ = v_file_path
        _ = blob
        return {}

    @staticmethod
    def _parse_keyvalues_file(blob, separator='='):
        # helper method which parses simple key-value files
        # lines starting with '#' are interpreted as comments and ignored
        # lines which do not contain separator are also ignored

        for line in blob.data_stream.read().decode().split('\n'):
            if line.startswith("#"):
                continue
            chunks = line.split(separator, maxsplit=1)
            if len(chunks) == 1:
                continue
            key, value = [c.strip() for c in chunks]
            if len(value) > 2 and value[0] == value[-1] and value[0] in ['"', "'"]:
                # strip quotes around the value
                value = value[1:-1]
            yield (key, value)

    #########################
    # some ProjectRepo utils

    def _mk_components_versions_cache(self):
        # ovride in derived class if simple dictionary is not enough
        return {}

    def make_branch_refs_map(self, remote_name=None):
        """Make {ref_name: commit.hexsha} for branches in specified remote.

        Arguments:
        - remote_name: (optional) string, name of remote

        ref_name in result dictionary contains remote name, for example:
        'origin/release/10.240'
        This is consistent with GitPython lib behavior:
        repo.remotes['origin'].refs['master'].name == "origin/master"
        """
        if remote_name is None:
            remote_name = self.remote_name
        assert remote_name, "local branches not supported yet"
        refs_map = {}
        ref_prefix = f"refs/remotes/{remote_name}/"
        chop_off_len = len("refs/remotes/")
        for ref_full_name, hexsha in self.repo.iter_refs(ref_prefix):
            ref_name = ref_full_name[chop_off_len:]
            if hexsha is None:
                hexsha = self.repo.get_ref_commit(ref_full_name).hexsha
            refs_map[ref_name] = hexsha
        return refs_map

    def make_buildtags_map(self):
        """Make {commit.hexsha: [BuildNumData, ]} of successfull builds"""
        builds_map = {}
        prefix = "refs/tags/"
        prefix_len = len(prefix)
        for ref_name, hexsha in self.repo.iter_refs(prefix):
            tag_str = ref_name[prefix_len:]
            t = self.parse_buildtag(tag_str)
            if t:
                if hexsha is None:
                    hexsha = self.repo.get_ref_commit(ref_name).hexsha
                builds_map.setdefault(hexsha, []).append(t)
        return builds_map

    def _test_iter_tags(self):
        # For test purposes only.
        # Refs iterator accesses refs information directly from .git storage
        # Make sure that tags info created with refs iterator are cated correctly.

        with Timer("get tags hexsha old"):
            _ = self.make_buildtags_map()

        tags_map_direct = {}
        with Timer("get tags from .git directly"):
            for ref_name, hexsha in self.repo.iter_refs("refs/tags/"):
                tag_str = ref_name[len("refs/tags/"):]
                if hexsha is None:
                    hexsha = self.repo.get_ref_commit(ref_name).hexsha
                tags_map_direct[tag_str] = hexsha

        with Timer("get tags using git package"):
            tags_map_gitlib = {
                tag.name: tag.commit.hexsha
                for tag in self.repo.tags
            }

        compare_dictionaries(
            tags_map_direct, "directly collected tags",
            tags_map_gitlib, "collected with lib tags",
        )

    def _test_iter_branchrefs(self):
        # For test purposes only.
        # Refs iterator accesses refs information directly from .git storage
        # Make sure that branch refs created with ref iterator are created correctly.

        with Timer("get refs using direct access"):
            dummy_d = self.make_branch_refs_map(self.remote_name)

        with Timer("get refs using git package"):
            refs_gitlib = {
                ref.name: ref.commit.hexsha
                for ref in self.repo.remotes[self.remote_name].refs
            }

        compare_dictionaries(
            dummy_d, "direct",
            refs_gitlib, "refs_gitlib",
        )


class RepoBuildsDetector:
    """Base class for build commit detectors objects.

    Procedure of finding out if some commit corresponds to a build depends
    on repo (note, that in some repos it is even impossible).
    Objects of RepoBuildsDetector implement build-number-related procedures
    and keep caches.
    """
    def is_build_commit(self, commit) -> bool:
        """Check if some successful build was based on this commit."""
        _ = commit
        assert False, "Not implemented"

    def get_builds_numbers(self, commit):
        """commit -> [BuildNumData, ] for builds based on this commit.

        Returned list is sorted in ascending order.
        """
        _ = commit
        assert False, "Not implemented"


class RepoBuildsByTagDetector(RepoBuildsDetector):
    """Detector of a build commits in a repo.

    Build commit are detected by tags.
    """
    def __init__(self, project_repo):
        """RepoBuildsByTagDetector constructor.

        Arguments:
        - project_repo: ProjectRepo object. This ProjectRepo must implement
            following methods:
            - guess_major_minor_build_by_tag_substr
            - get_saved_build_number
        """
        self.project_repo = project_repo
        self.buildtags_map = project_repo.make_buildtags_map()
        self.cache = {}

    def is_build_commit(self, commit):
        """Check if some successful build was based on this commit."""
        return commit.hexsha in self.buildtags_map

    def get_builds_numbers(self, commit):
        """commit -> [BuildNumData, ] for builds based on this commit."""
        parsed_bts = self.buildtags_map.get(commit.hexsha, [])
        for bt in parsed_bts:
            self.finalize_build_tag_info(bt, commit)
        parsed_bts.sort()
        return parsed_bts

    def finalize_build_tag_info(self, parsed_bt, commit):
        """Fill missing attributes of parsed_bt

        Arguments:
        - parsed_bt: BuildNumData
        - commit: git.commit
        - cache: dictionary (it's up to this method what to keep in it)
        """
        assert parsed_bt.build is not None
        if all(v is not None for v in [parsed_bt.major, parsed_bt.minor]):
            if parsed_bt.patch is None:
                parsed_bt.patch = parsed_bt.build
            return
        # try to guess major.minor by tag
        major, minor = self.project_repo.guess_major_minor_build_by_tag_substr(
            parsed_bt.branch_str)
        if major is not None:
            parsed_bt.major = major
            parsed_bt.minor = minor
            if parsed_bt.patch is None:
                parsed_bt.patch = parsed_bt.build
            return
        # need to get build numbers from files
        try:
            fs_buildnum_data = self.project_repo.get_saved_build_number(
                commit, self.cache)
        except ValueError as err:
            raise ValueError(
                f"Repo: {self.project_repo.repo_id}: can't get build number from "
                f"commit '{commit.hexsha}'."
            ) from err

        parsed_bt.major = fs_buildnum_data.major
        parsed_bt.minor = fs_buildnum_data.minor
        if parsed_bt.patch is None:
            parsed_bt.patch = parsed_bt.build
        assert parsed_bt.is_finalized(), f"'{parsed_bt}' is not finalized"


class RepoBuildsBySavedBuildNumDetector(RepoBuildsDetector):
    """Detect build commit by info saved in a file.

    For example version is saved in a file 'current_version' in simple
    text like '10.250.43'. Usually new build is created when this version is
    bumped. It may be not true sometimes, but this is best guess we can do.

    In order to use this detector the project repo must implement
    get_saved_build_number method (or specify _SAVED_BUILD_NUM_SOURCES and
    implement _read_saved_build_num_from_file method).
    """
    def __init__(self, project_repo):
        self.project_repo = project_repo
        self.cache = {}

    def is_build_commit(self, commit) -> bool:
        """Check if build was created from this commit."""
        cur_saved_build_num = self.get_builds_numbers(commit)[0]
        return all(
            cur_saved_build_num != self.get_builds_numbers(c)[0]
            for c in commit.parents
        )

    def get_builds_numbers(self, commit):

        # there is only one
        return [self.project_repo.get_saved_build_number(commit, self.cache), ]


class ReposCollection:
    """Collection of ProjectRepo's."""

    _REPOS_TYPES = {}  # {repo_id: ProjectRepo-class}

    def __init__(self, repos):
        """Construct ReposCollection - all git repos to use for report.

        Arguments:
        - repos: {repo_id: project_repo_description(*) ProjectRepo or path to repo}

        (*) project_repo_description may be in followinf formats:
        - "path/to/git/repo"
        - ProjectRepo object
        - ("path/to/git/repo", "remote_name")
        - (ProjectRepo object, "remote_name")

        Default remote_name is "origin"

        In case path to git repo is specified, ProjectRepo objects will be
        constructed, actual types of the objects will be taken from _REPOS_TYPES
        """
        self.repos = {}
        for repo_id, repo_info in repos.items():
            if isinstance(repo_info, (list, tuple)):
                repo_info, remote_name = repo_info
                if remote_name is None:
                    remote_name = 'origin'
            else:
                remote_name = 'origin'
            repo = self._mk_repo_obj(repo_id, repo_info, remote_name)
            if repo is None:
                continue
            self.repos[repo_id] = repo

        # repo ids sorted in a way that components go before owners
        self.sorted_repos = []
        done_repos = set()

        dfs_stack, dfs_sp, dfs_path_names = [], [], []
        repos_list = sorted(repo_id for repo_id in self.repos)
        if repos_list:
            dfs_stack.append(repos_list)
            dfs_sp.append(len(repos_list) - 1)
            dfs_path_names.append(repos_list[-1])

        while dfs_stack:
            cur_sp = dfs_sp[-1]
            if cur_sp < 0:
                dfs_stack.pop()
                dfs_sp.pop()
                dfs_path_names.pop()
                continue
            cur_repo_id = dfs_stack[-1][cur_sp]
            if cur_repo_id in done_repos:
                cur_sp = dfs_sp[-1] - 1
                dfs_sp[-1] = cur_sp
                dfs_path_names[-1] = dfs_stack[-1][cur_sp] if cur_sp >= 0 else None
                continue
            cur_repo = self.repos[cur_repo_id]
            not_processed_sub_components = sorted(
                repo_id
                for repo_id in cur_repo._COMPONENTS_VERSIONS_LOCATIONS
                if repo_id in self.repos and repo_id not in done_repos)

            if not not_processed_sub_components:
                # all dependecies are processed, finalise this repo
                self.sorted_repos.append(cur_repo_id)
                done_repos.add(cur_repo_id)
                cur_sp = dfs_sp[-1] - 1
                dfs_sp[-1] = cur_sp
                dfs_path_names[-1] = dfs_stack[-1][cur_sp] if cur_sp >= 0 else None
                continue

            # detect cycle dependencies
            cycled_repo_ids = [
                repo_id
                for repo_id in not_processed_sub_components
                if repo_id in dfs_path_names]
            if cycled_repo_ids:
                bad_repo = cycled_repo_ids[0]
                i = dfs_path_names.index(bad_repo)
                cycle = dfs_path_names[i:]
                cycle.append(bad_repo)
                assert len(cycle) > 1
                assert cycle[0] == cycle[-1]
                raise ValueError(
                    "repo dependencies cycle detected: " + " -> ".join(cycle))

            # some dependencies are not processed yet, go deeper in dfs
            dfs_stack.append(not_processed_sub_components)
            dfs_sp.append(len(not_processed_sub_components) - 1)
            dfs_path_names.append(not_processed_sub_components[-1])

        assert len(self.sorted_repos) == len(self.repos)

    @classmethod
    def _mk_repo_obj(cls, repo_id, repo_address, remote_name):
        # helper to be used in constructor. Creates ProjectRepo
        #
        # Arguments:
        # - repo_id: string
        # - repo_address: either path to git reporitory or a ready ProjectRepo

        if hasattr(repo_address, 'build_report_rgraph'):
            # repo_address is a redy repo project
            return repo_address
        try:
            repo_class = cls._REPOS_TYPES[repo_id]
        except KeyError:
            logger.warning("unknown repo type '%s' encountered", repo_id)
            return None
        return repo_class(repo_id, repo_address, remote_name)

    def sync(self):
        """Sync all the repos in the collection.

        Method returns (num_synced, num_failed)
        """
        results = {}  # {repo_id: if_sync_successfull}

        def run_job(repo_id):
            results[repo_id] = self.repos[repo_id].sync()

        threads = [
            threading.Thread(target=run_job, args=((repo_id, )))
            for repo_id in sorted(self.repos.keys())
        ]
        with Timer("total sync", log_method=logger.info):
            for th in threads:
                th.start()

            for th in threads:
                th.join()

        assert len(results) == len(self.repos)
        num_synced = sum(1 for result in results.values() if result)
        num_failed = len(results) - num_synced
        return num_synced, num_failed

    def make_report(self, bug_id, *, report_formatter=None):
        """ !!! """
        if report_formatter is None:
            report_formatter = ReportFormatter()
        report_data = self.make_reports_data(bug_id)
        return GHistReport(report_data, report_formatter)

    def make_reports_data(self, bug_id):
        """Prepare report of commits with descriptions contaning specified text.

        Return: [('repo_id', RGraph), ]
        """
        results = []  # [(repo_id, RGraph), ]
        rgraph_by_name = {}  # {repo_id: RGraph}

        for repo_id in self.sorted_repos:
            repo = self.repos[repo_id]
            components = {
                repo_id: rgraph
                for repo_id, rgraph in rgraph_by_name.items()
                if repo_id in repo._COMPONENTS_VERSIONS_LOCATIONS
            }
            x = repo.build_report_rgraph(bug_id, components)
            results.append((repo_id, x))
            rgraph_by_name[repo_id] = x
        results.reverse()
        return results


class GHistReport(PPObj):
    """Contains the git history report data (for a bug) and formatter.

    To print the report simply print this object.
    """

    class GHistPalette(Palette):
        SYNTAX_DEFAULTS = {
            # synt_id: default_color
            'GHIST.REPO': "CYAN:bold",
            'GHIST.BRANCH': "GREEN:bold",
            'GHIST.HASH': "YELLOW",
            'GHIST.HASH_NOT_MERGED': "",
            'GHIST.COMMIT_TIME': "BLUE",
            'GHIST.COMMIT_NAME': "GREEN",
            'GHIST.VERSION': "CYAN",
            'GHIST.VER_NOT_BUILT': "RED",
            'GHIST.VER_NOT_MERGED': "RED",
        }
        repo = ConfColor('GHIST.REPO')
        branch = ConfColor('GHIST.BRANCH')
        hash = ConfColor('GHIST.HASH')
        hash_not_merged = ConfColor('GHIST.HASH_NOT_MERGED')
        commit_time = ConfColor('GHIST.COMMIT_TIME')
        commit_name = ConfColor('GHIST.COMMIT_NAME')
        version = ConfColor('GHIST.VERSION')
        ver_not_built = ConfColor('GHIST.VER_NOT_BUILT')
        ver_not_merged = ConfColor('GHIST.VER_NOT_MERGED')

    PALETTE_CLASS = GHistPalette

    def __init__(self, report_data, report_formatter):
        self.data = report_data
        self.report_formatter = report_formatter

    def gen_ch_lines(self, _c) -> Iterator[CHText]:
        yield from self.report_formatter._gen_ch_lines(self.data, _c)


class ReportFormatter:
    """Convert report data into syntax-highlited text.

    (expects data in the format as produced by ReposCollection.make_reports_data)
    """

    def __init__(self):
        pass

    def _gen_ch_lines(self, report_data, _c) -> Iterator[CHText]:
        """Generate report CHText lines for collected report data.

        Arguments:
        - report_data: [('component_name', RGraph), ] - properly ordered
            list as generated by ReposCollection.make_reports_data.
        """
        for repo_id, rgraph in report_data:
            branches = rgraph.branches
            yield CHText(_c.text(""))
            yield CHText(
                _c.text("==== repo "),
                _c.repo(repo_id),
                _c.text(" ===="),
            )
            for rbranch in branches:
                yield from self._gen_branch_report(repo_id, rbranch, 0, _c)

    def _gen_branch_report(self, repo_id, rbranch, offset, _c) -> Iterator[CHText]:
        yield CHText.make([
            self._mk_offset_sh_chunk(offset, _c),
            _c.repo(repo_id),
            _c.text(" "),
            _c.branch(rbranch.branch_name),
            _c.text(":")])
        for rbuild in rbranch.get_rbuilds_list():
            yield from self._gen_rbuild_descr(rbuild, offset+1, _c)

    def _gen_rbuild_descr(self, rbuild, offset, _c) -> Iterator[CHText]:
        # generate CHText lines of description of RBuild (including
        # commits in this build)

        # prepare build title line
        build_title = [self._mk_offset_sh_chunk(offset, _c)]
        build_title.extend(self._mk_buildnum_descr(rbuild.build_num, _c))

        commits_merged = not rbuild.build_num.is_fake_not_merged()

        if rbuild.rcommit is not None:
            commit = rbuild.rcommit.commit
            t_time = datetime.fromtimestamp(commit.committed_date).isoformat(sep=' ')
            build_title.append(_c.text(f" ({t_time})"))

        # build_title now looks like:
        #   10.260.2714 (2022-08-31 17:36:46)
        #
        # In case 'included_at' is not empty, it's first line also goes to title line:
        #   10.260.2714 (2022-08-31 17:36:46) / parent_repo relese/3.4 10.15.35
        incl_at_offset_str = []
        if rbuild.included_at:
            incl_at_offset_str.append(
                self._mk_offset_sh_chunk(CHText.calc_chunks_len(build_title), _c, 1))
            incl_at_offset_str.append(_c.text(" / "))
            build_title.append(_c.text(" / "))
            build_title.extend(self._mk_included_at_descr(rbuild.included_at[0], _c))
        yield CHText.make(build_title)

        # yiled remaining lines of 'included_at' section
        for incl_at in rbuild.included_at[1:]:
            yield CHText.make(
                incl_at_offset_str + list(self._mk_included_at_descr(incl_at, _c)))

        for comp_name, bump in rbuild.bumps.items():
            yield from self._gen_bump_descr(comp_name, bump, offset + 1, _c)
        for rc in rbuild.get_printable_rcommits():
            yield from self.gen_commit_descr(
                rc.commit, commits_merged, offset + 1, _c)

    def _mk_buildnum_descr(self, build_num, _c) -> Iterator[CHText.Chunk]:
        # BuildNumData -> Iterator[CHText.Chunk]
        if build_num.is_fake_not_built():
            return [
                _c.ver_not_built("- not built -")]
        elif build_num.is_fake_not_merged():
            return [
                _c.ver_not_merged("- not merged -")]

        return [_c.version(str(build_num))]

    def _mk_included_at_descr(self, incl_at, _c) -> Iterator[CHText.Chunk]:
        # prepare description of the parent component's build:
        # "parent_repo relese/3.4 10.15.35"
        result = [
            _c.repo(incl_at[0]),
            _c.text(" "),
            _c.branch(incl_at[1]),
            _c.text(" "),
        ]
        result.extend(self._mk_buildnum_descr(incl_at[2], _c))
        return result

    def _gen_bump_descr(self, comp_name, bump, offset, _c) -> Iterator[CHText]:
        # generate lines of bump description for a parent component:
        # Example:
        # "      proj_lib=10.20.9<-10.20.7"
        # "      proj_lib1=3.4.5"
        bump_versions_descr = [_c.version(str(bump.to_buildnum))]
        if bump.from_build_nums:
            bump_versions_descr.append(_c.text("<-"))
            if len(bump.from_build_nums) == 1:
                bump_versions_descr.append(
                    _c.version(str(bump.from_build_nums[0])))
            else:
                bump_versions_descr.append(_c.text("["))
                is_first = True
                for bn in bump.from_build_nums:
                    if is_first:
                        is_first = False
                    else:
                        bump_versions_descr.append(_c.text(", "))
                    bump_versions_descr.append(_c.text(str(bn)))
                bump_versions_descr.append(_c.text("]"))
        result = [self._mk_offset_sh_chunk(offset + 1, _c)]
        result.append(_c.repo(comp_name))
        result.append(_c.text("="))
        result.extend(bump_versions_descr)
        yield CHText.make(result)

    def gen_commit_descr(self, commit, merged, offset, _c) -> Iterator[CHText]:
        """Generate CHText lines of a single commit descripiton."""
        author_name = str(commit.author.name)
        if len(author_name) > 18:
            author_name = author_name[:18]
        else:
            author_name = f"{author_name:18}"
        t_message = commit.message.split('\n')[0].strip()

        hash_color = _c.hash if merged else _c.hash_not_merged
        yield CHText.make([
            hash_color(commit.hexsha[:11]),
            _c.text(" "),
            _c.commit_time(
                datetime.fromtimestamp(commit.committed_date).isoformat(sep=' ')),
            _c.text(" "),
            _c.commit_name(author_name),
            _c.text(t_message),
        ])

    def _mk_offset_sh_chunk(self, offset, _c, _step=2) -> CHText.Chunk:
        return _c.text(" " * (offset * _step))


def find_commit_chain(from_commit, to_commit, except_commit=None):
    if except_commit is None:
        except_commit = lambda x: False
    visited_commits = set()
    for commit in from_commit.traverse(
        prune=lambda commit, _depth: (
            commit in visited_commits or except_commit(commit)
        )
    ):
        visited_commits.add(commit)
        if commit == to_commit:
            return True
    return False
