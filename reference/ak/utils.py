"""Miscelaneous utils."""

import time
from .color import ColorFmt


class DataRecord:
    """Mutable alternative to namedtuple."""
    __slots__ = ()  # override in derived class

    def __init__(self, **kwargs):
        for n in self.__slots__:
            setattr(self, n, kwargs.pop(n, None))
            assert not kwargs, f"unexpected attributes spacified: {kwargs}"


class Timer:
    """Simple timer."""
    def __init__(self, timer_name=None, report_start=False, log_method=None):
        self.start = None
        self.elapsed = None
        self.log_method = log_method
        self.timer_name = timer_name
        self.report_start = report_start

    def __enter__(self):
        if self.report_start and self.timer_name is not None:
            msg = f"{self.timer_name}: start..."
            if self.log_method is None:
                print(msg)
            else:
                self.log_method(msg)
        self.start = time.perf_counter()
        return self

    def __exit__(self, exc_type, _exc_value, _exc_tb):
        finish = time.perf_counter()
        self.elapsed = finish - self.start
        if self.timer_name:
            result_descr = "done" if not exc_type else "failed"
            msg = f"{self.timer_name}: {result_descr} {self.elapsed: 6.3f} sec."
            if self.log_method is None:
                print(msg)
            else:
                self.log_method(msg)


class Comparable:
    """Mixin which implemets comparison operations using cmp method.

    Implement single method cmp(self, other) -> int and all the
    '>', '<', etc. operations will work.
    """
    def cmp(self, _other):
        assert False, f"implement cmp method in {type(self)}"

    def __lt__(self, other):
        return self.cmp(other) < 0

    def __gt__(self, other):
        return self.cmp(other) > 0

    def __eq__(self, other):
        return self.cmp(other) == 0

    def __le__(self, other):
        return self.cmp(other) <= 0

    def __ge__(self, other):
        return self.cmp(other) >= 0

    def __ne__(self, other):
        return self.cmp(other) != 0


def compare_dictionaries(dict_0, descr_0, dict_1, descr_1, *, lines_limit=10):
    """Print differences between two dictionaries."""
    print(f"{descr_0}:  {len(dict_0)}")
    print(f"{descr_1}:  {len(dict_1)}")

    text_ok = ColorFmt('GREEN')("Ok  ")
    text_fail = ColorFmt('RED')("Fail")

    extra_items = {
        k: v
        for k, v in dict_0.items()
        if k not in dict_1
    }
    missing_items = {
        k: v
        for k, v in dict_1.items()
        if k not in dict_0
    }
    for comment, diff_map in [
        (f"extra items in '{descr_0}'", extra_items),
        (f"extra items in '{descr_1}'", missing_items),
    ]:
        note_text = text_fail if diff_map else text_ok
        print(f"{note_text}: {len(diff_map)} {comment} detected")
        for i, (k, v) in enumerate(diff_map.items()):
            if lines_limit is not None and i >= lines_limit:
                print(f"  ... {len(diff_map) - lines_limit} skipped")
                break
            print(f"  {k}: {v}")

    diff_map = {}
    for k, v_0 in dict_0.items():
        if k in dict_1:
            v_1 = dict_1[k]
            if v_1 != v_0:
                diff_map[k] = (v_0, v_1)

    note_text = text_fail if diff_map else text_ok
    print(f"{note_text}: {len(diff_map)} items have different values")
    if diff_map:
        print(f"  key: value in '{descr_0}' vs value in '{descr_1}'")
    for i, (k, (v_0, v_1)) in enumerate(diff_map.items()):
        if lines_limit is not None and i >= lines_limit:
            print(f"  ... {len(diff_map) - lines_limit} skipped")
            break
        print(f"  {k}: {v_0} vs {v_1}")
