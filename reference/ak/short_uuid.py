"""Tools for parsing 'short' uuids.

Standard string form of uuid looks like: 'de22bbe0-43bf-448d-9b83-2ee57e663285'
There is an equivalent shorter form:     'hfDoPxAatD8tiFaSAL3oXh'

Looks like standard python library does not support it.

"""

import uuid


_ALPHABET = list("23456789ABCDEFGHJKLMNPQRSTUVWXYZ"
                 "abcdefghijkmnopqrstuvwxyz")
_INDEX_ALPHABET = dict(
    (char, pos) for pos, char in enumerate(_ALPHABET))
_SHORT_GUID_LEN = 22  # log(128 bits in uuid) / log(57 characters in alphabet)


def uuid_from_short_str(uuid_short_str):
    """short_string -> uuid."""
    if not isinstance(uuid_short_str, str) or len(uuid_short_str) != _SHORT_GUID_LEN:
        raise ValueError(f"'{uuid_to_short_str}' is not a valid uuid short string")

    try:
        uuid_number = _str_to_int(uuid_short_str)
        uuid_obj = uuid.UUID(int=uuid_number)
    except (ValueError, KeyError) as err:
        raise ValueError(f"'{uuid_to_short_str}' is not a valid uuid short string") from err

    return uuid_obj


def uuid_to_short_str(uuid_obj):
    """uuid -> short_string"""
    return _int_to_str(uuid_obj.int)


def uuid_from_str(uuid_str):
    """create uuid either from usual or from short string."""
    try:
        uuid_obj = uuid.UUID(uuid_str)
        return uuid_obj
    except ValueError:
        pass

    return uuid_from_short_str(uuid_str)


def _str_to_int(string):
    # helper for short uuid parsing
    # string representing the number in 57-base format (reversed) -> integer
    number = 0
    alpha_len = len(_ALPHABET)
    for char in string[::-1]:
        number = number * alpha_len + _INDEX_ALPHABET[char]
    return number


def _int_to_str(number):
    # helper for short uuid parsing
    # integer -> string representing the number in 57-base format (reversed)
    out = ""
    alpha_len = len(_ALPHABET)
    while number:
        number, digit = divmod(number, alpha_len)
        out += _ALPHABET[digit]
    remainder_len = _SHORT_GUID_LEN - len(out)
    out += _ALPHABET[0] * remainder_len
    return out
