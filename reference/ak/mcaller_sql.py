"""Tools for creation of "methods caller" objects for sql requests."""

from ak.hdoc import BoundMethodNotes
from ak.mcaller import MCaller
from ak.mtd_sql import SqlMethod
from ak.ppobj import PPTable, PPTableFormat


class MCallerMetaSqlMethod:
    """Properties of MethodsCaller method which wraps sql request.

    Created by 'method_sql' decorator.
    """
    # name of the method, which will prepare BoundMethodNotes for
    # methods decorated with this decorator
    _MAKE_BM_NOTES_METHOD = '_make_bm_notes_sql'

    def __init__(self, component):
        _ = component


def method_sql(component=None):
    """decorator to mark method as a 'wrapper' around sql request.

    Arguments:
    - component: deprecatied. Name of component which owns the database.
    """

    if callable(component):
        # decorator was used w/o parameters. The argument is actually a
        # method to decorate
        method = component
        dec = method_sql()
        return dec(method)

    def decorator(method):
        method._mcaller_meta = MCallerMetaSqlMethod(component)
        return method

    return decorator


class SqlMethodT:
    """SqlMethod which returns PPrintable PPTable object."""

    def __init__(
            self, sql_select_from, *,
            order_by=None, record_name=None,
            header=None, footer=None, fmt=None, fields_types={}):
        """Create SqlMethodT - sql method which returns pretty-printable PPTable.

        SqlMethodT executes SqlMethod and presents results as PPTable.
        has two groups of arguments: SqlMethod-related and PPTable-format-related.

        SqlMethod-related arguments:
        - sql_select_from: either SqlMethod or a simple SQL string.
        - order_by: default value of "ORDER BY ..." part of sql request string.
            (can be specified only if sql_select_from is not an SqlMethod)
        - record_name: argument for SqlMethod constructor, can be specified
          only if sql_select_from is not SqlMethod. Check doc of SqlMethod
          constructor.

        By default result table has all the columns corresponding to sql records.
        Format of the result table may be modified with following args:
        PPTableFormat-related arguments:
        - header, footer: optional custom header and footer of the table.
          Check doc of al.ppobj.PPTable for more details
        - fmt, fields_types: optional table format specifications.
          Check ak.ppobj.PPTableFormat for more details
        """
        if isinstance(sql_select_from, SqlMethod):
            assert record_name is None
            self.sql_mtd = sql_select_from
        else:
            self.sql_mtd = SqlMethod(
                sql_select_from=sql_select_from,
                order_by=order_by, record_name=record_name)

        self.field_names = None  # list of names of attributes of selected records.
                                 # names are unique, available only after the
                                 # first request is done

        # stored arguments for PPTableFormat constructor
        self._ppt_fmt = fmt
        self._ppt_fields_types = fields_types
        self._ppt_format = None  # to be initialized later

        # stored arguments for result PPTables constructors
        self._record_name = None
        self._ppt_header = header
        self._ppt_footer = footer

    def list(self, conn, *args, **kwargs):
        """Execute sql request, return PPTable with results.

        Arguments are the same as arguments of ak.SqlMethod.all method:
        - conn: datanbase connection object (the one with cursor() method)
        - args: filter conditions for WHERE clause (*)
        - kwargs: filter conditions for where clause (**). Special kwargs:
            - '_as_scalars': if True then return not records, but first elemets
            - '_order_by': text for "ORDER BY' clause.

        (*) filter condition may be:
            - SqlFilterCondition object
            - ("table.column", operation, value) - check doc of SqlFilterCondition
                for more details
            - ("table.column", value) - same as ("table.column", "=", value)

        (**) name=value kwarg is interpreted as ("name", "=", value) filter condition
        """
        records = self.sql_mtd.list(conn, *args, **kwargs)
        return self._mk_datatable(records)

    def one_or_none(self, conn, *args, **kwargs):
        """Execute sql request, return single record or None.

        Raise ValueError if more than one record was selected.

        Check doc of 'all' method for detailed description of arguments.
        """
        records = self.sql_mtd.list(conn, *args, **kwargs)
        if len(records) > 1:
            raise ValueError(f"{len(records)} records selected")
        return self._mk_datatable(records)

    def one(self, conn, *args, **kwargs):
        """Execute sql request, return single record or None.

        Raise ValueError if more than one record was selected.

        Check doc of 'all' method for detailed description of arguments.
        """
        records = self.sql_mtd.list(conn, *args, **kwargs)
        if len(records) != 1:
            raise ValueError(f"{len(records)} records selected")
        return self._mk_datatable(records)

    def _mk_datatable(self, records):
        # records -> PPTable
        if self._ppt_format is None:
            self._finish_init()

        return PPTable(
            records,
            header=self._ppt_header,
            footer=self._ppt_footer,
            fmt_obj=self._ppt_format,
        )

    def _finish_init(self):
        # finish init self, if not done yet
        #
        # it's posible to finich init only after first request executed
        # (only then names of selected fields are available)

        self._record_name = self.sql_mtd.record_name
        self.field_names = self._make_unique_names_list(self.sql_mtd.fields)
        if self._ppt_header is None:
            # construct default header
            self._ppt_header = f"{self._record_name} table"

        self._ppt_format = PPTableFormat.make(
            self._ppt_fmt, self.field_names, self._ppt_fields_types, None)

    @staticmethod
    def _make_unique_names_list(names_list):
        # rename elements to make them unique:
        #
        # ['id', 'name', 'id', 'name'] -> ['id', 'name', 'id_1', 'name_1']

        names_set = set(names_list)
        if len(names_list) == len(names_set):
            # all names are unique already
            return names_list

        result = []
        counters = {}
        for name in names_list:
            if name in counters:
                n = counters[name] + 1
                while True:
                    fixed_name = f"{name}_{n}"
                    if fixed_name not in names_set:
                        break
                    n += 1
                counters[name] = n
                names_set.add(fixed_name)
                result.append(fixed_name)
            else:
                counters[name] = 0
                result.append(name)

        return result


class MCallerSql(MCaller):
    """Base class for "sql method callers"."""

    def __init__(self, db_conn=None, *,
                 db_connector=None, connector_args=None, connector_kwargs=None):
        """Create sql methods caller.

        Arguments:
        - db_conn: db connection object
        - db_connector, connector_args, connector_kwargs: optional values, which
        can be used to re-create db_conn.
        """
        if db_conn is not None:
            assert db_connector is None, (
                f"conflicting arguments 'db_conn' ({db_conn}) and "
                f"db_connector' ({db_connector})")
        else:
            assert db_connector is not None, (
                "either 'db_conn' or 'db_connector' argument must be specified")

        if db_connector is None:
            assert connector_args is None and connector_kwargs is None
        else:
            if connector_args is None:
                connector_args = []
            if connector_kwargs is None:
                connector_kwargs = {}

        self.db_conn = db_conn
        self.db_connector = db_connector
        self.connector_args = connector_args
        self.connector_kwargs = connector_kwargs
        if self.db_conn is None:
            self.reconnect()

    def reconnect(self):
        """Reconnect to database"""
        assert self.db_connector is not None
        self.db_conn = self.db_connector(
            *self.connector_args, **self.connector_kwargs)

    def get_sql_conn(self):
        """Returns sql connection to be used in current sql wrapper method."""
        return self.db_conn

    def __call__(self, sql_request):
        """Call arbitrary sql request, return results as PPTable object."""
        mtd = SqlMethodT(sql_request, header="")
        conn = self.get_sql_conn()
        return mtd.list(conn)

    def _make_bm_notes_sql(self, bound_method, palette) -> BoundMethodNotes:
        # create BoundMethodNotes for bound sql-request method (method
        # decorated with 'method_sql')
        assert hasattr(bound_method, '_mcaller_meta')

        return BoundMethodNotes(True, "", "")
