"""Methods for executing predefined sql requests.

It's quite primitive - it is NOT desined to dynamically create complex sql
requests. It's a simple wrapper for manually prepared sql requests.

Example:
records = SqlMethod(
    "SELECT u.id, u.name, a.status "
    "FROM users AS u LEFT JOIN accounts AS a "
    "  ON u.account_id = a.id ",
    order_by="u.name, u.id",
).list(
    db_conn, ("a.status", "=", 5),
)
"""

from collections import namedtuple
import contextlib
import logging


logger = logging.getLogger(__name__)


class SqlFilterCondition:
    """Contains information required to construct condition for WHERE clause"""

    PLACEHOLDER_TYPE_QUESTION, PLACEHOLDER_TYPE_PERCENT_S = 0, 1

    # to be used when constructing WHERE cluase
    _SQL_CLAUSES = {
        PLACEHOLDER_TYPE_QUESTION: {
            'PLACEHOLDER': '?',
            '=': ' = ?',
            '!=': ' != ?',
            'IN': ' IN ',
            'NOT IN': ' NOT IN ',
            'IS NULL': ' IS NULL',
            'IS NOT NULL': ' IS NOT NULL',
            'LIKE': ' LIKE ?',
            'NOT LIKE': ' NOT LIKE ?',
            '>': ' > ?',
            '<': ' < ?',
            '>=': ' >= ?',
            '<=': ' <= ?',
        },
        PLACEHOLDER_TYPE_PERCENT_S: {
            'PLACEHOLDER': '%s',
            '=': ' = %s',
            '!=': ' != %s',
            'IN': ' IN ',
            'NOT IN': ' NOT IN ',
            'IS NULL': ' IS NULL',
            'IS NOT NULL': ' IS NOT NULL',
            'LIKE': ' LIKE %s',
            'NOT LIKE': ' NOT LIKE %s',
            '>': ' > %s',
            '<': ' < %s',
            '>=': ' >= %s',
            '<=': ' <= %s',
        },
    }

    @classmethod
    def make(cls, src_obj):
        """Create SqlFilterCondition - data for a single condition of a WHERE clause.

        Argument:
        - src_obj: may be:
            - SqlFilterCondition: object will be returned as is
            - ("table.column", operation, value): args for SqlFilterCondition
                constructor
            - ("table.column", value) - same as ("table.column", "=", value)
            - "static condition" - f.e. "table1.id = table2.parent_id"
        """
        if isinstance(src_obj, SqlFilterCondition):
            return src_obj
        if isinstance(src_obj, str):
            # static condition, f.e. "table1.id = table2.parent_id"
            return SqlFieldValCondition(None, src_obj, None)
        if not isinstance(src_obj, (list, tuple)):
            raise ValueError(
                f"bad argument of type '{type(src_obj)}': {src_obj}")
        n_arg_items = len(src_obj)
        if n_arg_items == 3:
            field_name, op, value = src_obj
        elif n_arg_items == 2:
            field_name, value = src_obj
            op = '='
        else:
            raise ValueError(f"Invalid argument '{type(src_obj)}': {src_obj}")

        return SqlFieldValCondition(field_name, op, value)

    def make_text_update_values(self, values_list, placeholders_type) -> str:
        """Prepare the part of WHERE condition.

        This method returns a string corresponding to the part of the WHERE clause
        and appends corresponding condition values to the 'values_list' argument.

        Arguments:
        - values_list: the list to append actual arguments values to
        - placeholders_type: one of
            SqlFilterCondition.PLACEHOLDER_TYPE_QUESTION
            SqlFilterCondition.PLACEHOLDER_TYPE_PERCENT_S

        Returns sql clause string and appends arguments values to 'values_list'
        """
        assert False, (
            f"Method {make_text_update_values}' not implemented in "
            f"class {type(self)}")


class SqlFieldValCondition(SqlFilterCondition):
    """Sql condition based of a value of a single field."""

    __slots__ = ('field_name', 'op', 'value')

    SUPPORTED_OPS = [
        '=', '!=', 'IN', 'NOT IN', 'IS NULL', 'IS NOT NULL', 'LIKE', 'NOT LIKE',
        '>', '<', '>=', '<=',
    ]

    def __init__(self, field_name, op, value):
        self.field_name = field_name
        self.op = op.upper()
        self.value = value
        # validate that operation and value are compartible, fix operation
        # if possible
        if self.field_name is None:
            # special case: it is hardcoded condition which does not require
            # a value. F.e. "a.parent_id = b.id"
            assert self.value is None
            self.op = " " + op + " "
        elif self.op in ('=', '!='):
            if value is None:
                self.op = 'IS NULL' if self.op == '=' else 'IS NOT NULL'
            elif isinstance(value, (list, tuple, set)):
                self.op = 'IN' if self.op == '=' else 'NOT IN'
        elif self.op in ('IN', 'NOT IN'):
            if not isinstance(value, (list, tuple, set)):
                raise ValueError(
                    f"value {self.value} does not match sql operation {self.op}")
        elif self.op in ('IS NULL', 'IS NOT NULL'):
            if value is not None:
                raise ValueError(
                    f"value {self.value} does not match sql operation {self.op}")
        elif self.op in ('LIKE', 'NOT LIKE'):
            if not isinstance(value, str):
                raise ValueError(
                    f"value for '{self.op}' condition is not str but "
                    f"{type(value)}: {value}")
        elif self.op in ['>', '<', '>=', '<=']:
            pass
        else:
            raise ValueError(
                f"unsupported sql operation '{self.op}'. Supported operations "
                f"are: {self.SUPPORTED_OPS}")

    def make_text_update_values(self, values_list, placeholders_type) -> str:
        assert isinstance(values_list, list)
        sql_clauses = self._SQL_CLAUSES[placeholders_type]
        if self.field_name is None:
            sql = self.op
        elif self.op in ('=', '!=', '>', '<', '>=', '<='):
            values_list.append(self.value)
            sql = self.field_name + sql_clauses[self.op]
        elif self.op in ('IN', 'NOT IN'):
            assert isinstance(self.value, (list, tuple, set))
            if self.value:
                values_list.extend(self.value)
                sql = (self.field_name + sql_clauses[self.op] + "(" +
                       ", ".join(sql_clauses['PLACEHOLDER'] for _ in self.value)
                       + ")")
            else:
                # special case: list of lossible values is empty
                sql = "0" if self.op == 'IN' else "1"
        elif self.op in ('LIKE', 'NOT LIKE'):
            values_list.append(self.value)
            sql = self.field_name + sql_clauses[self.op]
        else:
            assert self.op in ('IS NULL', 'IS NOT NULL')
            sql = self.field_name + sql_clauses[self.op]

        return sql


class SqlOrCondition(SqlFilterCondition):
    """Several SqlFilterCondition objects combined with 'OR'."""
    __slots__ = ('operands', )
    def __init__(self, *args, **kwargs):
        if kwargs:
            args = list(args)
            args.extend(sorted(kwargs.items()))
        self.operands = [SqlFilterCondition.make(arg) for arg in args]

    def make_text_update_values(self, values_list, placeholders_type) -> str:
        if not self.operands:
            return "FALSE"
        result = "("
        result += " OR ".join(
            op.make_text_update_values(values_list, placeholders_type)
            for op in self.operands)
        result += ")"
        return result


class SqlMethod:
    """Python wrapper of sql request."""

    __slots__ = (
        'sql_select_from',
        'group_by',
        'default_order_by',
        'default_as_scalars',
        'record_name',
        'fields',
        'rec_type',
    )

    _or = SqlOrCondition

    def __init__(self, sql_select_from, *,
                 group_by=None, order_by=None, record_name=None, as_scalars=False):
        """Create SqlMethod object.

        Arguments:
        - sql_select_from: "SELECT ... FROM ..." part of the sql request string
        - group_by: string, to be specified if aggregation is used in the request
        - order_by: default value of "ORDER BY ..." part of sql request string.
            (it may be overridden when executing this method)
        - record_name: optional name of a namedtuple type of records returned by
            sql request.
        - as_scalars: if False, method returns records objects (usually
            namedtuples), overwise - first elements of these records.
            (it may be overridden when executing this method)

        Note: selects with HAVING are not supported yet
        """
        self.sql_select_from = sql_select_from
        self.group_by = group_by
        self.default_order_by = order_by
        self.default_as_scalars = as_scalars
        self.record_name = record_name if record_name is not None else 'record'
        # names of the fileds of records returned by sql request. These names can
        # only be created after first sql request is performed.
        self.fields = None
        # type of the returned values. Usually it's an automatically generated
        # namedtuple (if it is possible to create a namedtuple from the field
        # names)
        self.rec_type = None

    def _execute(self, conn, args, kwargs):
        # Execute sql request, and yield result records (or scalars)

        # autodetect sql placeholders format
        # probably there shoud be a better way. temporary solution.
        conn_type_name = str(type(conn))
        if 'mysql.connector' in conn_type_name:
            placeholders_type = SqlFilterCondition.PLACEHOLDER_TYPE_PERCENT_S
        else:
            placeholders_type = SqlFilterCondition.PLACEHOLDER_TYPE_QUESTION

        order_by_clause = kwargs.pop('_order_by', self.default_order_by)
        as_scalars = kwargs.pop('_as_scalars', self.default_as_scalars)

        # convert remaining kwargs to conditions
        if kwargs:
            args = list(args)
            args.extend(sorted(kwargs.items()))

        filters = [SqlFilterCondition.make(x) for x in args if x is not None]

        sql = self.sql_select_from
        req_params = []
        if filters:
            sql += " WHERE " + " AND ".join(
                f.make_text_update_values(req_params, placeholders_type)
                for f in filters)
        if self.group_by:
            sql += " GROUP BY " + self.group_by
        if order_by_clause is not None:
            sql += " ORDER BY " + order_by_clause

        # and execute request
        logger.debug("SQL request: %s ; params: %s", sql, req_params)
        # print(f"'{sql}'", req_params)
        with contextlib.closing(conn.cursor()) as cur:
            cur.execute(sql, req_params)

            if self.fields is None:
                # this is the first time actual request is performed, now we can
                # find out names of returned fields
                self._init_record_type(cur)

            if as_scalars:
                for row in cur:
                    yield row[0]
            elif self.rec_type is None:
                for row in cur:
                    yield row
            else:
                for row in cur:
                    yield self.rec_type._make(row)  # namedtuple way

    def _init_record_type(self, cur):
        # fill self.fields and self.rec_type during the first sql request
        self.fields = [x[0] for x in cur.description]
        try:
            self.rec_type = namedtuple(self.record_name, self.fields)
        except ValueError as err:
            logger.debug("can't create namedtuple for sql results: %s", str(err))

    def all(self, conn, *args, **kwargs):
        """Execute sql request, yield result records.

        Arguments:
        - conn: datanbase connection object (the one with cursor() method)
        - args: filter conditions for WHERE clause (*)
        - kwargs: filter conditions for where clause (**). Special kwargs:
            - '_as_scalars': if True then return not records, but first elemets
            - '_order_by': text for "ORDER BY' clause.

        (*) filter condition may be:
            - SqlFilterCondition object
            - SqlMethod._or(...) - several conditions combined by 'OR'; check
                doc of 'SqlFilterCondition.make' method for description of possible
                values
            - ("table.column", operation, value) - check doc of SqlFilterCondition
                for more details
            - ("table.column", value) - same as ("table.column", "=", value)
            - None - dummy value, ignored (presence of None argument does not affect
                sql query)

        (**) name=value kwarg is interpreted as ("name", "=", value) filter condition
        """
        yield from self._execute(conn, args, kwargs)

    def list(self, conn, *args, **kwargs):
        """Execute sql request, return list of result records.

        Check doc of 'all' method for detailed description of arguments.
        """
        return list(self._execute(conn, args, kwargs))

    def one(self, conn, *args, **kwargs):
        """Execute sql request, return single record.

        Raise ValueError if not exactly one record was selected.

        Check doc of 'all' method for detailed description of arguments.
        """
        record = self.one_or_none(conn, *args, **kwargs)
        if record is None:
            raise ValueError("record not found")
        return record

    def one_or_none(self, conn, *args, **kwargs):
        """Execute sql request, return single record or None.

        Raise ValueError if more than one record was selected.

        Check doc of 'all' method for detailed description of arguments.
        """
        all_records = list(self._execute(conn, args, kwargs))
        if len(all_records) > 1:
            raise ValueError(f"{len(all_records)} records selected")

        return all_records[0] if all_records else None

    @staticmethod
    def records_mmap(records, *key_names, unique=True):
        """records -> {key1: {key2: ... {keyN: record}...}}

        If unique argument is not true:
        records -> {key1: {key2: ... {keyN: [record, ]}...}}
        """
        ret_val = {}
        last_key_id = len(key_names) - 1

        for record in records:
            cur_dict = ret_val
            for i, attr_name in enumerate(key_names):
                val = getattr(record, attr_name)
                if i == last_key_id:
                    if unique:
                        # leaf element is a single record
                        assert val not in cur_dict, (
                            f"duplicate records {record} and {cur_dict[val]} found. "
                            f"(key attributes: {key_names}")
                        cur_dict[val] = record
                    else:
                        # leaf element is a list
                        cur_dict.setdefault(val, []).append(record)
                else:
                    cur_dict = cur_dict.setdefault(val, {})

        return ret_val
