"""LL parser with some ambiguities handling.

Main difference from LL1 parser is that it allowes ambiguities.

- LLParser: the parser. Transforms text into tree of TElement objects.
- TElement: element of the tree created as a result of parsing
- ListProds: template of production rules, which can be used to parse lists
- MapProds: template of production rules, which can be used to parse maps
- ProdSequence: template of productin rules for "sequence of given symbols"
- AnyTokenExcept: helper used to create production rules for "any teminal
    symbols, except specified ones"
- StdCleanuper: used by LLParser by default for post-processing parsed TElement tree.
"""

# More detailed description and example:
#
# 1. LLParser allowes ambiguities. That means that
# parsing table may contain several matching productions for a pair:
# (SYMBOL, next_token) -> (A, B, C)
#                         (X, Y, Z)
# If matching process fails for the first production, parsing process will
# roll back and next production will be attempted. First successfully
# matched production will be used.
#
# So, it is possible to use following productions for symbol 'A':
# A: [
#     (X, Y, Z),
#     (X, Y),
# ]
#
# 2. LLParser automatically uses factorization to transform given grammar into
# equivalent, but more efficient one. If there are several
# productions with same prefix, grammar will be automatically transformed:
# A: [                  =>  A: [                  A__S00: [
#     (X, Y, A, B),     =>      (X, Y, A__S00),       (A, B),
#     (X, Y, C, D),     =>  ]                         (C, D),
# ]                                               ]
# In some cases this transformation may remove ambiguities.
#
#
# Example of usage:
#
# parser = LLParser(
#     r'''
#     (?P<SPACE>\s+)
#     |(?P<WORD>[a-zA-Z_][a-zA-Z0-9_]*)
#     |(?P<NUMBER>[0-9]+)
#     |(?P<BR_OPEN>\[)
#     |(?P<BR_CLOSE>\])
#     ''',
#     synonyms={
#         'BR_OPEN': '[',
#         'BR_CLOSE': ']',
#     },
#     productions={
#         'E': [
#             ('LIST_WORDS', 'NUMBER'),
#         ],
#         'LIST_WORDS': ListProds('[', 'WORD', None, ']', optional=True),
#     },
# )
#
# x = parser.parse("[a b c] 10")  # TElement
# print(str(x))
#  > E:
#  >   LIST_WORDS: [
#  >     a
#  >     b
#  >     c
#  >   ]
#  >   NUMBER: 10
#
# assert x.value[0].name == 'LIST_WORDS'
# assert x.value[0].value == ['a', 'b', 'c']


import re
from collections import defaultdict
import collections.abc
from dataclasses import dataclass
import itertools
from typing import Tuple, Self
import logging


logger = logging.getLogger(__name__)


class Error(Exception):
    """Common parsing error"""
    pass


class SrcPos:
    """Human-readable description of a position in source text.

    Line and column enumeration is 1-based.
    """
    __slots__ = 'src_name', 'coords'

    def __init__(self, src_name, line, col):
        self.src_name = src_name
        self.coords = (line, col)

    def __str__(self):
        return f"<{self.src_name}>{self.coords}"

    @property
    def line(self):
        """Return line number of the position (first line has number 1)"""
        return self.coords[0]

    @property
    def col(self):
        """Return column number of the position (first column has number 1)"""
        return self.coords[1]


class LexicalError(Error):
    """Error happened during lexical parsing"""

    def __init__(self, src_pos, text, descr="unexpected symbol at"):
        self.src_pos = src_pos
        line, col = src_pos.coords
        self.text = text
        super().__init__(
            f"{descr} {src_pos.src_name}({line}, {col}):\n{text}\n" +
            " "*col + "^"*(len(text)-col))


class GrammarError(Error):
    """Incorrect grammar structure."""
    def __init__(self, parser_summary, msg):
        self.parser_summary = parser_summary
        if self.parser_summary is not None:
            msg = "\n".join(self.parser_summary.gen_detailed_descr()) + f"\n{msg}"
        super().__init__(msg)


class GrammarIsRecursive(GrammarError):
    """Grammar is recursive.

    Means that when we expand some symbol X we can come to situation when no
    tokens consumed, but the next symbol to expand is the same symbol X.
    """
    def __init__(self, parser_summary, cycle_data, nullables):
        msg = f"grammar is recursive:\n{nullables=}\n" + "\n".join(
            self._mk_prod_descr(cycle_element)
            for cycle_element in cycle_data
        )
        super().__init__(parser_summary, msg)

    @classmethod
    def _mk_prod_descr(cls, cycle_element):
        # make description of a production, highlight specified symbol
        symbol, prod, prod_symbol_id = cycle_element
        return f"'{symbol}' -> [" + ", ".join(
            f"<'{s}'>" if i == prod_symbol_id else f"'{s}'"
            for i, s in enumerate(prod.production)) + "]"


class ParsingError(Error):
    """Unexpected token kind of errors."""
    def __init__(self, symbol, next_tokens, attempted_prod_rules):
        self.src_pos = next_tokens[0].start_pos
        attempted_productions = [pr.production for pr in attempted_prod_rules]
        msg = (
            f"fail at {next_tokens}.\n"
            f"tried productions '{symbol}' -> {attempted_productions}")
        super().__init__(msg)


class _Token:
    # information about a single token
    # (first phase of parsing is to split text into tokens)
    __slots__ = 'name', 'value', 'start_pos', 'end_pos'

    def __init__(self, name, value, start_pos, end_pos):
        self.name = name
        self.value = value
        self.start_pos = start_pos  # SrcPos
        self.end_pos = end_pos  # SrcPos

    def __str__(self):
        _mk_coords = lambda pos: f"{pos.line},{pos.col}"
        return (
            f"{self.name}({_mk_coords(self.start_pos)}-{_mk_coords(self.end_pos)})"
            f"{{{self.value}}}"
        )

    def __repr__(self):
        return str(self)

    @property
    def span(self):
        """Returns ((start_line, start_column), (end_line, end_column))"""
        return (self.start_pos.coords, self.end_pos.coords)


class _Tokenizer:
    # split line of text into tokens
    class _Chunk:
        # line of text to tokenize
        __slots__ = "line_id", "start_pos", "text", "orig_text"
        def __init__(self, line_id, start_pos, text, orig_text):
            self.line_id = line_id
            self.start_pos = start_pos
            self.text = text
            self.orig_text = text if orig_text is None else orig_text

    def __init__(
            self,
            tokenizer_str,
            *,
            span_matchers=None,
            synonyms=None, keywords=None,
            end_token_name="$END$",
        ):
        """_Tokenizer constructor.

        Arguments:
        - end_token_name: name of special token which corresponds to no text
            and indicates end of the text.
        - Check LLParser class for description of other arguments.
        """
        self.matcher = re.compile(tokenizer_str, re.VERBOSE)
        self.span_matchers = self._prepare_span_matchers(span_matchers, self.matcher)
        self.synonyms = synonyms or {}
        self.keywords = keywords or {}
        self.end_token_name = end_token_name

    def get_all_token_names(self):
        """Get names of all tokens this tokenizer knows about."""
        tokens = set(self.matcher.groupindex.keys())
        tokens -= self.synonyms.keys()
        tokens.update(self.synonyms.values())
        tokens.update(self.keywords.values())
        return tokens

    def tokenize(self, text, src_name):
        """text -> _Token objects

        Arguments:
        - text: text to split into tokens. It may be:
          - string. In this case it is split into lines first
          - Iterable[str]
        """
        if isinstance(text, str):
            enumereted_lines = enumerate(
                (t.rstrip() for t in text.split('\n')),
                start=1)
        elif isinstance(text, collections.abc.Iterable):
            enumereted_lines = enumerate(text, start=1)
        else:
            assert False, (
                f"unexpected type of the object to parse: {str(type(text))}")

        cur_span_symbol = None
        cur_span_start_text = None
        cur_span_start_pos = None
        cur_span_lines = None
        span_body_matcher = None

        prev_end_pos = SrcPos(src_name, 1, 1)
        for line_id, text_line in enumereted_lines:
            col = 0
            while col < len(text_line):
                if cur_span_symbol is not None:
                    # we are inside 'span' token (for example inside
                    # multi-line comment)
                    match = span_body_matcher.match(text_line, col)
                    if match is None:
                        # end of the span is not found on this line of text
                        cur_span_lines.append(text_line[col:])
                        col = len(text_line)
                    else:
                        # end of span found!
                        last_line = match.group(match.lastgroup)
                        cur_span_lines.append(last_line)
                        value = "\n".join(cur_span_lines)
                        token_name = self.synonyms.get(
                            cur_span_symbol, cur_span_symbol)
                        new_end_pos = SrcPos(src_name, line_id, match.end() + 1)
                        yield _Token(
                            token_name,
                            value,
                            cur_span_start_pos, new_end_pos,
                        )
                        prev_end_pos = new_end_pos
                        cur_span_symbol = None
                        cur_span_start_text = None
                        cur_span_lines = None
                        span_body_matcher = None
                        col = match.end()
                else:
                    # we are not inside 'span', so usual token is expected
                    match = self.matcher.match(text_line, col)
                    if match is None:
                        raise LexicalError(SrcPos(src_name, line_id, col), text_line)
                    token_name = match.lastgroup
                    value = match.group(token_name)

                    span_body_matcher = self.span_matchers.get(token_name)
                    if span_body_matcher is not None:
                        # we found start of the 'span' token. Something
                        # like opening of a comment '/*'.
                        cur_span_symbol = token_name
                        cur_span_start_text = text_line
                        cur_span_lines = []
                        if prev_end_pos.coords != (line_id, col + 1):
                            prev_end_pos = SrcPos(src_name, line_id, col + 1)
                        cur_span_start_pos = prev_end_pos
                    else:
                        token_name = self.synonyms.get(token_name, token_name)
                        keyword_token = self.keywords.get((token_name, value))
                        if keyword_token is not None:
                            # this token is not a word, but keyword
                            token_name = keyword_token
                        if prev_end_pos.coords != (line_id, col + 1):
                            prev_end_pos = SrcPos(src_name, line_id, col + 1)
                        new_end_pos = SrcPos(src_name, line_id, match.end() + 1)
                        yield _Token(
                            token_name,
                            value,
                            prev_end_pos, new_end_pos,
                        )
                        prev_end_pos = new_end_pos
                    col = match.end()

        if cur_span_symbol is not None:
            raise LexicalError(
                prev_end_pos,
                cur_span_start_text,
                "span is never closed")

        yield _Token(
            self.end_token_name, None, prev_end_pos, prev_end_pos)

    @classmethod
    def _prepare_span_matchers(cls, span_matchers, matcher):
        # process 'span_matchers' argument of constructor: prepare
        # regex expressions for multiline tokens.
        result = {}
        if span_matchers is None:
            return result
        norm_re_group_names = set(matcher.groupindex.keys())
        for open_token_name, re_str in span_matchers.items():
            if open_token_name not in norm_re_group_names:
                raise GrammarError(
                    None,
                    f"unknows opening symbol '{open_token_name}' specified "
                    f"in 'span_matchers'. Each key of this dict must be a "
                    f"name of the re group specified in tokenizer string"
                )
            result[open_token_name] = re.compile(re_str, re.VERBOSE)
        return result


@dataclass(frozen=True)
class TElemSignature:
    """Info about TElement name and names of it's children."""
    name: str
    child_names: Tuple[str, ...]

    def __str__(self):
        prod = ", ".join(f"'{s}'" for s in self.child_names)
        return f"'{self.name}'[{prod}]"

    def __repr__(self):
        return str(self)

    def __eq__(self, other) -> bool:
        if isinstance(other, TElemSignature):
            return self.name == other.name and self.child_names == other.child_names
        if isinstance(other, (tuple, list)):
            if len(other) != len(self.child_names) + 1:
                return False
            if self.name != other[0]:
                return False
            return all(a == b for a, b in zip(self.child_names, other[1:]))
        return False


class TElement:
    """Element of tree, which represents parsing results.

    The value can be:
        - string - for terminal symbols
        - None - no values corresponding to the symbol (it must be nullable)
        - [TElement, ] - for non-terminal symbols
        Following cases are possible after cleanup process:
        - [misc_value, ] - for nodes, corresponding to list productions
        - {key: TElement} - for maps
    """
    __slots__ = 'name', 'value', 'start_pos', 'end_pos', '_is_leaf'

    def __init__(self, name, value, *, start_pos=None, end_pos=None, is_leaf=None):
        self.name = name
        self.value = value
        is_valid_inner_node = (
            isinstance(self.value, list)
            and all(isinstance(x, TElement) for x in self.value)
        )

        if is_leaf is None:
            self._is_leaf = not is_valid_inner_node
        else:
            self._is_leaf = is_leaf
            if not self._is_leaf:
                assert is_valid_inner_node, (
                    "for not-leaf elements the value must be a "
                    "list of TElement objects")

        assert (start_pos is None) == (end_pos is None), (
            f"{start_pos=}; {end_pos=} - only one is specified")

        if self._is_leaf:
            assert start_pos is not None, (
                f"src position must be explicitely specified for a leaf TElement: "
                f"{name=}, {value=}, {start_pos=}"
            )
            self.start_pos = start_pos
            self.end_pos = end_pos
        else:
            # during parsing the positions of non-leaf node are calculated
            # but these positions are specified explicitely during
            # cleanup process and cloning
            if start_pos is None:
                assert is_valid_inner_node
                self.start_pos = self.value[0].start_pos
                self.end_pos = self.value[-1].end_pos
            else:
                self.start_pos = start_pos
                self.end_pos = end_pos

    def __str__(self):
        return "\n".join(self.gen_descr())

    def __repr__(self):
        if self.is_leaf():
            return f"TE<{self.name}>/{self.value}/"
        else:
            return f"TE<{self.name}>[" + ",".join(
                repr(x) for x in self.value) + "]"

    def is_leaf(self) -> bool:
        """Check if self is a tree leaf."""
        return self._is_leaf

    def signature(self) -> TElemSignature:
        """Return tuple of symbols names.

        First element is self.name, names of child elements follow.
        """
        prod_tuple = () if self.is_leaf() else tuple(x.name for x in self.value)
        return TElemSignature(self.name, prod_tuple)

    @property
    def span(self):
        """Returns ((start_line, start_column), (end_line, end_column))"""
        return (self.start_pos.coords, self.end_pos.coords)

    def get_orig_text(self, text):
        """Get part of the original text which corresponds to the TElement.

        The TElement object knows only the location of the corresponding text in the
        original source text, so the original text is required.

        Arguments:
        - text: the whole source text. It may be:
          - string. In this case it is split into lines first
          - Iterable[str]
        """
        assert self.start_pos is not None
        assert self.end_pos is not None
        assert self.start_pos.coords <= self.end_pos.coords, (
            f"TElement '{self}' has invalid coordinates in source text. "
            f"End position {self.end_pos} comes before the "
            f"start position {self.start_pos}")

        start_l, start_c = self.start_pos.coords
        end_l, end_c = self.end_pos.coords
        start_l -= 1
        start_c -= 1
        end_l -= 1
        end_c -= 1

        assert start_l >= 0 and start_c >= 0 and end_l >= 0 and end_c >= 0

        if isinstance(text, str):
            lines = text.split('\n')
        elif isinstance(text, list):
            # the text is already a list of strings
            lines = text
        else:
            assert isinstance(text, collections.abc.Iterable), (
                f"unexpected type of the object to parse: {str(type(text))}")
            lines = list(text)

        assert end_l < len(lines), (
            f"invalid TElement position {self.end_pos}. Last line of source text "
            f"has number {len(lines)}")

        if start_l == end_l:
            assert end_c <= len(lines[end_l]), (
                f"invalid TElement position {self.end_pos}. Length of line "
                f"#{self.end_pos.line} is {len(lines[end_l])}")
            result = lines[start_l][start_c:end_c]
        else:
            assert start_c <= len(lines[start_l]), (
                f"invalid TElement position {self.start_pos}. Length of line "
                f"#{self.start_pos.line} is {len(lines[start_l])}")
            result_lines = [lines[start_l][start_c:]]
            for i in range(start_l+1, end_l):
                result_lines.append(lines[i])
            assert end_c <= len(lines[end_l])
            result_lines.append(lines[end_l][:end_c])
            result = "\n".join(result_lines)

        return result

    def clone(self):
        """Create a copy of self."""
        return TElement(
            self.name, self._clone_value(self.value),
            is_leaf=self._is_leaf,
            start_pos=self.start_pos, end_pos=self.end_pos,
        )

    @classmethod
    def _clone_value(cls, value):
        # helper method for 'clone'
        _clone = lambda x: x.clone() if isinstance(x, TElement) else x
        if value is None or isinstance(value, str):
            return value
        if isinstance(value, list):
            return [_clone(x) for x in value]
        if isinstance(value, dict):
            return {
                _clone(k): _clone(v)
                for k, v in value.items()
            }
        assert False, f"unexpected value: {value=} of type {str(type(value))}"

    def gen_descr(self, offset=0, out_name=None):
        """Generate lines of self description.

        Arguments:
        - out_name: 'outer' name of the self. For example, if
            TElement is a value of dictionary, we may want to generate the
            description including corresponding key. Disctionary key
            in this case is 'outer' name.
        """
        obj_descr = f"{self.name}" if out_name is None else f"{out_name}: {self.name}"
        if not self.is_leaf():
            yield "  " * offset + f"{obj_descr}:"
            for child in self.value:
                if child is None:
                    # this should be possible only in case self is a list,
                    # parsing results are cleaned-up, and the list contains
                    # None values.
                    yield "  " * (offset+1) + "None"
                else:
                    assert isinstance(child, TElement), f"{child=}"
                    yield from child.gen_descr(offset+1)
        else:
            yield from self._gen_obj_descr(self.value, offset, obj_descr)

    @classmethod
    def _gen_obj_descr(cls, obj, offset, out_name):
        # helper method for 'gen_descr'. Generates description of
        # objects which may be not TElement.
        prefix = f"{out_name}: " if out_name is not None else ""
        if isinstance(obj, dict):
            if len(obj) == 0:
                yield "  " * offset + f"{prefix}{{}}"
            else:
                yield "  " * offset + f"{prefix}{{"
                for map_key, map_value in obj.items():
                    yield from cls._gen_obj_descr(map_value, offset+1, map_key)
                yield "  " * offset + "}"
        elif isinstance(obj, list):
            if len(obj) == 0:
                yield "  " * offset + f"{prefix}[]"
            else:
                yield "  " * offset + f"{prefix}["
                for list_value in obj:
                    yield from cls._gen_obj_descr(list_value, offset+1, None)
                yield "  " * offset + "]"
        elif isinstance(obj, TElement):
            yield from obj.gen_descr(offset, out_name)
        else:
            yield "  " * offset + f"{prefix}{obj}"

    def printme(self):
        """Pretty-print the tree with root in self"""
        for x in self.gen_descr():
            print(x)

    def get(self, name, default=None):
        """Get child TElement by name.

        Exception is raised if more than one element with the same name exists.
        """
        if isinstance(self.value, dict):
            return self.value.get(name, default)
        if self.value is None:
            return default
        matches = [
            e
            for e in self.value
            if isinstance(e, TElement) and e.name == name
        ]
        if len(matches) == 0:
            return default
        elif len(matches) == 1:
            return matches[0]
        raise ValueError(
            f"{self} has {len(matches)} child elements with name '{name}'")

    def get_path_elem(self, path, default=None):
        """Get descendant by path.

        Exception is raised if on some step more than one element with the expected
        name exists.
        """
        if isinstance(path, str):
            path = path.split('.')

        cur_elem = self
        for p in path:
            if not isinstance(cur_elem, TElement):
                return default
            cur_elem = cur_elem.get(p)
        return cur_elem

    def get_path_val(self, path, default=None):
        """Get value of descendant by path.

        Exception is raised if on some step more than one element with the expected
        name exists.
        """
        t_elem = self.get_path_elem(path)
        if t_elem is None or t_elem.value is None:
            return default
        return t_elem.value

    def find_all(self, predicate=None, *, exclude_root=True, bottom_first=False):
        """Returns a list of child TElement objects which match the predicate.

        Arguments:
        - predicate: may be one of
          - None (default) - return all objects
          - str - interpreted as a name of TElement
          - iterable(str) - interpreted as a collection of matching TElement names
          - callable - callable predicate TElement => bool.
        - exclude_root: (=True). Indicates if to exclude the self even if it matches
            the predicate. By default only the descendant elements are reported.
        - bottom_first: (=False). Specifies, that an element should be reported
            only after all it's descendants are reported. By default an element
            is reported before any of it's descendants.
            In both cases depth-first-search iteration method is used.
        """
        return list(self.iter_all(
            predicate, exclude_root=exclude_root, bottom_first=bottom_first))

    def find_first(self, predicate=None, *, exclude_root=True, bottom_first=False):
        """Returns a single TElement object which match the predicate or None.

        Arguments are similar to 'find_all' method.
        """
        for t_elem in self.iter_all(
            predicate, exclude_root=exclude_root, bottom_first=bottom_first
        ):
            return t_elem
        return None

    def iter_all(self, predicate=None, *, exclude_root=True, bottom_first=False):
        """Yield all the child TElement objects which match the predicate.

        Arguments are similar to 'find_all' method.
        """
        if predicate is None:
            _predicate = lambda t_elem: True
        elif callable(predicate):
            _predicate = predicate
        elif isinstance(predicate, str):
            # this is a name of TElement
            _predicate = lambda t_elem: t_elem.name == predicate
        elif isinstance(predicate, collections.abc.Iterable):
            # this is a list of acceptable TElement names
            acceptable_names = set(predicate)
            _predicate = lambda t_elem: t_elem.name in acceptable_names
        else:
            assert False, (
                f"unexpected predicate of type {type(predicate)} specified. "
                f"The predicate can be None, string, list of strings or callable")

        for t_elem in self._iter_children(bottom_first):
            if _predicate(t_elem):
                if not exclude_root or self is not t_elem:
                    yield t_elem

    def _iter_children(self, bottom_first):
        # iterate through all the child TElement objects

        cur_stack = [[self, ], ]
        cur_pos = [0]

        while cur_stack:
            assert len(cur_stack) == len(cur_pos)
            if cur_pos[-1] >= len(cur_stack[-1]):
                cur_pos.pop()
                cur_stack.pop()
                if not cur_stack:
                    continue
                # finish processing current element
                if bottom_first:
                    cur_elem = cur_stack[-1][cur_pos[-1]]
                    if isinstance(cur_elem, TElement):
                        yield cur_elem
                cur_pos[-1] += 1
                continue

            cur_elem = cur_stack[-1][cur_pos[-1]]

            # start processing current element
            value = None
            if isinstance(cur_elem, TElement):
                if not bottom_first:
                    yield cur_elem
                value = cur_elem.value

            children_list = None
            if isinstance(value, list):
                children_list = value
            elif isinstance(value, dict):
                children_list = [x for item in value.items() for x in item]
            else:
                children_list = []

            cur_stack.append(children_list)
            cur_pos.append(0)


class ProdRule:
    """Info about production rule 'A' -> ('B', 'C', 'D').

    Name 'production' is used for the result symbols, ('B', 'C', 'D') in this case.
    """
    __slots__ = 'symbol', 'production', 'sort_n'

    def __init__(self, symbol, production, sort_n):
        self.symbol = symbol
        self.production = production
        self.sort_n = sort_n

    def __str__(self):
        return f"'{self.symbol}' -> {self.production} #{self.sort_n}"


#########################
# Production Templates

class ProdsTemplate:
    """Base class for Production Templates.

    Production Template is an object, which can generate multiple productions
    for LLParser grammar. Optionally it can post-process corresponding sub-tree
    of the parsing results.
    """
    CAN_POST_PROCESS_TELEM = True

    def __init__(self):
        self.result_symbol = None

    def _ensure_initialized(self):
        assert self.result_symbol is not None, (
            f"{self} is not initialized. Call 'complete_init' "
            f"method to complete initialzation")

    def complete_init(self, result_symbol: str, terminals, parser_summary) -> None:
        """Complete initialization.

        Method is called during construction of LLParser to let the ProdsTemplate
        the context where it was created.
        """
        _ = terminals
        _ = parser_summary
        assert self.result_symbol is None, (
            f"{self} is already initialized (with result symbol "
            f"'{self.result_symbol}')")
        self.result_symbol = result_symbol

    def verify_grammar(self, llparser, nullables, parser_summary):
        pass

    def gen_productions(self):
        assert False, f"not implemented in {str(type(self))}"
        yield from []

    @staticmethod
    def _find_index(symbols_list, symbol):
        # mini helper: list.index but returns None if item not found
        try:
            i = symbols_list.index(symbol)
        except ValueError:
            i = None
        return i


class ProdSequence(ProdsTemplate):
    """Productions which match a sequence of elements.

    Creates productions which match "any of given symbols in any order".
    Resulting TElement is a leaf, it's value is a list of matched TElement objects.
    """
    CAN_POST_PROCESS_TELEM = False

    def __init__(self, *symbols):
        super().__init__()
        self.symbols = list(symbols)
        self.element_symbol_name = None

    def complete_init(self, result_symbol, terminals, parser_summary) -> None:
        """Complete initialization."""
        assert result_symbol is not None
        super().complete_init(result_symbol, terminals, parser_summary)
        assert self.result_symbol is not None

        self.element_symbol_name = f"{self.result_symbol}__ELEMENT"

        # as of now self.symbols may contain special 'AnyTokenExcept' item.
        # It's time to replace it with actual tokens
        num_special_items = sum(
            1 if isinstance(s, AnyTokenExcept) else 0
            for s in self.symbols)
        if num_special_items > 1:
            raise GrammarError(
                parser_summary,
                f"production for symbol '{self.result_symbol}' contains "
                f"{num_special_items} 'AnyTokenExcept' elements. "
                f"Max allowed number is 1.")
        elif num_special_items == 1:
            new_ss = []
            for s in self.symbols:
                if isinstance(s, AnyTokenExcept):
                    new_ss.extend(
                        s.get_tokens(terminals, self.result_symbol, parser_summary))
                else:
                    new_ss.append(s)
            self.symbols = new_ss

    def gen_productions(self):
        """Generate the productions to match the sequence of elements."""
        self._ensure_initialized()
        # Corresponding productions are similar to productions of a list
        # 'THE_SEQUENCE': [
        #    ('SEQUENCE__ELEMENT', 'THE_SEQUENCE'),
        #    None,
        #  ]
        yield self.result_symbol, [
            (self.element_symbol_name, self.result_symbol),
            (),
        ]
        # 'SEQUENCE__ELEMENT': [
        #    (symbol, ),
        #    ...
        #  ]
        yield self.element_symbol_name, [
            (s, ) for s in self.symbols
        ]


class ListProds(ProdsTemplate):
    """Production Template for matching list structures.

    Instead of specifying all the productions required to parse a list of some
    items in LLParser constructor, it is possible to specify a single template:

    'LIST_PROD': ListProds(
        '[', 'LIST_ITEM', ',', ']',
        allow_final_delimiter=True, optional=False)

    It is necessary to specify name of the symbol corresponding to the list item,
    but None can be specified in place of '[', ',', ']',
    """
    def __init__(
        self,
        open_br: str, item_symbol: str, delimiter: str, close_br: str, *,
        allow_final_delimiter=None,
        optional=None,
    ):
        """ListProds constructor.

        Arguments:
        - open_br: optional name of "open bracket" symbol
        - item_symbol: name of the symbol of list item
        - delimiter: name of list delimiter symbol
        - close_br: optional name of "close bracket" symbol
        - allow_final_delimiter: allow lists like [1, 2, 3, ]
        - optional: indicates that the whole list is optional

        Example:
        'LIST_PROD': ListProds('[', 'LIST_ITEM', ',', ']')

        """
        assert (open_br is None) == (close_br is None), (
            f"'open_br' and 'close_br' can be None only simultaneously: "
            f"{open_br=}; {close_br=}")

        if allow_final_delimiter is None:
            allow_final_delimiter = delimiter is not None and open_br is not None

        if allow_final_delimiter:
            assert delimiter is not None and open_br is not None, (
                f"In ListProd for '{item_symbol}': allow_final_delimiter can "
                f"be True only if open_br, close_br and delimiter are not None")

        if optional is not None:
            assert open_br is not None, (
                f"'optional' argument is implemented only for lists with brackets")
        else:
            optional = False

        super().__init__()

        self.open_br = open_br
        self.item_symbol = item_symbol
        self.delimiter = delimiter
        self.close_br = close_br
        self.allow_final_delimiter = allow_final_delimiter
        self.optional = optional

        self.list_tail_symbol = None
        self.list_prods_signatures = None
        self.tail_prods_signatures = None

    def complete_init(self, result_symbol, terminals, parser_summary) -> None:
        """Complete initialization."""
        assert result_symbol is not None
        super().complete_init(result_symbol, terminals, parser_summary)
        assert self.result_symbol is not None

        has_brackets = self.open_br is not None
        has_separator = self.delimiter is not None

        if has_brackets or has_separator:
            self.list_tail_symbol = f"{self.result_symbol}__TAIL"
        else:
            self.list_tail_symbol = self.result_symbol

        # list_prods
        # 'THE_LIST': [
        #     ('[', ']'),
        #     ('[', 'ITEM', 'THE_LIST__TAIL', ']'),
        #     None,   <- only if self.optional
        # ],
        list_prods = [
            [self.open_br, self.close_br],
            [self.open_br, self.item_symbol, self.list_tail_symbol, self.close_br],
        ]
        if not has_brackets:
            # for lists with brackets it is important that ('[', ']') production
            # goes first. So that "[ ]" be interpreted as empty list, not a list
            # with None element inside (in case 'ITEM' is nullable).
            #
            # But in case there are no brackets it is necessary to try "empty list"
            # option only if the list in empty indeed
            list_prods.reverse()

        if self.optional:
            list_prods.append([])

        if self.list_tail_symbol == self.result_symbol:
            # it happens iff there are no brakets and no separator
            # in this case there is no need to use separate symbol for tail
            list_tail_prods = list_prods
        else:
            # list_tail_prods
            #
            # 'THE_LIST__TAIL': [
            #     (',', 'ITEM', 'THE_LIST__TAIL'),
            #     (',', ),     <- if last delimiter allowed
            #     None,
            # ],
            list_tail_prods = [
                [self.delimiter, self.item_symbol, self.list_tail_symbol],
                [self.delimiter, ],
                [],
            ]
            if not self.allow_final_delimiter:
                list_tail_prods.pop(1)

        # now list_prods and list_tail_prods contain names of symbols
        # for LIST and LIST__TAIL productions. But these lists
        # may contain None values in place of delimiter.
        # Following methods will purge these extra items.

        self.list_prods_signatures = dict(
            self._make_expected_signature(self.result_symbol, prod)
            for prod in list_prods
        )
        self.tail_prods_signatures = dict(
            self._make_expected_signature(self.list_tail_symbol, prod)
            for prod in list_tail_prods
        )

    def verify_grammar(self, llparser, nullables, parser_summary):
        """Verify that ListProds is compatible with the LLParser."""
        if self.delimiter is None and self.item_symbol in nullables:
            raise GrammarError(
                parser_summary,
                f"List item symbol '{self.item_symbol}' is nullable. "
                f"It is prohibited for lists without separator symbol.")

    def _make_expected_signature(self, symbol, prod_symbols):
        # constructor helper, prepares signatures of expected TElement objects
        # and positions of 'item' and 'tail' child elements
        prod_symbols = tuple(s for s in prod_symbols if s is not None)

        signature = TElemSignature(symbol, prod_symbols)
        positions = (
            self._find_index(prod_symbols, self.item_symbol),
            self._find_index(prod_symbols, self.list_tail_symbol),
        )
        return signature, positions

    def __str__(self):
        result = self.result_symbol or "??"
        op = "" if self.open_br is None else self.open_br
        cl = "" if self.close_br is None else self.close_br
        sep = "" if self.delimiter is None else f"{self.delimiter} "
        return (
            f"{type(self).__name__}<{result} -> "
            f"{op}{self.item_symbol}{sep}...{cl}>")

    def gen_productions(self):
        """Generate grammar productions."""
        self._ensure_initialized()

        yield self.result_symbol, [
            signature.child_names
            for signature in self.list_prods_signatures.keys()
        ]

        if self.list_tail_symbol != self.result_symbol:
            # these symbols are equal iff no brackets are used.
            # in this case self.tail_prods_signatures contains same
            # signatures as self.list_prods_signatures, so no need
            # to generate additional productions
            yield self.list_tail_symbol, [
                signature.child_names
                for signature in self.tail_prods_signatures.keys()
            ]

    def transform_t_elem(self, t_elem: TElement, cleanuper) -> None:
        """Transform subtree corresponding to the list into a single TElement.

        Result TElement is a leaf, it's value is a list of parsed values.
        """
        signature = t_elem.signature()
        assert signature in self.list_prods_signatures, (
            f"Can't make a list from TElement {t_elem} with signature "
            f"{signature}. Expected TElement with one of following signatures: \n"
            f"{', '.join(s for s in sorted(self.list_prods_signatures))}")
        item_elem_pos, tail_elem_pos = self.list_prods_signatures[signature]

        if self.optional and t_elem.value is None:
            return

        values_list = []
        if item_elem_pos is not None:
            item_t_elem = t_elem.value[item_elem_pos]
            cleanuper._cleanup(item_t_elem, for_container=True)
            values_list.append(item_t_elem)

        if tail_elem_pos is not None:
            tail_t_elem = t_elem.value[tail_elem_pos]
            self._parse_tail_t_elem(tail_t_elem, cleanuper, values_list)

        # new_values now contains TElement objects.
        # If some TElement is a leaf - replace it with it's value
        values_list = [
            x.value if x.is_leaf() else x
            for x in values_list
        ]

        if (
            len(values_list) > 0
            and values_list[-1] is None
            and self.allow_final_delimiter
        ):
            # "[1, 2, 3, ]" may be interpreted as ["1", "2", "3", None].
            # Do not do it if final delimiter is allowed.
            values_list.pop()
        elif (
            self.open_br is None
            and len(values_list) == 1
            and values_list[0] is None
        ):
            # missing list without brackets may be interpreted as containing a single
            # None value. But empty list is a more apropriate interpretation.
            values_list = []

        t_elem._is_leaf = True
        t_elem.value = values_list

    def _parse_tail_t_elem(self, t_elem: TElement, cleanuper, values_list) -> None:
        # helper for self.transform_t_elem.
        # process subtree corresponding to 'THE_LIST__TAIL' symbol.
        signature = t_elem.signature()
        assert signature in self.tail_prods_signatures, (
            f"Unexpected TElement {t_elem} with signature {signature} encountered "
            f"while processing list tail. Expected TElement with one of following "
            f"signatures: \n"
            f"{', '.join(s for s in sorted(self.tail_prods_signatures))}")
        item_elem_pos, tail_elem_pos = self.tail_prods_signatures[signature]

        if item_elem_pos is not None:
            item_t_elem = t_elem.value[item_elem_pos]
            cleanuper._cleanup(item_t_elem, for_container=True)
            values_list.append(item_t_elem)

        if tail_elem_pos is not None:
            tail_t_elem = t_elem.value[tail_elem_pos]
            self._parse_tail_t_elem(tail_t_elem, cleanuper, values_list)


class MapProds(ProdsTemplate):
    """Production Template for matching map-like structures.

    Instead of specifying all the productions required to parse a map of some
    items in LLParser constructor, it is possible to specify a single template:

    'MAP_PROD': llparser.MapProds('{', 'WORD', ':', 'VALUE', ',', '}'),
    """

    def __init__(
        self, open_br: str,
        key_symbol: str, assign_symbol: str, val_symbol: str,
        delimiter: str, close_br: str, *,
        optional=None,
        allow_final_delimiter=True,
    ):
        """MapProds constructor.

        Arguments:
        - open_br: name of "open bracket" symbol
        - key_symbol: name of the symbol of map key item
        - assign_symbol: name of the 'assignment' symbol
        - val_symbol: name of the symbol of map key item
        - delimiter: name of list delimiter symbol
        - close_br: name of "close bracket" symbol
        - allow_final_delimiter: allow maps like "{a=1, b=2, }"
        - optional: indicates that the whole list is optional

        Example:
        'MAP_PROD': llparser.MapProds('{', 'WORD', ':', 'VALUE', ',', '}'),
        """

        assert (open_br is None) == (close_br is None), (
            f"'open_br' and 'close_br' can be None only simultaneously: "
            f"{open_br=}; {close_br=}")

        assert assign_symbol is not None, "MapProds w/o assign_symbol not implemented"
        assert delimiter is not None, "MapProds w/o delimiter not implemented"

        if optional is not None:
            assert open_br is not None, (
                f"'optional' argument is implemented only for lists with brackets")
        else:
            optional = False

        super().__init__()

        self.open_br = open_br
        self.key_symbol = key_symbol
        self.assign_symbol = assign_symbol
        self.val_symbol = val_symbol
        self.delimiter = delimiter
        self.close_br = close_br
        self.optional = optional
        self.allow_final_delimiter = allow_final_delimiter

        self.kv_pair_symbol = None
        self.kv_tail_symbol = None

        self.map_prods_signatures = None
        self.kv_tail_prods_signatures = None
        self.kv_prod_signature = None

    def complete_init(self, result_symbol, terminals, parser_summary) -> None:
        """Complete initialization."""
        assert result_symbol is not None
        super().complete_init(result_symbol, terminals, parser_summary)
        assert self.result_symbol is not None

        self.kv_pair_symbol = f"{self.result_symbol}__KV_PAIR"
        self.kv_tail_symbol = f"{self.result_symbol}__ELEMENTS"

        # map_prods
        # 'THE_MAP': [
        #     ('{', '}'),
        #     ('{', 'THE_MAP__KV_PAIR', 'THE_MAP__KV_TAIL', '}'),
        #     None,    <- only if self.optional
        # ],
        map_prods = [
            [self.open_br, self.close_br],
            [self.open_br, self.kv_pair_symbol, self.kv_tail_symbol, self.close_br],
        ]
        if self.optional:
            map_prods.append([])

        # map_kv_tail
        # 'THE_MAP__KV_TAIL': [
        #     (',', 'THE_MAP__KV_PAIR', 'THE_MAP__KV_TAIL'),
        #     (',', ),  <- if last delimiter allowed
        #     None,
        # ],
        map_kv_tail_prods = [
            [self.delimiter, self.kv_pair_symbol, self.kv_tail_symbol],
            [self.delimiter, ],
            [],
        ]
        if not self.allow_final_delimiter:
            map_kv_tail_prods.pop(1)

        # kv_prod
        # 'THE_MAP__KV_PAIR': [
        #     ('KEY', ':', 'VALUE'),
        # ]
        kv_prod = [self.key_symbol, self.assign_symbol, self.val_symbol]

        self.map_prods_signatures = dict(
            self._make_expected_signature(self.result_symbol, prod)
            for prod in map_prods
        )
        self.kv_tail_prods_signatures = dict(
            self._make_expected_signature(self.kv_tail_symbol, prod)
            for prod in map_kv_tail_prods
        )
        self.kv_prod_signature = TElemSignature(self.kv_pair_symbol, tuple(kv_prod))

    def _make_expected_signature(self, symbol, prod_symbols):
        # constructor helper, prepares signatures of expected TElement objects
        # and positions of 'kv_pair' and 'kv_tail' child elements
        prod_symbols = tuple(s for s in prod_symbols if s is not None)

        signature = TElemSignature(symbol, prod_symbols)
        positions = (
            self._find_index(prod_symbols, self.kv_pair_symbol),
            self._find_index(prod_symbols, self.kv_tail_symbol),
        )
        return signature, positions

    def __str__(self):
        result = self.result_symbol or "??"
        sep = "" if self.delimiter is None else f"{self.delimiter} "

        return (
            f"{type(self).__name__}<{result} -> "
            f"{self.open_br}{self.key_symbol}{self.assign_symbol}"
            f"{self.val_symbol}{sep}...{self.close_br}>")

    def gen_productions(self):
        """Generate grammar productions."""
        self._ensure_initialized()

        yield self.result_symbol, [
            signature.child_names
            for signature in self.map_prods_signatures.keys()
        ]

        yield self.kv_tail_symbol, [
            signature.child_names
            for signature in self.kv_tail_prods_signatures.keys()
        ]

        yield self.kv_pair_symbol, [
            self.kv_prod_signature.child_names
        ]

    def transform_t_elem(self, t_elem: TElement, cleanuper) -> None:
        """Transform subtree corresponding to the map into a single TElement.

        Result TElement is a leaf, it's value is the map of parsed keys/values.
        """
        signature = t_elem.signature()
        assert signature in self.map_prods_signatures, (
            f"Can't make a map from TElement {t_elem} with signature "
            f"{signature}. Expected TElement with one of following signatures: \n"
            f"{', '.join(s for s in sorted(self.map_prods_signatures))}")
        kv_pair_pos, kv_tail_pos = self.map_prods_signatures[signature]

        if self.optional and t_elem.value is None:
            return

        kv_pairs = []
        if kv_pair_pos is not None:
            kv_pair = self._parse_kv_pair(t_elem.value[kv_pair_pos], cleanuper)
            kv_pairs.append(kv_pair)

        if kv_tail_pos is not None:
            self._parse_kv_tail(t_elem.value[kv_tail_pos], cleanuper, kv_pairs)

        t_elem._is_leaf = True
        t_elem.value = dict(kv_pairs)

    def _parse_kv_tail(self, t_elem: TElement, cleanuper, kv_pairs):
        # helper for self.transform_t_elem.
        # process subtree corresponding to 'THE_MAP__KV_TAIL' symbol.
        signature = t_elem.signature()
        assert signature in self.kv_tail_prods_signatures, (
            f"Unexpected TElement {t_elem} with signature {signature} encountered "
            f"while processing map contents. Expected TElement with one of following "
            f"signatures: \n"
            f"{', '.join(s for s in sorted(self.kv_tail_prods_signatures))}")
        kv_pair_pos, kv_tail_pos = self.kv_tail_prods_signatures[signature]

        if kv_pair_pos is not None:
            kv_pair = self._parse_kv_pair(t_elem.value[kv_pair_pos], cleanuper)
            kv_pairs.append(kv_pair)

        if kv_tail_pos is not None:
            self._parse_kv_tail(t_elem.value[kv_tail_pos], cleanuper, kv_pairs)

    def _parse_kv_pair(self, t_elem: TElement, cleanuper):
        # helper for self.transform_t_elem.
        # process subtree corresponding to 'THE_MAP__KV_PAIR' symbol.
        signature = t_elem.signature()

        assert signature == self.kv_prod_signature, (
            f"Unexpected TElement {t_elem} with signature {signature} encountered "
            f"while processing map's key-value pair. Expected TElement with "
            f"signature: {self.kv_prod_signature}")

        key_elem = t_elem.value[0]
        val_elem = t_elem.value[2]

        cleanuper._cleanup(key_elem, for_container=True)
        cleanuper._cleanup(val_elem, for_container=True)

        key = key_elem.value if key_elem.is_leaf() else key_elem
        val = val_elem.value if val_elem.is_leaf() else val_elem

        return (key, val)


class AnyTokenExcept:
    """Argument of LLParser constructor.

    Indicates that a number of one-token Production Rules should be created:
    "(token, )" for each token except of specified ones.
    """
    def __init__(self, *tokens):
        self.tokens = tokens

    def get_tokens(self, terminals, for_symbol, parser_summary):
        """Get list of all terminals except those specified for constructor.

        Arguments:
        - terminals: all the terminals
        - for_symbol: context (for reporting purposes only).
        """
        tokens_to_exclude = set(self.tokens)
        unexpected_tokens = tokens_to_exclude - terminals
        if unexpected_tokens:
            raise GrammarError(
                parser_summary,
                f"unknown terminal(s) specified in 'AnyTokenExcept' item: "
                f"of productions of symbol '{for_symbol}': {unexpected_tokens}")
        return [t for t in terminals if t not in tokens_to_exclude]


class _StackElement:
    # represents current position of parsing
    #
    # means: we try to match symbol starting from a token at given position
    # we have already matched first several symbols of current production
    # corresponding match results are stored in values
    def __init__(self, symbol, token_pos, prod_rs):
        self.symbol = symbol
        self.start_token_pos = token_pos
        self.cur_token_pos = token_pos
        self.prod_rs = prod_rs  # [ProdRule, ]
        self.cur_prod_id = 0
        self.values = []
        self.log_offset = 0

    def clone(self):
        """clone self"""
        clone = _StackElement(self.symbol, self.start_token_pos, self.prod_rs)
        clone.cur_token_pos = self.cur_token_pos
        clone.cur_prod_id = self.cur_prod_id
        clone.values = self.values[:]
        return clone

    def get_cur_prod(self) -> ProdRule:
        return self.prod_rs[self.cur_prod_id]

    def get_cur_symbol(self):
        """Gen next unmatched symbol in current production."""
        return self.prod_rs[self.cur_prod_id].production[len(self.values)]

    def next_matched(self, value, new_token_pos):
        """Register found matching value for current symbol in current production."""
        assert isinstance(value, TElement)
        self.values.append(value)
        self.cur_token_pos = new_token_pos

    def switch_to_next_prod(self):
        self.values = []
        self.cur_token_pos = self.start_token_pos
        self.cur_prod_id += 1


class ParserSummary:
    """Contains information about LLParser. Used for reporting only.

    This class keeps information about LLParser even if the LLParser's construction
    failed. To report such errors it's good to have all parser's properties
    accumulated in the single place.
    """

    def __init__(self):
        self.terminals = None
        self.orig_prods_map = None
        self.prods_map = None
        self.parse_table = None
        self.nullables = None
        self.first_sest = None
        self.follow_sets = None
        self.cleanuper = None

    def gen_detailed_descr(self):
        """Generate lines of human-readable description of the LLParser."""
        mk_descr_len = lambda x, size: f"'{x}'" + " "*(max(0, size - len(str(x))))

        yield "= Parser summary ="
        yield ""
        if self.terminals is None:
            yield "-- no parser data ready yet --"
            return
        yield f"Terminals: {self.terminals}"
        yield ""
        yield from self._descr_prods_map("Original Productions", self.orig_prods_map)
        yield ""
        yield from self._descr_prods_map("Factorized Productions", self.prods_map)
        yield ""

        if self.parse_table is None:
            yield "Parse Table: <n/a>"
        else:
            yield "Parse Table:"
            cur_symbol = None
            for (symbol, token), prod_rs in self.parse_table.items():
                if symbol != cur_symbol:
                    yield f"    '{symbol}':"
                    cur_symbol = symbol
                token_descr = mk_descr_len(token, 10)
                for prod in prod_rs:
                    yield f"        {token_descr}->{prod.production}"
        yield ""

        if self.nullables is None:
            yield "Nullables: <n/a>"
            yield "Not Nullables: <n/a>"
        else:
            yield f"Nullables: {self.nullables}"
            not_nullables = self.prods_map.keys() - self.nullables
            yield f"Not Nullables: {not_nullables}"
        yield ""

        if self.first_sest is None:
            yield "FirstSets: <n/a>"
        else:
            yield "FirstSets:"
            for symbol, firsts in sorted(self.first_sest.items()):
                yield f"    {mk_descr_len(symbol, 10)}: {sorted(firsts)}"
        yield ""

        if self.follow_sets is None:
            yield "FollowSets: <n/a>"
        else:
            yield "FollowSets:"
            for symbol, follows in sorted(self.follow_sets.items()):
                yield f"    {mk_descr_len(symbol, 10)}: {sorted(follows)}"
        yield ""

        if self.cleanuper is None:
            yield "Cleanup Rules: <n/a>"
        else:
            yield "Cleanup Rules:"
            yield from self.cleanuper.gen_detailed_descr()
        yield ""

    def _descr_prods_map(self, map_name, prods_map):
        # generates description of grammar's productions
        if prods_map is None:
            yield f"{map_name}: <n/a>"
            return
        yield f"{map_name}:"
        for prod_rs in prods_map.values():
            yield ""
            for rule in prod_rs:
                yield f"    {rule}"


class LLParser:
    """LLParser. Mostly LL1, but can deal with ambiguities in LL1 parsing table."""

    _END_TOKEN_NAME = '$END$'
    _INIT_PRODUCTION_NAME = '$START$'

    def __init__(
            self,
            tokenizer_str,
            *,
            productions,
            synonyms=None,
            span_matchers=None,
            keywords=None,
            skip_tokens=None,
            start_symbol_name='E',
            keep_symbols=None,
            smart_factorization=True,
        ):
        r"""Constructor of LLParser.

        Arguments:
        - tokenizer_str: re pattern for tokenizer. Example:
            r'''
            "(?P<DQ_STRING>[^"]*)"
            |(?P<WORD>[a-zA-Z_][a-zA-Z0-9_]*)
            |(?P<MINUS>-)
            '''
        - productions: {symbol: [production, ]}
        - synonyms: {name_of_re_pattern: name_of_token}.
            Usually used to replace names like 'PLUS' -> '+', and in case when
            different patterns correspond to same token (doble-quote string and
            single-quote string correspond to the same token type 'STRING')
        - keywords: {(token_name, value): token_name}. Some token (name, value)
            combinations indicate are reported as token of other type. For
            example:
            {('WORD', 'class'): 'CLASS'}
        - skip_tokens: set of names of tokens which should be skipped - usually
            tokens corresponding to empty spaces and comments. By default
            'SPACE' and 'COMMENT' tokens are skipped.
        - start_symbol_name: name of the symbol
        - span_matchers: disctionary of regexps for processing 'span' tokens - tokens
            whose values may span between several lines. For example, to match
            c-style comments (/* ....... */) the tokenizer_str should contain
            group for 'opening' symbols ("|(?P<COMMENT_ML>/\*)") and the
            span_matchers dictionary should contain corresponding mask for "anything
            till '*/' symbols combination":
            {'COMMENT_ML': r"(?P<END_COMMENT>(\*[^/]|[^*])*)\*/"}
        - keep_symbols: names of symbols which should not be cleaned-up during
            optional cleanup procedure. Check doc of 'cleanup' method.
        """
        self.tokenizer = _Tokenizer(
            tokenizer_str,
            span_matchers=span_matchers,
            synonyms=synonyms, keywords=keywords)

        self.terminals = self.tokenizer.get_all_token_names()

        # used only for printing detailed description of the parser
        self._summary = ParserSummary()
        self._summary.terminals = self.terminals

        bad_terminals = [t for t in self.terminals if '__' in t]
        assert not bad_terminals, (
            f"Invalid terminals names detected: {bad_terminals}. "
            f"Names containing '__' are reserved")

        if skip_tokens is None:
            # by default we skip 'SPACE' and 'COMMENT' tokens
            self.skip_tokens = {
                t for t in ['SPACE', 'COMMENT'] if t in self.terminals}
        else:
            self.skip_tokens = set(skip_tokens)
            unexpected = self.skip_tokens - self.terminals
            if unexpected:
                raise GrammarError(
                    self._summary,
                    f"uknown token names specified in 'skip_tokens' "
                    f"arg: {unexpected}")

        self.start_symbol_name = start_symbol_name
        orig_prods_map, self._seq_symbols, self.prod_templates = (
            self._create_productions(productions, self.terminals, self._summary))
        self._summary.orig_prods_map = orig_prods_map

        self.prods_map, self._suffix_symbols = self._factorize_productions(
            orig_prods_map, self.terminals, smart_factorization)

        # TODO: order of these operations is strange and unexpected.
        # do something with it.
        self.terminals.add(self._END_TOKEN_NAME)

        self._summary.prods_map = self.prods_map

        self._verify_grammar_structure_part1(self._summary)

        nullables = self._get_nullables(self.prods_map)
        self._summary.nullables = nullables

        for prod_template in self.prod_templates.values():
            prod_template.verify_grammar(self, nullables, self._summary)

        self.cleanuper = StdCleanuper.make(self, keep_symbols)
        self._summary.cleanuper = self.cleanuper

        self.parse_table, first_sets, follow_sets = self._make_llone_table(
            self.prods_map, self.terminals, nullables,
            self.start_symbol_name,
        )
        self._summary.parse_table = self.parse_table
        self._summary.first_sest = first_sets
        self._summary.follow_sets = follow_sets

        self._verify_grammar_structure_part2(nullables, self._summary)

    def parse(
        self, text, *,
        src_name="input text", debug=False, do_cleanup=True, start_symbol_name=None,
    ):
        """Parse the text.

        Arguments:
        - text: text to parse. It may be:
          - string. In this case it is split into lines first
          - Iterable[str]
        - src_name: arbitrary name of the input, to be used in diagnostic
            messages. For example name of the file the text comes from.
        - debug: print parsing details to log
        - do_cleanup: (=True) - cleanup the result (parsed tree). Cleanup
            process converts subtrees corresponding to lists into actual lists,
            etc. Check StdCleanuper class documentation for more details.
        - start_symbol_name: optional name of the start symbol.
            Usually the start_symbol_name is specified in constructor. This
            argument is supposed to be used for parser debugging purposes only,
            to check how small parts of source text are parsed.
        """
        if start_symbol_name is not None:
            assert start_symbol_name in self.prods_map, (
                f"unknown start parsing symbol '{start_symbol_name}' specified")
        else:
            start_symbol_name = self.start_symbol_name

        tokens = [
            t for t in self.tokenizer.tokenize(text, src_name)
            if t.name not in self.skip_tokens
        ]

        parse_stack = []  # [_StackElement, ]
        def _put_on_stack(stack_elem):
            parse_stack.append(stack_elem)
            if len(parse_stack) > 1:
                prev_top = parse_stack[-2]
                stack_elem.log_offset = prev_top.log_offset
                if (stack_elem.symbol != prev_top.symbol
                    or stack_elem.symbol not in self._seq_symbols
                ):
                    stack_elem.log_offset += 1

        # init parse stack
        _put_on_stack(_StackElement(
            self._INIT_PRODUCTION_NAME, 0,
            [ProdRule(
                self._INIT_PRODUCTION_NAME,
                (start_symbol_name, self._END_TOKEN_NAME),
                -1,
            )]
        ))

        longest_stack = []
        if debug:
            self._log_cur_prod(parse_stack, tokens)

        while True:
            top = parse_stack[-1]  # _StackElement
            cur_prod = top.get_cur_prod()
            if len(top.values) == len(cur_prod.production):
                # production matched
                if debug:
                    self._log_match_result(parse_stack, tokens)
                new_elem_value = top.values

                if len(new_elem_value) == 0:
                    # result of the production is empty.
                    # really not sure if to leave it [] or make it None.
                    new_elem_value = None
                    # anyway, as there are no child elements it's necessary
                    # to find out the element position now
                    cur_src_pos = tokens[top.cur_token_pos].start_pos
                    t_elem = TElement(
                        top.symbol, new_elem_value,
                        start_pos=cur_src_pos,
                        end_pos=cur_src_pos,
                    )
                else:
                    t_elem = TElement(top.symbol, new_elem_value)

                if (len(cur_prod.production) > 0
                    and cur_prod.production[-1] in self._suffix_symbols
                ):
                    # this production corresponds to a factorized group
                    # X -> (..common prefix.., X_Sxx)
                    # It's time to merge suffix contents into self
                    suffix_elem = t_elem.value.pop()
                    if suffix_elem.value is not None:
                        t_elem.value.extend(suffix_elem.value)

                new_token_pos = top.cur_token_pos
                parse_stack.pop()

                if t_elem.name in self._seq_symbols:
                    self._process_seq_telement(t_elem)

                if not parse_stack:
                    # success!
                    # t_elem now is the TElement corresponding to technical
                    # initial production '$START$' -> ('E', '$END$').
                    assert len(t_elem.value) == 2
                    root = t_elem.value[0]
                    if debug:
                        print("RAW RESULT:")
                        root.printme()
                    if do_cleanup:
                        self.cleanuper.cleanup(root)
                        if debug:
                            print("FINAL RESULT:")
                            root.printme()
                    return root
                top = parse_stack[-1]
                top.next_matched(t_elem, new_token_pos)
                continue
            next_token = tokens[top.cur_token_pos]
            cur_symbol = top.get_cur_symbol()

            if cur_symbol in self.terminals:
                # try to match current token with next symbol
                if next_token.name == cur_symbol:
                    top.next_matched(
                        TElement(
                            cur_symbol, next_token.value,
                            start_pos=next_token.start_pos,
                            end_pos=next_token.end_pos,
                        ),
                        top.cur_token_pos+1)
                    continue
            else:
                # next symbol is not terminal. Productions which potentially
                # can match this symbol:
                prods = self.parse_table.get((cur_symbol, next_token.name))
                if prods is not None:
                    _put_on_stack(_StackElement(cur_symbol, top.cur_token_pos, prods))
                    if debug:
                        self._log_cur_prod(parse_stack, tokens)
                    continue

            # current production does not match. Try to rollback
            # and attempt other options
            # Find rollback point
            if debug:
                self._log_match_result(parse_stack, tokens)
            if (
                not longest_stack
                or longest_stack[-1].cur_token_pos < parse_stack[-1].cur_token_pos
            ):
                longest_stack = [x.clone() for x in parse_stack]

            rollback_point = len(parse_stack) - 1
            while rollback_point >= 0:
                elem = parse_stack[rollback_point]
                if elem.cur_prod_id < len(elem.prod_rs) - 1:
                    # yes, we can try next production on this stack element
                    break
                rollback_point -= 1
            if rollback_point >= 0:
                parse_stack = parse_stack[:rollback_point+1]
                parse_stack[-1].switch_to_next_prod()
                if debug:
                    self._log_cur_prod(parse_stack, tokens)
                continue

            # report fail. Looks like it's good idea to describe the path
            # which reached fartherst when trying to parse the text
            top = longest_stack[-1] if longest_stack else parse_stack[-1]
            next_tokens = tokens[top.start_token_pos:top.start_token_pos+5]
            attempted_prods = top.prod_rs
            raise ParsingError(top.symbol, next_tokens, attempted_prods)

    def cleanup(self, t_elem: TElement) -> None:
        """Clean up the tree with root in TElement.

        Usually the cleanup is performed in parse method, in this case there is
        no need to repeat the cleanup. Use this method only if parse was called
        with do_cleanup=False.
        """
        if self.cleanuper is None:
            logger.warning(
                "LLParser %s was created without cleanuper, skip cleanup operation",
                self)
            return
        self.cleanuper.cleanup(t_elem)

    def is_ambiguous(self) -> bool:
        """Checks if grammar is LL1.
        That is there is no more than one production for (symbol, next_token) pair.
        """
        return any(len(prods) != 1 for prods in self.parse_table.values())

    def _verify_grammar_structure_part1(self, parser_summary):
        # initial verification of grammar structure
        # to be called before parse_table is prepared
        #
        # reports only very obvious problems. Less obvious problems
        # can be detected and/or properly reported only after parser is prepared
        if self.start_symbol_name not in self.prods_map:
            raise GrammarError(
                parser_summary,
                f"no productions for start symbol '{self.start_symbol_name}'")

        if self._END_TOKEN_NAME in self.prods_map:
            raise GrammarError(
                parser_summary,
                f"production specified for end symbol '{self._END_TOKEN_NAME}'")

        if self._INIT_PRODUCTION_NAME in self.prods_map:
            raise GrammarError(
                parser_summary,
                f"production specified explicitely for "
                f"special symbol '{self._INIT_PRODUCTION_NAME}'")

        non_terminals = set(self.prods_map.keys())
        bad_tokens = non_terminals.intersection(self.terminals)

        if bad_tokens:
            raise GrammarError(
                parser_summary,
                f"ProdRule(s) specified for terminal symbols {bad_tokens}")

        all_prod_symbols = {
            s
            for prod_rules in self.prods_map.values()
            for rule in prod_rules
            for s in rule.production}
        unknown_symbols = all_prod_symbols.difference(
            self.terminals | non_terminals)

        if unknown_symbols:
            raise GrammarError(
                parser_summary,
                f"unexpected symbols {unknown_symbols} used in productions")

        if self._END_TOKEN_NAME in all_prod_symbols:
            raise GrammarError(
                parser_summary,
                f"special end token '{self._END_TOKEN_NAME}' is explicitely "
                f"used in productions")

        if self._INIT_PRODUCTION_NAME in all_prod_symbols:
            raise GrammarError(
                parser_summary,
                f"special start symbol '{self._INIT_PRODUCTION_NAME}' is explicitely "
                f"used in productions")

    def _verify_grammar_structure_part2(self, nullables, parser_summary):
        # verification of grammar structure
        # to be called after parse_table is prepared

        # make sure grammar is not recursive - that is that it's not
        # possible that if we try to expand a symbol in several steps
        # we end up trying to exand same symbol but have not consumed
        # any tokens
        processed_symbols = set(self.terminals)
        for symbol, prod_rules in sorted(self.prods_map.items()):
            # depth-first-search of the same symbol
            if symbol in processed_symbols:
                continue
            # (symbol, prod_rules, cur_prod_id, cur_symbol_id)
            stack = [[symbol, prod_rules, 0, 0], ]
            def _next_prod(_stack):
                _stack[-1][2] += 1
                _stack[-1][3] = 0

            def _next_symbol(_stack):
                _stack[-1][3] += 1

            while stack:
                top = stack[-1]
                prod_symbol, prod_rules, cur_prod_id, cur_symbol_id = top
                if cur_prod_id >= len(prod_rules):
                    stack.pop()
                    processed_symbols.add(prod_symbol)
                    if stack:
                        top = stack[-1]
                        cur_prod = top[1][top[2]]
                        cur_prod_symbol = cur_prod.production[top[3]]
                        if cur_prod_symbol in nullables:
                            _next_symbol(stack)
                        else:
                            _next_prod(stack)
                    continue
                cur_prod = prod_rules[cur_prod_id]
                if cur_symbol_id >= len(cur_prod.production):
                    _next_prod(stack)
                    continue
                cur_symbol = cur_prod.production[cur_symbol_id]
                # check if this symbol is already present on stack
                for i, (stack_symbol, _, _, _) in enumerate(stack):
                    if stack_symbol == cur_symbol:
                        # found cycle
                        cycle_data = [
                            (s, prod_rules[prod_id], symbol_id)
                            for s, prod_rules, prod_id, symbol_id in stack[i:]
                        ]
                        raise GrammarIsRecursive(
                            parser_summary, cycle_data, nullables)

                if cur_symbol in processed_symbols:
                    if cur_symbol in nullables:
                        _next_symbol(stack)
                    else:
                        _next_prod(stack)
                    continue
                # cur_symbol is non-terminal. May need to go deeper
                if cur_symbol_id > 0:
                    prev_symbol = cur_prod.production[cur_symbol_id-1]
                    prev_symbol_is_nullable = prev_symbol in nullables
                else:
                    prev_symbol_is_nullable = True

                if not prev_symbol_is_nullable:
                    # do not check current symbol because previous not nullable
                    _next_prod(stack)
                    continue

                # do need to go deeper
                stack.append([cur_symbol, self.prods_map[cur_symbol], 0, 0])

    def _log_cur_prod(self, parse_stack, tokens):
        # log current production
        top = parse_stack[-1]
        prefix = "  "*top.log_offset
        if top.cur_prod_id == 0:
            self._log_debug(
                prefix + "try match '%s': (next token #%s) %s)",
                parse_stack[-1].symbol, top.start_token_pos,
                tokens[top.start_token_pos])
        self._log_debug(
            prefix + "- (%s/%s) %s",
            top.cur_prod_id+1, len(top.prod_rs), top.get_cur_prod())

    def _log_match_result(self, parse_stack, tokens):
        # log result of the match
        top = parse_stack[-1]
        prefix = "  "*top.log_offset
        cur_prod = top.get_cur_prod()
        is_success = len(top.values) == len(cur_prod.production)
        if is_success:
            self._log_debug(prefix + "'%s' matched", top.symbol)
        else:
            failed_symbol = cur_prod.production[len(top.values)]
            failed_token = tokens[top.cur_token_pos]
            self._log_debug(
                prefix + "'%s' desn't match. Prod symbol '%s' doesn't match '%s'",
                top.symbol,
                failed_symbol, failed_token)

    def _log_debug(self, *args, **kwargs):
        logger.error(*args, **kwargs)

    def _process_seq_telement(self, t_elem):
        # helper of 'parse' method.
        # immediately process (cleanup) TElement which corresponds
        # to 'ProdSequence' production.
        assert t_elem.name in self._seq_symbols

        if t_elem.value is None:
            # end of the sequence
            seq = []
        else:
            # t_elem corresponds to a production which looks like
            # ('SEQUENCE_ITEM', 'SEQUENCE_TAIL')
            #
            # The 'SEQUENCE_TAIL' child element is already processed and
            # contains the list of elements of the tail of sequence
            assert len(t_elem.value) == 2

            assert t_elem.value[1].name == t_elem.name
            seq = t_elem.value[1].value

            next_item = t_elem.value[0]
            assert isinstance(next_item, TElement)
            assert len(next_item.value) == 1
            next_val = next_item.value[0]
            seq.insert(0, next_val)

        t_elem.value = seq
        t_elem._is_leaf = True

    @classmethod
    def _make_llone_table(cls, prods_map, terminals, nullables, start_symbol_name):
        """Make Parsing Table.

        Returns possible productions for non-terminal-symbol and next token:
            {(non_term_symbol, next_token): [production, ]}
        """
        first_sets = cls._calc_first_sets(prods_map, terminals, nullables)
        follow_sets = cls._calc_follow_sets(
            prods_map, terminals, nullables, first_sets, start_symbol_name)

        parse_table = defaultdict(list)
        for non_term, prod_rs in prods_map.items():
            for prod_rule in prod_rs:
                start_symbols = set()
                for symbol in prod_rule.production:
                    if symbol is None:
                        assert len(prod_rule.production) == 1
                        continue
                    if symbol in terminals:
                        start_symbols.add(symbol)
                        break
                    # symbol is non-terminal
                    start_symbols |= first_sets[symbol]
                    if symbol not in nullables:
                        break
                else:
                    # all the symbols in production are nullable
                    assert non_term in nullables
                    start_symbols |= follow_sets[non_term]

                for first_symbol in start_symbols:
                    parse_table[(non_term, first_symbol)].append(prod_rule)

        for prod_rs in parse_table.values():
            prod_rs.sort(key=lambda r: r.sort_n)

        return parse_table, first_sets, follow_sets

    @classmethod
    def _calc_follow_sets(
        cls, prods_map, terminals, nullables, first_sets, start_symbol_name,
    ):
        """Calculate 'follow-sets'

        {'NON_TERM': set(t| S ->* b NON_TERM t XXX)}
        """
        assert start_symbol_name in prods_map, (
            f"invalid grammar: there are no productions for "
            f"start symbol '{start_symbol_name}'")

        follow_sets = {non_term: set() for non_term in prods_map.keys()}
        follow_sets[start_symbol_name].add(cls._END_TOKEN_NAME)

        # follows dependencies rules: follow set for a symbol must include
        # follow sets of all the dependent symbols
        follows_deps = {non_term: set() for non_term in prods_map.keys()}

        # 1. calculate 'immediate follows' - cases when non-terminal symbol
        # is followed by terminal or non-terminal in some production
        for non_term, prod_rs in sorted(prods_map.items()):
            for prod_r in prod_rs:
                for i, cur_symbol in enumerate(prod_r.production):
                    if cur_symbol in terminals:
                        continue
                    for next_symbol in prod_r.production[i+1:]:
                        if next_symbol in terminals:
                            follow_sets[cur_symbol].add(next_symbol)
                        else:
                            follow_sets[cur_symbol].update(first_sets[next_symbol])
                        if next_symbol not in nullables:
                            break
                    else:
                        # all the symbols after cur_symbol are nullable
                        # so, any token which can follow top-level non_term
                        # may follow cur_symbol as well
                        follows_deps[cur_symbol].add(non_term)

        # 2. finalize follow_sets
        while True:
            sets_updated = False
            for symbol, depends in follows_deps.items():
                follow_set = follow_sets[symbol]
                orig_len = len(follow_set)
                for dep in depends:
                    follow_set.update(follow_sets[dep])
                sets_updated |= len(follow_set) != orig_len
            if not sets_updated:
                break

        return follow_sets

    @staticmethod
    def _get_nullables(prods_map):
        # get set of all nullable symbols
        cur_set = set([None, ])  # temporary, None will not be in final result
        next_set = set()
        while len(cur_set) != len(next_set):
            next_set.update(cur_set)
            for non_term, prod_rs in prods_map.items():
                if non_term in next_set:
                    continue
                if any(
                    all(s in cur_set for s in prod_r.production)
                    for prod_r in prod_rs
                ):
                    next_set.add(non_term)
            cur_set, next_set = next_set, cur_set
        cur_set.remove(None)
        return cur_set

    def print_detailed_descr(self):
        """Print detailed description of the parser."""
        for s in self._summary.gen_detailed_descr():
            print(s)

    @classmethod
    def _calc_first_sets(cls, prods_map, terminals, nullables):
        # for each symbol get list of tokens it's production can start from
        #
        # {NON_TERM: {t| NON_TERM ->* tXXX}}
        non_terms = set(prods_map.keys())

        fsets = {t: set() for t in non_terms}

        while True:
            fsets_updated = False
            for non_term, cur_fset in fsets.items():
                for prod_r in prods_map[non_term]:
                    for symbol in prod_r.production:
                        if symbol in terminals:
                            if symbol not in cur_fset:
                                cur_fset.add(symbol)
                                fsets_updated = True
                        else:
                            # this is non-terminal symbol
                            orig_size = len(cur_fset)
                            cur_fset.update(fsets[symbol])
                            fsets_updated |= len(cur_fset) != orig_size
                        if symbol not in nullables:
                            break
            if not fsets_updated:
                break

        return fsets

    @classmethod
    def _create_productions(cls, prods_init_data, terminals, parser_summary):
        # constructor helper.
        # create ProdRule objects from productions data specified in constructor

        _sort_n_gen = itertools.count()

        prods_map = {}  # {symbol: [ProdRule, ]}
        seq_symbols = set()
        prod_templates = {}  # {symbol: ProdsTemplate}

        def _gen_prods_data():
            # internal helper, expands ProdsTemplate objects
            for symbol, productions in prods_init_data.items():
                assert '__' not in symbol, (
                    f"Invalid production symbol '{symbol}'. Symbol names containing "
                    f"'__' are reserved")

                if isinstance(productions, ProdsTemplate):
                    prods_template = productions
                    prods_template.complete_init(symbol, terminals, parser_summary)

                    yield from prods_template.gen_productions()

                    if isinstance(productions, ProdSequence):
                        seq_symbols.add(symbol)

                    if prods_template.CAN_POST_PROCESS_TELEM:
                        prod_templates[symbol] = prods_template

                    continue

                assert isinstance(productions, list)
                yield symbol, productions

        for symbol, productions in _gen_prods_data():
            for prod in productions:
                # detect incorrect productions like: "SYMBOL" -> "OTHER"
                # Should be: "SYMBOL" -> ("OTHER", )
                assert not isinstance(prod, str), (
                    f"invalid production {symbol} -> '{prod}'. "
                    f"(result should be tuple, not string)")

            assert symbol not in prods_map, (
                f"{symbol} already in {prods_map}")

            prods_map[symbol] = cls._make_prod_rules_list(
                symbol, productions, terminals, _sort_n_gen, parser_summary)

        return prods_map, seq_symbols, prod_templates

    @classmethod
    def _factorize_productions(cls, prods_map, terminals, smart_factorization):
        # transform the grammar represented by 'prods_map' by factoring out
        # common prefixes of some productions into separate productions.
        result_rules = {}
        suffix_symbols = set()

        for symbol, prod_rules in prods_map.items():
            for s, rr in cls._factorize_prods_list(
                symbol, prod_rules, suffix_symbols,
            ):
                assert s not in result_rules
                result_rules[s] = rr

        # roll-back some factorizations. This will make parsing less efficient
        # (need to measure), but will make grammar simpler.
        if smart_factorization:
            suffixes_to_remove = set()
            for symbol, rr in sorted(
                result_rules.items(), key=lambda kv: -len(kv[0])
            ):
                # rules are sorted by length. This is to make sure that
                # 'suffix' symbols are processed before corresponding parent.
                new_rules = []
                for prod_rule in rr:
                    if len(prod_rule.production) != 2:
                        new_rules.append(prod_rule)
                        continue
                    first_symbol = prod_rule.production[0]
                    if first_symbol not in terminals:
                        new_rules.append(prod_rule)
                        continue
                    last_symbol = prod_rule.production[1]
                    if last_symbol not in suffix_symbols:
                        new_rules.append(prod_rule)
                        continue
                    suffix_productions = result_rules[last_symbol]
                    if len(suffix_productions) > 5:
                        new_rules.append(prod_rule)
                        continue

                    for suffix_rule in suffix_productions:
                        new_rules.append(
                            tuple([first_symbol] + list(suffix_rule.production))
                        )
                    suffixes_to_remove.add(last_symbol)

                if len(rr) != len(new_rules):
                    final_new_rules = []
                    for i, r in enumerate(new_rules):
                        if isinstance(r, ProdRule):
                            final_new_rules.append(ProdRule(symbol, r.production, i))
                        else:
                            final_new_rules.append(ProdRule(symbol, r, i))
                    rr[:] = final_new_rules

            for s in suffixes_to_remove:
                del result_rules[s]
                suffix_symbols.remove(s)

        return result_rules, suffix_symbols

    @classmethod
    def _factorize_prods_list(cls, symbol, prod_rules, suffix_symbols):
        # factorize (combine productions with common prefix) all the productions
        # of a given symbol
        #
        # yield (symbol, [ProdRule, ]) for original symbol and all 'auxiliary'
        # symbols created during factorization process

        result_rules_list = []  # [ProdRule, ]
        suffix_prods = []  # [(symbol, [ProdRule, ]]

        _grp_id_gen = itertools.count()

        for chunk in cls._split_prods_rules(prod_rules):
            # chunk is a list of ProdRule with common prefix
            if len(chunk) == 1:
                result_rules_list.append(chunk[0])
            else:
                assert len(chunk) > 0
                group_production, extra_prods = cls._factorize_common_prefix_prods(
                    symbol, next(_grp_id_gen), chunk, suffix_symbols)
                for s, rr in extra_prods.items():
                    # yield s, rr <- yield suffix symbols later, for prettier result
                    # TODO: do not use the accumulator suffix_prods after proper
                    # sorting of map symbols is implemented
                    suffix_prods.append((s, rr))
                result_rules_list.append(group_production)

        yield symbol, result_rules_list
        yield from suffix_prods

    @classmethod
    def _split_prods_rules(cls, prod_rules):
        # helper method used during factorization process
        #
        # split list of ProdRule into chunks with same starting symbol
        cur_start_symbol = None
        cur_chunk = []
        for r in prod_rules:
            start_symbol = r.production[0] if r.production else None
            if start_symbol != cur_start_symbol:
                if cur_chunk:
                    yield cur_chunk
                    cur_chunk = []
                    cur_start_symbol = None

            cur_chunk.append(r)
            cur_start_symbol = start_symbol

        if cur_chunk:
            yield cur_chunk

    @classmethod
    def _factorize_common_prefix_prods(
        cls, symbol, group_id, prods_chunk, suffix_symbols,
    ):
        # H -> (A, B, C, D)    => H -> (A, B, H__S0x) ;  H__S0x -> (C, D)
        #   -> (A, B, X, Y)                                     -> (X, Y)
        #   -> (A, B, Z)                                        -> (Z, )

        assert len(prods_chunk) > 1

        # get common prefix
        max_len = min(len(r.production) for r in prods_chunk)
        common_prefix = list(prods_chunk[0].production[:max_len])
        for prod_rule in prods_chunk[1:]:
            for i, (s1, s2) in enumerate(zip(common_prefix, prod_rule.production)):
                if s1 != s2:
                    common_prefix = common_prefix[:i]
                    break
        assert len(common_prefix) > 0, (
            "empty common prefix:\n" + "\n".join(str(r) for r in prods_chunk))

        grp_symbol_suffix = f"{symbol}__S{group_id:02}"

        # make single production for 'symbol': H -> (A, B, H__S0x)
        # common_prefix + grp_symbol_suffix
        group_prod_rule = ProdRule(
            symbol,
            tuple(list(common_prefix) + [grp_symbol_suffix]),
            prods_chunk[0].sort_n)

        # make productions for the suffix
        suff_prods_counter = itertools.count()
        suffix_prod_rules = [
            ProdRule(
                grp_symbol_suffix,
                tuple(orig_prod_rule.production[len(common_prefix):]),
                next(suff_prods_counter),
            )
            for orig_prod_rule in prods_chunk
        ]
        assert grp_symbol_suffix not in suffix_symbols
        suffix_symbols.add(grp_symbol_suffix)

        aux_symbols_prod_rules = dict( # {symbol: [ProdRule, ]}
            cls._factorize_prods_list(
                grp_symbol_suffix, suffix_prod_rules, suffix_symbols)
        )

        return group_prod_rule, aux_symbols_prod_rules

    @staticmethod
    def _make_prod_rules_list(
        symbol, productions, terminals, sort_n_gen, parser_summary,
    ):
        # Constructor helper. Creates list of ProdRule objects from the
        # productions data specified as consctructor argument.
        #
        # Provided productions data is almost ready, non-trivial processing
        # is required for 'AnyTokenExcept' pseudo-production only
        result = []
        special_token_encountered = False
        for production in productions:
            if production is None:
                result.append(ProdRule(symbol, (), next(sort_n_gen)))
            elif isinstance(production, tuple):
                result.append(ProdRule(symbol, production, next(sort_n_gen)))
            elif isinstance(production, list):
                raise GrammarError(
                    parser_summary,
                    f"invalid production: {production}. "
                    f"It must be a tuple, not a list")
            elif isinstance(production, AnyTokenExcept):
                if special_token_encountered:
                    raise GrammarError(
                        parser_summary,
                        f"productions for symbol '{symbol}' contain several "
                        f"elemens of type 'AnyTokenExcept'. Only one such "
                        f"element is allowed")
                special_token_encountered = True
                for t in production.get_tokens(terminals, symbol, parser_summary):
                    result.append(
                        ProdRule(symbol, (t, ), next(sort_n_gen))
                    )

        return result


#########################
# Cleanuper

# TODO: make base class
#    LLParser produces a tree of TElement objects.
#    This tree usually contains too many elements, corresponding to

class StdCleanuper:
    """Default Cleanuper, used by LLParser for post-processing parse results.

    Converts TElement sutrees corresponding to ListProds and MapProds into
    lists and dictionaries.
    Makes the result tree more compact by removing some elements, which do
    not contain 'useful' information.
    TODO: try to descibe cleanup rules.
    """

    def __init__(self, prod_templates, choice_symbols, keep_symbols, squash_symbols):
        self.prod_templates = prod_templates
        self.choice_symbols = choice_symbols
        self.keep_symbols = keep_symbols
        self.squash_symbols = squash_symbols

    @classmethod
    def make(cls, llparser: LLParser, keep_symbols) -> Self:

        keep_symbols = set() if keep_symbols is None else keep_symbols
        keep_symbols.add(llparser.start_symbol_name)

        squash_symbols, choice_symbols = cls._make_squash_data(llparser)

        return StdCleanuper(
            llparser.prod_templates, choice_symbols, keep_symbols, squash_symbols)

    @classmethod
    def _make_squash_data(cls, llparser: LLParser):
        # prepare information about potentially squashable symbols
        # (part of clenup procedure)
        #
        # Method returns:
        # - squash_symbols: symbols which can potentially be "squashed"
        # - choice_symbols: symbols which have only zero- or one-value productions

        squash_symbols = set()
        choice_symbols = set()

        for symbol, prod_rules in llparser.prods_map.items():
            if symbol in llparser._suffix_symbols:
                continue
            n_null_prods = sum(
                1 if len(r.production) == 0 else 0
                for r in prod_rules)
            n_oneval_prods = sum(
                1 if len(r.production) == 1 else 0
                for r in prod_rules)
            if n_null_prods + n_oneval_prods < len(prod_rules):
                # there are more complex productions, no squash is possible
                continue

            squash_symbols.add(symbol)
            if n_oneval_prods > 1:
                choice_symbols.add(symbol)

        return squash_symbols, choice_symbols

    def gen_detailed_descr(self):
        yield f"  keep_symbols: {sorted(self.keep_symbols)}"
        yield f"  choice_symbols: {sorted(self.choice_symbols)}"
        yield f"  squash_symbols: {sorted(self.squash_symbols)}"
        if self.prod_templates is None:
            yield f"  Prod Templates: <n/a>"
        else:
            yield f"  Prod Templates:"
            for _, prod_template in sorted(self.prod_templates.items()):
                yield f"    - {prod_template}"

    def cleanup(self, t_elem: TElement) -> None:
        """Transform TElement subtree according to own rules."""
        self._cleanup(t_elem)

    def _cleanup(
            self, t_elem: TElement,
            for_container: bool = False, for_choice: bool = False,
        ) -> bool:
        # internal helper to be used during cleanup.
        #
        # returns 'elem_no_squash' - bool, which tells parent TElement if
        # this element can be squashed

        elem_no_squash = for_choice

        if t_elem.name in self.prod_templates:
            # process lists and maps templates
            self.prod_templates[t_elem.name].transform_t_elem(t_elem, self)
            return elem_no_squash

        if t_elem.is_leaf():
            return elem_no_squash

        values = []
        values_no_squash = []
        for child_elem in t_elem.value:
            if child_elem is None:
                # TODO: remove the if completely
                assert False, "I guess it should not ever happen"
                continue
            child_no_squash = self._cleanup(
                child_elem,
                for_choice = t_elem.name in self.choice_symbols,
            )

            values.append(child_elem)
            values_no_squash.append(child_no_squash)

        if not values:
            t_elem.value = None
            return elem_no_squash

        t_elem.value = values

        if_squash = t_elem.name in self.squash_symbols

        if if_squash:
            assert isinstance(t_elem.value, list)
            assert len(t_elem.value) == 1, f"{t_elem.name=} {t_elem.value=}"
            assert len(t_elem.value) == len(values_no_squash)
            child_elem = t_elem.value[0]
            child_no_squash = values_no_squash[0]
            assert isinstance(child_elem, TElement)

            keep_parent = for_choice or t_elem.name in self.keep_symbols
            keep_child = child_no_squash or child_elem.name in self.keep_symbols

            if keep_parent and keep_child:
                if_squash = False
                elem_no_squash = True
            else:
                squash_parent = keep_child or for_container

        if if_squash:
            if squash_parent:
                elem_no_squash = child_no_squash
                t_elem.name = child_elem.name
                t_elem.value = child_elem.value
                t_elem._is_leaf = child_elem._is_leaf
            else:
                elem_no_squash = keep_parent
                t_elem.value = child_elem.value
                t_elem._is_leaf = child_elem._is_leaf

        return elem_no_squash
