"""Ready to use gadgets to be used in interactive console.

Usage example:
>> x = {"a": 10, "b":20}
>> from ak.it import pp
>> pp(x)     # prints colored formatted text
"""

from . import ppobj


class _PPrintCommand:
    """Pretty-print console command."""

    # !!!! need tests
    _GLOBAL_PP = None

    def __init__(self):
        self._pprinter = ppobj.PrettyPrinter()

    def __call__(self, obj_to_print):
        if isinstance(obj_to_print, ppobj.PPObjBase):
            for line in obj_to_print.gen_pplines():
                print(line)
        else:
            for line in self._pprinter.gen_pplines(obj_to_print):
                print(line)

    def _get_ll_descr(self):
        # object description for 'll' command
        return "Console tools", "Command which pretty prints objects"


def pp(obj_to_print):
    """Pretty-print json-like object."""
    if _PPrintCommand._GLOBAL_PP is None:
        _PPrintCommand._GLOBAL_PP = _PPrintCommand()
    _PPrintCommand._GLOBAL_PP(obj_to_print)
