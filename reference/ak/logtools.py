"""Helpers for logging configuration."""

import logging
from .color import ColorFmt


_PREDEFINED_LOGLEVEL_COLORS = {
    logging.DEBUG:    ColorFmt('BLUE'),
    logging.INFO:     ColorFmt('GREEN'),
    logging.WARNING:  ColorFmt('MAGENTA'),
    logging.ERROR:    ColorFmt('RED'),
    logging.CRITICAL: ColorFmt(None, bg_color='RED'),
}


def register_colored_levelnames(
        *,
        log_colors=None,
        use_colors=True):
    """Configure logging, so that each record contains 'levelname_c' property.

    This property contains colored name of log level and can be used by
    logging.Formatter(s) to produce logs with colored loglevel names.

    Arguments:
    - log_colors: optional dictionary {logging.LEVEL: color_obj}
        This argument can be specified to override predefined loglevel colors.
        Check ColorFmt doc for possible values 'color_obj'.
    - use_colors: if specified, all other arguments are ignored, and
        record's 'levelname_c' attributes will contain level names w/o
        any color effects.
    """
    if log_colors is None:
        log_colors = {}

    def _mk_color_fmt(log_level, use_colors):
        # create ColorFmt for coloring log level name. Color is taken either
        # from 'log_colors' argument, or from predefined colors dictionary.
        if not use_colors:
            return ColorFmt.get_plaintext_fmt()

        try:
            color_obj = log_colors[log_level]
        except KeyError:
            color_obj = _PREDEFINED_LOGLEVEL_COLORS[log_level]
        return color_obj

    c_level_names = {  # {log_level: colored_name}
        log_level: str(
            _mk_color_fmt(log_level, use_colors)(logging.getLevelName(log_level))
        )
        for log_level in log_colors.keys() | _PREDEFINED_LOGLEVEL_COLORS.keys()
    }

    old_record_factory = logging.getLogRecordFactory()

    def record_factory(*args, **kwargs):
        """Record factory for logging: adds 'levelname_c' attribute to log records"""
        record = old_record_factory(*args, **kwargs)
        # if some custom loglevel is used and there are no format rules for it
        # then levelname_c will be same as levelname:
        record.levelname_c = c_level_names.get(record.levelno, record.levelname)
        return record

    logging.setLogRecordFactory(record_factory)


_BY_VERBOCITY_LOG_LEVELS = {
    -1: logging.ERROR,
    0: logging.WARNING,
    1: logging.INFO,
    2: logging.DEBUG,
}

def logs_configure(
        verbocity=0, *,
        level=None,
        filename=None, file_log_level=None,
        use_colors=True, use_logfile_colors=True,
        log_colors=None):
    """High-level method for configuring logging in common scenarios.

    By default configutres logging with predefined colors, stderr output, warnings
    level.

    Arguments (all arguments are optional):
    - verbocity: integer verbocity level (f.e. if specified by command line
        arguments '-v', '-vv', etc.). Converted to log level according to following
        rules:
        verbocity     level
        -1            logging.ERROR
        0  (default)  logging.WARNING
        1             logging.INFO
        2             logging.DEBUG
        Can be overriden by explicitely specified log level.
    - level: level of stderr logs. Overrides log level corresponding to verbocity argument.
    - filename:  name of log file.
    - file_log_level: level of log file. Default is DEBUG, ignored if filename is
        not specified.
    - use_colors, use_logfile_colors - by default both values are 'True'. (So, you
        can 'tail -f' log file and see debug logs in separate terminal)
    - log_colors: optional dictionary {logging.LEVEL: color_obj}
        This argument can be specified to override predefined loglevel colors.
        'color_obj' may be either a ColorFmt object or a string name of the color
        (check ColorFmt doc for possible values of color name)
    """
    use_logfile = filename is not None

    v_log_level = _BY_VERBOCITY_LOG_LEVELS.get(verbocity, None)
    if v_log_level is None:
        # specified verbocity is too high or too low
        v_log_level = logging.ERROR if verbocity < -1 else logging.DEBUG

    if level is None:
        level = v_log_level
    if file_log_level is None:
        file_log_level = logging.DEBUG

    if use_colors or use_logfile_colors:
        register_colored_levelnames(log_colors=log_colors)

    fmt_color = "[%(asctime)s] %(levelname_c)s:%(name)s:%(message)s"
    fmt_no_color = "[%(asctime)s] %(levelname)s:%(name)s:%(message)s"

    stderr_formatter = logging.Formatter(fmt_color if use_colors else fmt_no_color)

    # stderr log
    stderr_handler = logging.StreamHandler()
    stderr_handler.setLevel(level)
    stderr_handler.setFormatter(stderr_formatter)

    root_logger_level = level
    if use_logfile:
        root_logger_level = min(level, file_log_level)
    root_logger = logging.getLogger('')
    root_logger.setLevel(root_logger_level)
    root_logger.addHandler(stderr_handler)

    # log file
    if use_logfile:
        if use_colors == use_logfile_colors:
            file_formatter = stderr_formatter
        else:
            file_formatter = logging.Formatter(
                fmt_color if use_logfile_colors else fmt_no_color)

        file_handler = logging.FileHandler(filename)
        file_handler.setFormatter(file_formatter)
        file_handler.setLevel(file_log_level)

        root_logger.addHandler(file_handler)
