"""Convert data present in excel tables into python objects.

This module reads data from excel workbooks open with openpyxl package

Example:

# create a data calss
class XlPerson(XlsObject):
    _ATTRS = ['id', 'name', 'status']
    _NUM_ID_ATTRS = 1

# transform data from excel worksheet into XlPerson objects
people = list(iter_table(wb['sheet1'], XlPerson, {
    'id': ('Id', cell_int),
    'name': ("Person's name", cell_str),
    'status': ('Status', cell_int),
}))
"""


#########################
# Cell Types - objects that convert excel cell to simple value

class _CellReader:
    _NONE_VALUES = {None}

    def __init__(self, none_values=None):
        self.none_values = (
            set(none_values) if none_values is not None else self._NONE_VALUES)

    def val_from_cell(self, cell):
        """xls cell -> optional value of the cell"""
        if cell.value in self.none_values:
            return None
        try:
            return self._make_value(cell)
        except ValueError as err:
            raise ValueError(f"can't read {type(self)} value from {cell}") from err

    def _make_value(self, _cell):
        assert False, "pure virtual"


class CellStr(_CellReader):
    """Get string value from cell."""
    def _make_value(self, cell):
        v = cell.value
        return "" if v is None else str(v).strip()


class CellInt(_CellReader):
    """Get int value from cell."""
    def _make_value(self, cell):
        v = cell.value
        if not isinstance(v, int):
            raise ValueError(f"cell {cell} contains not an integer value {v}")
        return v


class CellBool(_CellReader):
    """Gets bool value from cell"""

    _TRUE_VALUES = set(['v', 1, '1', True, 'True'])
    _FALSE_VALUES = set([None, '', False, 'False'])
    _NONE_VALUES = []

    def __init__(self, true_values=None, false_values=None, none_values=None):
        self.true_values = (
            set(true_values) if true_values is not None else self._TRUE_VALUES)
        self.false_values = (
            set(false_values) if false_values is not None else self._FALSE_VALUES)
        if none_values is None:
            none_values = self._NONE_VALUES
        super().__init__(none_values)

    def _make_value(self, cell):
        v = cell.value
        if v in self.true_values:
            return True
        if v in self.false_values:
            return False
        raise ValueError(
            f"value of cell {cell} is not valid bool value: {cell.value}")


class CellList(_CellReader):
    """Gets 'list of strings' value from cell.

    Cell supposed to contain a list of values separated by ',' and/or new line.
    Empty elements are ignored.
    """

    def _make_value(self, cell):
        # xls cell -> list of strings value of the cell
        v = cell.value
        if v is None:
            # cell is empty. Usually this means that attrinute value would be None.
            # but if we get here, this behavior is overridden.
            return []
        if not hasattr(v, 'split'):
            raise ValueError(
                f"cell {cell} does not contain a list of values. "
                f"The cell contains {type(v).__name__}: '{v}'")
        vals = [item.strip() for item in v.replace('\n', ',').split(',')]
        vals = [item for item in vals if item]
        return vals


class CellSet(CellList):
    """Get 'set of strings' value from cell.

    Similar to CellList, but the result value is set.
    """
    def _make_value(self, cell):
        # xls cell -> set of strings value of the cell
        vals_list = super()._make_value(cell)
        return set(vals_list)


class _CellRangeReader:
    # base class for 'range cells readers'
    __slots__ = ('cell_type', )
    def __init__(self, cell_type):
        self.cell_type = cell_type

    def val_from_cells(self, _cells_titles, _cells):
        """range of cells -> value. To be implemented in derived classes."""
        assert False, "pure virtual"


class CellRangeDict(_CellRangeReader):
    """Make a dictionary of values from range of excel cells"""
    def val_from_cells(self, cells_titles, cells):
        """range of cells -> {column_title: cell_value}, attr_origins."""
        assert len(cells_titles) == len(cells)
        val = {
            title: self.cell_type.val_from_cell(cell)
            for title, cell in zip(cells_titles, cells)
        }
        attr_origins = {
            cell_title: cell.coordinate
            for cell_title, cell in zip(cells_titles, cells)
        }
        return val, attr_origins


class CellRangeSet(_CellRangeReader):
    """Make a set of values from range of excel cells"""
    def val_from_cells(self, cells_titles, cells):
        """Range of cells -> set(column_title of marked cells)."""
        assert len(cells_titles) == len(cells)
        val = {
            title
            for title, cell in zip(cells_titles, cells)
            if self.cell_type.val_from_cell(cell)
        }
        attr_origins = {
            cell_title: cell.coordinate
            for cell_title, cell in zip(cells_titles, cells)
        }
        return val, attr_origins


#########################
# XlsObject

class XlsObject:
    """Base class for objects to be read from excel worksheet.

    Main purpose of XlsObject is to remember addresses of excel cells,
    from which the object was created.
    """

    _ATTRS = ()  # list of attributes, which will be read from excel
    _NUM_ID_ATTRS = 0  # number of first attributes in _ATTRS, which make the
                       # logical id of the object

    __slots__ = '_src_ws_name', '_anchor_cell_coord', '_attrs_origins', 'logic_id'

    def __init__(self, cells_types, cells_list, defaults_factories=None):
        assert self._NUM_ID_ATTRS <= len(self._ATTRS)
        assert len(cells_list) == len(self._ATTRS), (
            f"Can't init {type(self)}. Expected "
            f"{len(self._ATTRS)} cells, actually got {len(cells_list)} cells")
        assert len(cells_types) == len(cells_list)
        if defaults_factories is None:
            defaults_factories = [None for _ in range(len(cells_types))]
        assert len(cells_types) == len(defaults_factories)

        anchor_cell = cells_list[0]
        self._src_ws_name = anchor_cell.parent.title
        if ' ' in self._src_ws_name:
            self._src_ws_name = f"'{self._src_ws_name}'"
        self._anchor_cell_coord = anchor_cell.coordinate
        self._attrs_origins = {}

        for attr_name, cell_type, cell, default_factory in zip(
            self._ATTRS, cells_types, cells_list, defaults_factories,
        ):
            if hasattr(cell_type, 'val_from_cells'):
                # cell should be not a single cell, but range
                column_names, cells = cell
                val, attr_origins = cell_type.val_from_cells(column_names, cells)
            elif cell_type is None:
                # this attribute is explicitely ignored by reading rules
                assert cell is None
                assert default_factory is not None
                val = default_factory()
                attr_origins = "<n/a>"
            elif cell is None:
                # this cell corresponds to a 'missing' column
                assert default_factory is not None
                val = default_factory()
                attr_origins = "<skipped column>"
            else:
                val = cell_type.val_from_cell(cell)
                attr_origins = cell.coordinate
            setattr(self, attr_name, val)
            self._attrs_origins[attr_name] = attr_origins

        self.logic_id = self._compose_key_value()

    @classmethod
    def construct(cls, cells_types, cells, defaults_factories=None):
        """Constructor, but may return None if cells are empty."""
        key_valls_empty = all(
            cell.value is None for cell in cells[:cls._NUM_ID_ATTRS])

        if key_valls_empty and cls._NUM_ID_ATTRS > 0:
            return None
        obj = cls(cells_types, cells, defaults_factories)
        if cls._NUM_ID_ATTRS > 0 and obj.key_is_none():
            return None
        return obj

    def _compose_key_value(self):
        # Create a value (single value or tuple) which corresponds to
        # logic_id attributes of the object. To be used in constructor.
        key_tuple = tuple(
            getattr(self, attr_name)
            for attr_name in self._ATTRS[:self._NUM_ID_ATTRS]
        )
        return key_tuple[0] if len(key_tuple) == 1 else key_tuple

    def key_is_none(self):
        """Check if all key attributes of the object are None."""
        if self._NUM_ID_ATTRS == 1:
            return self.logic_id is None
        return all(v is None for v in self.logic_id)

    def __str__(self):
        return (
            f"<{type(self).__name__}"
            f"({self._src_ws_name} {self._anchor_cell_coord}) {self.logic_id}>")

    def get_attr_origin(
            self, attr_name, range_key=None, *, incl_ws=False, strict=True) -> str:
        """Return coordinate of the cell(s) corresponding to attribute.

        Examples:
        - x.get_attr_origin('name') => "C10" means that x.name value was read
            from excel cell "C10"
        - x.get_attr_origin('grades') => "D13:P13" means that a.grades is a
            ranged attribute, values for it were taken from range of cells from
            "D13" to "P13"
        - x.get_attr_origin('grades', 'math') => "M13" 'ranged' attribute, the
           value  corresponding to key 'math' was read from excel cell "M13"

        Arguments:
        - attr_name: name of attribute
        - range_key: can be specified for ranged attributes
        - incl_ws: if to include worksheet name in returned cell coordinate.
        - strict: if strict - raise ValueError if specified range_key is not
            present in the value of ranged attribute. Otherwise - return 'n/a'.
        """
        ws_prefix = f"{self._src_ws_name} " if incl_ws else ""
        origins = self._attrs_origins.get(attr_name)

        if origins is None:
            if attr_name in self._ATTRS:
                return ws_prefix + "<skipped column>"
            if hasattr(self, attr_name):
                raise ValueError(
                    f"attribute '{attr_name}' does not correspond to excell cell")
            raise ValueError(f"unknown attribute '{attr_name}'")

        if isinstance(origins, str):
            # this is not a 'ranged' attribute
            if range_key is not None:
                raise ValueError(
                    f"'{attr_name}' is not a ranged attribute, "
                    f"range_key argument '{range_key}' is not applicable")
            return ws_prefix + origins

        # the attribute must be ranged
        assert isinstance(origins, dict)
        if range_key is None:
            # return description of all the source cells
            cells_coords = sorted(origins.values())
            if len(cells_coords) == 0:
                cells_range_descr = "<skipped column>"
            elif len(cells_coords) == 1:
                cells_range_descr = cells_coords[0]
            else:
                cells_range_descr = f"{cells_coords[0]}:{cells_coords[-1]}"
            return ws_prefix + cells_range_descr

        val_cell_origin = origins.get(range_key)

        if val_cell_origin is None:
            if strict:
                raise ValueError(
                    f"ranged attribute '{attr_name}' has no key '{range_key}'")
            val_cell_origin = 'n/a'

        return ws_prefix + val_cell_origin

    def __repr__(self):
        return self.__str__()

    def ensure_equal(self, other):
        """Make sure two objects with same logic_id values are actually equal."""
        assert type(self) is type(other)
        assert self.logic_id == other.logic_id
        for attr_name in self._ATTRS:
            if getattr(self, attr_name) != getattr(other, attr_name):
                raise ValueError(
                    f"{type(self)} objects created from cells "
                    f"'{self._anchor_cell_coord}' and "
                    f"'{other._anchor_cell_coord}' have "
                    f"same logic_id value {self.logic_id} "
                    f"but different values of attribute '{attr_name}': "
                    f"{getattr(self, attr_name)} and {getattr(other, attr_name)}"
                )

    @classmethod
    def make_objects_map(cls, objects):
        """Convert sequence of XlsObject's into map by logic_id.

        Verifies that objects with same logic_id have same attributes.
        """
        d = {}
        for obj in objects:
            if obj is None:
                continue
            if obj.logic_id in d:
                obj.ensure_equal(d[obj.logic_id])
            d[obj.logic_id] = obj
        return d


#########################
# Xls Table reading rules

class XlsRecordAttrReadRules:
    """Rules of reading a single attribute from excel table."""

    def __init__(self, attr_name, column_name, cell_type, **kwargs):
        """Rules of reading a single XlsObject attribute from excel table.

        Arguments:
        - attr_name: name of the attribute
        - column_name: name of column of ecxel table. Column name should
            be '*' for 'range' values.
            If column_name is None than 'default_val' argument must be specified
        - cell_type: object, which converts excel cell into a simple value
            (obj of either _CellReader or _CellRangeReader -derived class)
        - default_val: if present in kwargs make the column optional. Can be either
            a callable or a final value. This argument must be named.
        """
        if hasattr(cell_type, 'val_from_cells'):
            assert column_name is None or column_name == '*', (
                "column name is not applicable for ranged values, '*' is expected")

        if column_name is None:
            # this is an external attribute; it's value will not be read from xls
            assert cell_type is None
            assert 'default_val' in kwargs, (
                "default_val argument must be specified because column_name if not")
        else:
            assert cell_type is not None

        if 'default_val' not in kwargs:
            self.default_factory = None
        else:
            default_val = kwargs.pop('default_val')
            if callable(default_val):
                self.default_factory = default_val
            else:
                self.default_factory = lambda: default_val

        assert not kwargs, f"unexpected arguments: {kwargs}"

        self.attr_name = attr_name
        self.column_name = column_name
        self.cell_type = cell_type


class XlsObjReadRules:
    """Rules of reading an object of specified type from excel table record."""

    def __init__(self, obj_class, attrs_rules):
        """Construct rules of reading object from excel table.

        Arguments:
        - obj_class: XlsObject-derived class
        - attrs_rules: {attr_name: attr_read_rules}
            Here attr_read_rules is a rules of reading of a single attribute and
            may be:
            - None: explicit indicator that the value for the attribute should not
                be read
            - XlsRecordAttrReadRules object
            - (column_name, cell_type[, {}]) - arguments for XlsRecordAttrReadRules
        """
        self.obj_class = obj_class

        self.attrs_rules = []  # XlsRecordAttrReadRules in same order as _ATTRS
        attrs_rules_map = {}  # {attr_name: XlsRecordAttrReadRules}
        for attr_name, attr_info in attrs_rules.items():
            if attr_info is None:
                # it is explicitely stated, that value for this attr is not
                # present in excel table
                attrs_rules_map[attr_name] = XlsRecordAttrReadRules(
                    attr_name, None, None,
                    default_val=None)
                continue
            if isinstance(attr_info, XlsRecordAttrReadRules):
                attrs_rules_map[attr_name] = attr_info
                continue
            assert isinstance(attr_info, (list, tuple))
            if len(attr_info) == 2:
                column_name, cell_type = attr_info
                attr_rrules = XlsRecordAttrReadRules(
                    attr_name, column_name, cell_type)
            elif len(attr_info) == 3:
                column_name, cell_type, attr_kwargs = attr_info
                assert isinstance(attr_kwargs, dict), (
                    f"additional options for attribute '{attr_name}' "
                    f"should be a dictionary. But specified {type(attr_kwargs)}: "
                    f"{attr_kwargs}")
                attr_rrules = XlsRecordAttrReadRules(
                    attr_name, column_name, cell_type, **attr_kwargs)
            attrs_rules_map[attr_name] = attr_rrules
        assert len(attrs_rules_map) == len(attrs_rules)

        miss_attrs = set(obj_class._ATTRS) - attrs_rules_map.keys()

        if miss_attrs:
            raise ValueError(
                f"Column names corresponding to '{str(obj_class)}' attributes "
                f"{miss_attrs} are not specified")

        self.attrs_rules = [
            attrs_rules_map[attr_name] for attr_name in self.obj_class._ATTRS]


class _ObjScrCellsMap:
    # map of XlsObject attributes to cell's ids
    def __init__(self, attrs_rules):
        self.attrs_rules = attrs_rules
        self.cells_types = [rr.cell_type for rr in self.attrs_rules]
        self.columns_map = None  # positions of columns, corresponding to attrs_rules
        self.defaults_factories = []  # sources values for external and optional attrs

    def get_known_columns_names(self):
        """Return set of all column names, which correspond to object attributes.

        Note, that some columns correspond to range attributes (such columns
        do not correspond to attributes directly, values and names of several
        columns are combined into a single range attribute)
        """
        return {
            attr_rrules.column_name
            for attr_rrules in self.attrs_rules
            if attr_rrules.column_name != "*"}

    def bind_titles_row(self, cols_names, col_names_ids, known_cols_names):
        """finish construction by binding self to actual columns names.

        Arguments:
        - cols_names: list of columns named (read from excel row corresponding
            to title of the table)
        - col_names_ids: {name: int_column_position}. This is a separate argument
            for optimisation only (this map can be constructed from 'cols_names')
        - known_cols_names: set of names of columns expected by this and all other
            _ObjScrCellsMap's related to current excel table. This is required to
            detect columns which corresspond to 'range' attributes.
        """
        self.columns_map = []
        for attr_rrules in self.attrs_rules:
            if attr_rrules.column_name == "*":
                # this is 'range' attribute. It's value is taken from several cells.
                # let's detect cells corresponding to this attribute.
                #
                # for now algorithm is simple: range cells are continuous range
                # of cells not explicitely mentioned as source cells for other
                # attributes
                range_cells_names = []
                in_range = False
                for col_name in cols_names:
                    col_is_not_range = not col_name or col_name in known_cols_names
                    if col_is_not_range:
                        if in_range:
                            break  # all range cells processed
                        continue  # skip first columns
                    in_range = True
                    range_cells_names.append(col_name)

                if not range_cells_names and attr_rrules.default_factory is None:
                    raise ValueError(
                        f"no columns corresponding to ranged "
                        f"attribute '{attr_rrules.attr_name}'. List of all "
                        f"columns names: {cols_names}")

                range_cells_ids = [
                    col_names_ids[n] for n in range_cells_names]

                self.columns_map.append((range_cells_names, range_cells_ids))
            elif attr_rrules.column_name is None:
                # this is an external column - it's value will not be read from xls
                assert attr_rrules.default_factory is not None, (
                        f"default value is not specified for attribute "
                        f"'{attr_rrules.attr_name}'")
                self.columns_map.append(None)
            else:
                # this is 'usual' attribute, it's value is taken from a single cell
                col_id = col_names_ids.get(attr_rrules.column_name, None)
                if col_id is None and attr_rrules.default_factory is None:
                    raise ValueError(
                        f"column '{attr_rrules.column_name}' required for "
                        f"attribute '{attr_rrules.attr_name}' is not found. "
                        f"List of all columns names: {cols_names}")
                self.columns_map.append(col_id)
            self.defaults_factories.append(attr_rrules.default_factory)
            assert len(self.defaults_factories) == len(self.columns_map)

    def cells_from_row(self, row):
        """excel row -> data prepared for XlsObject.construct.

        Method returns:
        - list of cell types
        - list of excell cells
        - list of default values factories for the attributes
        """

        assert self.columns_map is not None, (
            "_ObjScrCellsMap is not ready: call 'bind_titles_row' "
            "to finish init.")
        def _get_cells_for_attr(cols_ids):
            # get cells corresponding to a single attribute
            if isinstance(cols_ids, int):
                # 'simple' attribute
                return row[cols_ids]
            if cols_ids is None:
                # this attribute was explicetly ignored in reading rules
                return None
            # range attribute
            cols_names, cells_ids = cols_ids
            return cols_names, [row[i] for i in cells_ids]

        cells = [
            _get_cells_for_attr(cols_ids)
            for cols_ids in self.columns_map
        ]

        return self.cells_types, cells, self.defaults_factories


class XlsTableReader:
    """Object which reads data from excel table.

    For each line of the table one or several objects are created (according to
    specified transformations rules).
    """
    def __init__(self, *objs_rrules):
        self.objs_rrules = objs_rrules  # [XlsObjReadRules, ]
        self.cells_maps = [
            _ObjScrCellsMap(obj_rrule.attrs_rules) for obj_rrule in self.objs_rrules]

    def iter_table(self, worksheet, *, stop_on="blank all", ladder_format=False):
        """Generate tuples of XlsObjects according to self.objs_rrules."""
        titles_processed = False

        prev_row = None  # [cell, ]
        first_col_pos = None

        for row in worksheet.iter_rows():
            # skip optional first empty rows
            if not titles_processed and self._row_is_empty(row):
                continue

            # detect end of table
            if titles_processed:
                if stop_on == 'blank first':
                    if self._cell_is_empty(row[0]):
                        break
                else:
                    if self._row_is_empty(row):
                        break

            if not titles_processed:
                # this is a titles row. Time to prepare mappings
                cols_names = [
                    str(cell.value).strip() if cell.value is not None else ""
                    for cell in row]

                col_names_ids = {
                    col_name: i for i, col_name in enumerate(cols_names)}
                known_cols_names = {
                    col_name
                    for cells_map in self.cells_maps
                    for col_name in cells_map.get_known_columns_names()}
                for cells_map in self.cells_maps:
                    cells_map.bind_titles_row(
                        cols_names, col_names_ids, known_cols_names)
                titles_processed = True
                if ladder_format:
                    # following info is only necessary pro processing 'ladder' tables
                    first_col_pos = next(
                        (pos for pos, name in enumerate(cols_names) if name),
                        None,
                    )
                continue

            # create result objects from current row
            # but first it may be necessary to prepare the current row.
            # In case of ladder table, current row of cells consists of cells
            # from several excel rows.
            if ladder_format and first_col_pos is not None:
                if prev_row is None:
                    # this is the first row of data cells.
                    prev_row = row
                    current_row = row
                else:
                    # susbstitute first empty cells by cells of previous row - this
                    # is the essence of ladder table
                    current_row = list(row)
                    for i in range(first_col_pos, len(current_row)):
                        if self._cell_is_empty(current_row[i]):
                            current_row[i] = prev_row[i]
                        else:
                            break
            else:
                current_row = row

            results = []
            for obj_rrules, cells_map in zip(self.objs_rrules, self.cells_maps):
                results.append(
                        obj_rrules.obj_class.construct(
                            *cells_map.cells_from_row(current_row)))

            prev_row = current_row

            yield results

    @classmethod
    def _row_is_empty(cls, row):
        return all(cls._cell_is_empty(cell) for cell in row)

    @classmethod
    def _cell_is_empty(cls, cell):
        return cell.value is None or str(cell.value).strip() == ""


class TableReader:
    """Mixin which can be used in XlsObject derived classes.

    Contains helper methods for reading all the XlsObject from a worksheet.
    """
    # this functionality is not implemented in XlsObject itself because objects
    # of the same type can be read from different worksheets with different
    # column names and table structure.

    ATTR_RULES = None  # {XlsObject attribute name: ("Column name", cell_type)}
    STOP_ON = "blank all"
    LADDER_FORMAT = False

    @classmethod
    def iter_xls(cls, worksheet):
        """Read and yield XlsObjects from excel worksheet"""
        assert cls.ATTR_RULES is not None, (
            f"'ATTR_RULES' not defined in TableReader deriveed class {cls}")
        yield from iter_table(worksheet, cls, cls.ATTR_RULES)

    @classmethod
    def read_list(cls, worksheet):
        """worksheet -> [XlsObject, ]"""
        return list(cls.iter_xls(worksheet))

    @classmethod
    def read_map(cls, worksheet):
        """worksheet -> {XlsObject.logic_id: XlsObject}"""
        return cls.make_objects_map(cls.iter_xls(worksheet))


def iter_table(worksheet, xls_obj_class, attrs_rules, *,
               stop_on="blank all", ladder_format=False):
    """This method can be used to read data from excel table in most cases.

    (Alternatively TableReader mixin can be used for this purpose)

    Arguments:
    - worksheet: excel worksheet (use openpyxl package to open excel file and
        get the worksheet object)
    - xls_obj_class: XlsObject-derived class, which desribes objects to be
        read from the table
    - attrs_rules: dictionary of rules of reading individual attrbutes of
        the result objects. Example:
        {
            'attr0_name': ("Column name", cell_type),
            'attr1_name': ("*", range_cell_type),
        }

    - stop_on: name of rule, that detects the end of table. One
        of ("blank all", "blank first")

    - ladder_format: indicates that table is in 'ladder' format: empty cells in
        first columns indicates same value as in previous row:
        2000  Jan   01   ...
              Feb   01   ...
                    02   ...  <- this line corresponds to 2000 Feb.

    Method yields object of xls_obj_class.
    """
    obj_rrules = XlsObjReadRules(xls_obj_class, attrs_rules)

    table_reader = XlsTableReader(obj_rrules)

    for (x, ) in table_reader.iter_table(
        worksheet, stop_on=stop_on, ladder_format=ladder_format,
    ):
        yield x


def read_table(worksheet, xls_obj_class, attrs_rules, **kwargs):
    """Wrapper around iter_table - returns list of objects."""
    return list(iter_table(worksheet, xls_obj_class, attrs_rules, **kwargs))


def read_table_make_map(
        worksheet, xls_obj_class, attrs_rules, **kwargs):
    """Wrapper around iter_table - returns dictionary of objects."""
    return xls_obj_class.make_objects_map(
        iter_table(worksheet, xls_obj_class, attrs_rules, **kwargs)
    )


cell_str = CellStr()
cell_int = CellInt()
cell_bool = CellBool()
cell_list = CellList()
cell_set = CellSet()
cell_range_set = CellRangeSet(cell_bool)
