"""Methods for pretty-printing tables and json-like python objects.

Classes provided by this module:
- PrettyPrinter - pretty-printer of json-like python structures
- PPObj - base class for objects which have colored text representation
- PPWrap - Pretty-printable wrapper to be used in interactive console
- PPTable - pretty-printable 2-D tables
- PPEnumFieldType - to be used by PPTable for enum fields
"""

# - FieldType       - general properties of a field
# - RecordField     - field type and it's location in a record
# - RecordStructure - all the fields in a record
# - ReprColumn      - field, widths, fmt_modifier
# - ReprStructure   - RecordStructure + columns. Described by 'fmt'


from typing import Iterator
from numbers import Number
from collections import defaultdict
from ak import utils
from ak.color import CHText, Palette, CompoundPalette, PaletteUser, ConfColor

ALIGN_LEFT, ALIGN_CENTER, ALIGN_RIGHT = 1, 2, 3


class CHTextResult:
    """CHTextResult can be used either as a usual CHText object, or as iterator.

    Single PPObj object can either produce a single CHText or generate multiple
    CHText objects (usually corresponding to single lines of the multi-line text).
    CHTextResult produced by PPObj may be used in both contexts.
    """
    __slots__ = 'ppobj', 'cp', '_ch_text'

    def __init__(self, ppobj, cp):
        self.ppobj = ppobj
        self.cp = cp
        self._ch_text = None

    def __str__(self):
        if self._ch_text is None:
            self._ch_text = self.ppobj.make_ch_text(self.cp)
        return self._ch_text.__str__()

    def plain_text(self) -> str:
        if self._ch_text is None:
            self._ch_text = self.ppobj.make_ch_text(self.cp)
        return self._ch_text.plain_text()

    @classmethod
    def strip_colors(cls, text: str) -> str:
        """Colorer-formatted string -> same string w/o coloring."""
        return CHText.strip_colors(text)

    def get_ch_text(self) -> CHText:
        if self._ch_text is None:
            self._ch_text = self.ppobj.make_ch_text(self.cp)
        return CHText(self._ch_text)

    def __len__(self):
        if self._ch_text is None:
            self._ch_text = self.ppobj.make_ch_text(self.cp)
        return len(self._ch_text)

    def __iadd__(self, other) -> CHText:
        return self + other

    def __add__(self, other) -> CHText:
        if self._ch_text is None:
            self._ch_text = self.ppobj.make_ch_text(self.cp)
        return self._ch_text + other

    def __radd__(self, other) -> CHText:
        if self._ch_text is None:
            self._ch_text = self.ppobj.make_ch_text(self.cp)
        return other + self._ch_text

    def __getitem__(self, index) -> CHText:
        if self._ch_text is None:
            self._ch_text = self.ppobj.make_ch_text(self.cp)
        return self._ch_text.__getitem__(index)

    def fixed_len(self, desired_len) -> CHText:
        if self._ch_text is None:
            self._ch_text = self.ppobj.make_ch_text(self.cp)
        return self._ch_text.fixed_len(desired_len)

    def __format__(self, format_spec):
        if self._ch_text is None:
            self._ch_text = self.ppobj.make_ch_text(self.cp)
        return self._ch_text.__format__(format_spec)

    def __eq__(self, other):
        if self._ch_text is None:
            self._ch_text = self.ppobj.make_ch_text(self.cp)
        if isinstance(other, CHTextResult):
            other = other.get_ch_text()
        return self._ch_text.__eq__(other)

    def __iter__(self):
        return self.ppobj.gen_ch_lines(self.cp)


#########################
# generic pretty-printing

class PrettyPrinter(PaletteUser):
    """Print json-like python objects with color highliting."""

    _CONSTANTS_LITERALS = (
        {True: 'True', False: 'False', None: 'None'},
        {True: 'true', False: 'false', None: 'null'},
    )

    class PPPalette(Palette):
        """Palette to be used by PrettyPrinter."""
        name = ConfColor("NAME")
        number = ConfColor("NUMBER")
        keyword = ConfColor("KEYWORD")

    PALETTE_CLASS = PPPalette

    def __init__(self, *, fmt_json=False):
        """Create PrettyPrinter for printing json-like objects.

        Arguments:
        - fmt_json: if True generate output in json form, else - in python form.
            The difference is in value of constans only ('true' vs 'True', etc.)
        """
        self._consts = self._CONSTANTS_LITERALS[1 if fmt_json else 0]

    def __call__(
        self, obj_to_print, *,
        palette=None,
        no_color=False,
        colors_conf=None,
    ) -> CHTextResult:
        """obj_to_print -> pretty-printed colored text.

        Arguments:
        - obj_to_print: object to print
        - palette: optional PrettyPrinter.PPPalette-derived class or an object of
            such class, contains colors to be used
        - no_color: optional bool; True indicates that produced text will contain
            no colors
        - colors_conf: optional, global colors config. Is used for testing
            purposes only
        """
        palette = self._mk_palette(palette, no_color, colors_conf)
        ppobj = _PrettyPrinterTextGen(self, obj_to_print)
        return CHTextResult(ppobj, palette)

    def _gen_ch_lines(self, cp, obj_to_print) -> Iterator[CHText]:
        """obj_to_print -> CHText objects.

        Each CHText corresponds to one line of the result.
        """
        line_chunks = []

        for chunk in self._gen_ch_chunks_for_obj(cp, obj_to_print, offset=0):
            if chunk is None:
                # indicator of the new line
                yield CHText.make(line_chunks)
                line_chunks = []
            else:
                line_chunks.append(chunk)

        if line_chunks:
            yield CHText.make(line_chunks)

    def _gen_ch_chunks_for_obj(
        self, cp: PPPalette, obj_to_print, offset=0,
    ) -> Iterator[CHText.Chunk]:
        # generate parts for colored text result

        if self._value_is_simple(obj_to_print):
            yield self._simple_val_to_ch_chunk(cp, obj_to_print)
        elif isinstance(obj_to_print, dict):
            sorted_keys = sorted(
                obj_to_print.keys(), key=self._mk_type_sort_value
            )
            if self._all_values_are_simple(obj_to_print):
                # check if it is possible to print object in one line
                chunks = [cp.text("{")]
                is_first = True
                for key in sorted_keys:
                    if not is_first:
                        chunks.append(cp.text(", "))
                    else:
                        is_first = False
                    chunks.append(self._dict_key_to_sc_chunk(cp, key))
                    chunks.append(cp.text(": "))
                    chunks.append(self._simple_val_to_ch_chunk(
                        cp, obj_to_print[key]))
                chunks.append(cp.text("}"))
                scr_len = CHText.calc_chunks_len(chunks)

                oneline_fmt = offset + scr_len < 200  # not exactly correct, ok
                if oneline_fmt:
                    yield from chunks
                    return

            # print object in multiple lines
            yield cp.text("{")
            prefix = cp.text(" " * (offset + 2))
            is_first = True
            for key in sorted_keys:
                if is_first:
                    is_first = False
                else:
                    yield cp.text(",")
                yield None
                yield prefix
                yield self._dict_key_to_sc_chunk(cp, key)
                yield cp.text(": ")
                yield from self._gen_ch_chunks_for_obj(
                    cp, obj_to_print[key], offset+2)
            yield None
            yield cp.text(" " * offset + "}")
        elif isinstance(obj_to_print, list):
            if self._all_values_are_simple(obj_to_print):
                # check if it is possible to print values in one line
                items_chunks = [
                    self._simple_val_to_ch_chunk(cp, item)
                    for item in obj_to_print
                ]
                scr_len = (
                    CHText.calc_chunks_len(items_chunks) + 2 * len(items_chunks))
                oneline_fmt = not items_chunks or offset + scr_len < 200
                if oneline_fmt:
                    # print the list in one line
                    yield cp.text("[")
                    is_first = True
                    for item_chunk in items_chunks:
                        if is_first:
                            is_first = False
                        else:
                            yield cp.text(", ")
                        yield item_chunk
                    yield cp.text("]")
                else:
                    # print the list in several lines (but each line may
                    # contain several values)
                    yield cp.text("[")
                    yield None
                    prefix = cp.text(" " * (offset + 2))
                    len_yielded = 0
                    is_first_in_line = True
                    for i, item_chunk in enumerate(items_chunks):
                        cur_chunk_len = len(item_chunk.text)
                        need_new_line = len_yielded + cur_chunk_len > 150

                        if need_new_line and not is_first_in_line:
                            yield cp.text(",")
                            yield None
                            len_yielded = 0
                            is_first_in_line = True

                        if is_first_in_line:
                            yield prefix
                            len_yielded = offset + 2
                        else:
                            yield cp.text(", ")
                            len_yielded += 2
                        yield item_chunk
                        len_yielded += cur_chunk_len
                        is_first_in_line = False

                        if i == len(items_chunks) - 1:
                            # last element of the list
                            yield None
                            break
                    # all items printed, new line started
                    yield cp.text(" " * offset + "]")
            # print object in multiple lines
            else:
                prefix = cp.text(" " * (offset + 2))
                yield cp.text("[")
                is_first = True
                for item in obj_to_print:
                    if is_first:
                        is_first = False
                    else:
                        yield cp.text(",")
                    yield None
                    yield prefix
                    yield from self._gen_ch_chunks_for_obj(cp, item, offset+2)
                yield None
                yield cp.text(" " * offset + "]")
        else:
            yield cp.text(str(obj_to_print))

    @classmethod
    def _all_values_are_simple(cls, obj_to_print) -> bool:
        # checks if all the values in container are 'simple'
        if isinstance(obj_to_print, dict):
            return all(cls._value_is_simple(value) for value in obj_to_print.values())
        if isinstance(obj_to_print, (list, tuple)):
            return all(cls._value_is_simple(value) for value in obj_to_print)
        return True

    @classmethod
    def _value_is_simple(cls, value) -> bool:
        # values that pretty printer treats as simple when deciding
        # how to print the value
        if isinstance(value, (list, tuple, dict)) and value:
            return False
        return True

    def _simple_val_to_ch_chunk(self, cp: PPPalette, value) -> CHText.Chunk:
        # simple value (number, string, built-in constant) -> CHText.Chunk
        if isinstance(value, str):
            return cp.text('"' + value + '"')
        elif self.is_keyword_value(value):
            return cp.keyword(self._consts[value])
        elif isinstance(value, Number):
            return cp.number(str(value))
        elif isinstance(value, dict):
            assert not value
            return cp.text("{}")
        elif isinstance(value, (list, tuple)):
            assert not value
            return cp.text("[]")
        assert False, f"value {value} is not simple"

    def _dict_key_to_sc_chunk(self, cp: PPPalette, key) -> CHText.Chunk:
        # create colored text corresponding to a dictionary key
        key_str = '"' + key + '"' if isinstance(key, str) else str(key)
        return cp.name(key_str)

    @classmethod
    def _mk_type_sort_value(cls, value):
        # sorting used to order dictionary elements when printing
        if cls.is_keyword_value(value):
            return (3, str(value))
        elif isinstance(value, Number):
            return (0, value)
        elif isinstance(value, str):
            return (1, value)
        elif isinstance(value, tuple):
            return (2, value)
        else:
            return (3, str(value))

    @staticmethod
    def is_keyword_value(value):
        """Check if value is one of {True, False, None}.

        Simple check 'x in {True, False, None}' can't be used because it
        returns True for x = 1
        """
        return any(value is keyword for keyword in [True, False, None])


class _PrettyPrinterTextGen:
    # PPObj-looking object which produces pretty-print results
    __slots__ = 'pretty_printer', 'obj_to_print'
    def __init__(self, pretty_printer, obj_to_print):
        self.pretty_printer = pretty_printer
        self.obj_to_print = obj_to_print

    def make_ch_text(self, cp):
        return CHText("\n").join(self.gen_ch_lines(cp))

    def gen_ch_lines(self, cp):
        return self.pretty_printer._gen_ch_lines(cp, self.obj_to_print)


class PPObj(PaletteUser):
    """Base class for pretty-printable objects.

    Object of PPObj class has a colored-text representation. For example we want to
    print a table using different colors for table borders, column headers and
    cells contents.

    The '__str__' method of the PPObj produces the colored text: string with color
    escape sequences. But the string with escape sequences is not convenient to
    work with: the length of the string is not equal to the number of printable
    characters.

    In order to make it possible to format colored text CHText is used.
    CHText object keeps track of printable and not-printable characters, so that
    it is possible to use it in f-strings with width format specifiers.

    PPObj.ch_text() method returns ak.color.CHTextResult object. This object is
    similar to CHText, but can be used as iterator of CHText objects (usualy
    corresponding to the lines of multi-line text)

    PPObj-derived class should implement at least one of the two methods:
    - make_ch_text(cp: Palette) -> CHText
    - gen_ch_lines(cp: Palette) -> Iterator[CHText]

    (See PaletteUser class documentation for more details).
    """

    def __str__(self):
        return str(self.ch_text())

    def ch_text(
        self, *, palette=None, no_color=False, colors_conf=None,
    ) -> CHTextResult:
        """Return CHTextResult - colored representation of self.

        Arguments:
        - palette: (optional) Either Palette-derived class or an object of such type
        - no_color: instructs to produce text without color effects,
            False by default
        - colors_conf: global colors config is used by default. Explicitely
            used for testing purposes only
        """
        return CHTextResult(
            self,
            self._mk_palette(palette, no_color, colors_conf))

    def make_ch_text(self, cp: Palette) -> CHText:
        """Return CHText - colored representation of self"""
        try:
            lines = self.gen_ch_lines(cp)
            return CHText("\n").join(lines)
        except NotImplementedError as err:
            if 'gen_ch_lines' not in str(err):
                raise

        raise NotImplementedError(f"'make_ch_text' not implemented in '{type(self)}'")

    def gen_ch_lines(self, cp: Palette) -> Iterator[CHText]:
        """Generates CHText objects - colored representation of self"""
        yield from []
        _ = cp
        raise NotImplementedError(f"'gen_ch_lines' not implemented in '{type(self)}'")


# ready to use PrettyPrinter with default configuration
pp = PrettyPrinter()


#########################
# pretty-printing json-like python objects

class PPWrap:
    """Pretty-printable wrapper for python json-like structures.

    To be used in interactive console.

    Example scenario of usage:

    Some function returns a json parsed into python structure: some_result.
    The version of this function which is supposed to be used in an interactive
    console should return x = PPWrap(some_result).

    Repr of this object prints the structure in a pretty-formatted colored form.
    The original data is accessible via 'r' attribute:

    x.r is some_result
    """

    __slots__ = ('r', )
    _PPRINTER = PrettyPrinter()

    def __init__(self, obj_to_print):
        self.r = obj_to_print

    def __str__(self):
        return str(self._PPRINTER(self.r))

    def __repr__(self):
        # this method does not return text but prints it because the
        # text is supposed to be colored, and python console displays
        # representation of of returned object (a string with special characters
        # in this case) instead of the colored text.
        print(str(self))
        return ""


##################################################
# Records
#
# Term "records" is used for a set of objects having similar structure.
# In simple cases the structure of the record may be a tuple of simple values (for
# example for records fetched from database).
#
# In more complicated cases it may be a composition of tuples, lists, dictionaries
# and other python objects.
#
# The purpose of the following record-related classes is to facilitate
# processing records and presenting data from the records on screen.

#########################
# class FieldType


class FieldType(PaletteUser):
    """Describe properties of a field (in a record).

    The main purpose of this class is to format the field's value.

    Not trivial example of the FieldType is a enum. The value is just an id,
    but we may want to display (or not to display) the corresponding name as well.

    FieldType should implement the following methods:
    - make_desired_cell_ch_chunks: returns "desired text"(*) and alignment
    - get_cell_text_len: return length of the "desired text"(*)
    - make_cell_ch_chunks: returns properly trancated or enlarged "desired text"(*)
        to fit specified length.

    (*) "desired text" is a colored text representing the value. Actual text may
    be different if it is necessary to fit the text into a cell of a specified width.
    For performance reasons it is not a CHText object, but [CHText.Chunk].
    """
    class RecordPalette(Palette):
        """Palette used for field values of standard types."""
        SYNTAX_DEFAULTS = {
            # synt_id: default_color
            'RECORD.NUMBER': "NUMBER",
            'RECORD.KEYWORD': "KEYWORD",
        }

        number = ConfColor('RECORD.NUMBER')
        keyword = ConfColor('RECORD.KEYWORD')

    PALETTE_CLASS = RecordPalette

    def __init__(self, min_width=1, max_width=999):
        self.min_width = min_width
        self.max_width = max_width

    def get_cell_text_len(self, value, fmt_modifier) -> int:
        """Calculate length of text representation of the value (for usual cell)

        This implementation is universal, but inefficient. Override in
        derived classes to avoid construction of syntax items objects - usually
        it is not required to find out text length.
        """
        ch_text_chunks, _ = self.make_desired_cell_ch_chunks(
            value, fmt_modifier,
            self.PALETTE_CLASS(no_color=True))
        return CHText.calc_chunks_len(ch_text_chunks)

    def make_desired_cell_ch_chunks(
        self, value, fmt_modifier, field_palette,
    ) -> ([CHText.Chunk], int):
        """value -> desired text and alignment for usual (not title) table row.

        Actual text may be truncated (hence different from desired text)

        Implementation for general field type: value printed almost as is.
        To be overiden in derived classes.
        """
        cp = field_palette
        if fmt_modifier is not None:
            raise ValueError(
                f"{type(self)} field type does not support format modifiers. "
                f"Specified fmt_modifier: '{fmt_modifier}'")
        if PrettyPrinter.is_keyword_value(value):
            color_fmt = cp.keyword
            align = ALIGN_RIGHT
        elif isinstance(value, Number):
            color_fmt = cp.number
            align = ALIGN_RIGHT
        else:
            color_fmt = cp.text
            align = ALIGN_LEFT
        return [color_fmt(str(value))], align

    def make_cell_ch_chunks(
        self, value, fmt_modifier, width,
        field_palette, record_palette,
    ) -> [CHText.Chunk]:
        """value -> [CHText.Chunk] having exactly specified width."""
        text, align = self.make_desired_cell_ch_chunks(
            value, fmt_modifier, field_palette)

        return self.fit_to_width(text, width, align, record_palette)

    def _verify_fmt_modifier(self, fmt_modifier):
        # Raise exc if 'fmt_modifier' is not compatible with this field type.
        ok, err_msg = self.is_fmt_modifier_ok(fmt_modifier)
        if not ok:
            raise ValueError(err_msg)

    def is_fmt_modifier_ok(self, fmt_modifier) -> [bool, str]:
        """Chek if fmt_modifier is correct.

        To be overriden in derived classes. By default Field Types do not
        accept any format modifiers.
        """
        if fmt_modifier is None:
            return True, ""
        return False, (
            f"Field type {self} does not support format modifiers. "
            f"(specified format modifier: '{fmt_modifier}')")

    @staticmethod
    def fit_to_width(ch_chunks, width, align, cp) -> [CHText.Chunk]:
        """[CHText.Chunk] -> [CHText.Chunk] of exactly specified length.

        Arguments:
        - ch_chunks: may be one of:
            - list of CHText.Chunk objects
            - single CHText.Chunk
            - CHText
        - width: desired width of result
        - align: pbobj.ALIGN_LEFT or pbobj.ALIGN_CENTER or pbobj.ALIGN_RIGHT
        - warn_syntax_name: in case the text does not fit into width
            it is not simply truncated, but modified - warn_syntax_name is required
            to get a color to be used to indicate modifications

        Return value:
        Method always returns [CHText.Chunk].

        Examples:
        'short'            -> colored 'short    '  or '    short'
        'very long text'   -> colored 'very l...'
        """
        if not isinstance(ch_chunks, list):
            if isinstance(ch_chunks, CHText.Chunk):
                ch_chunks = [ch_chunks]
            elif isinstance(ch_chunks, CHText):
                ch_chunks = ch_chunks.chunks.copy()

        assert width >= 0
        filler_len = width - CHText.calc_chunks_len(ch_chunks)
        if filler_len == 0:
            return ch_chunks  # lucky, the text has exactly necessary length
        if filler_len > 0:
            if align == ALIGN_CENTER:
                left_filer_len = filler_len // 2
                right_filler_len = filler_len - left_filer_len
                result = [cp.text(' '*left_filer_len)]
                result.extend(ch_chunks)
                result.append(cp.text(' '*right_filler_len))
                return result
            filler = cp.text(' '*filler_len)
            if align == ALIGN_LEFT:
                return ch_chunks + [filler, ]
            assert align == ALIGN_RIGHT
            result = [filler, ]
            result.extend(ch_chunks)
            return result
        # text is longer than necessary. It needs to be truncated.
        # "some long text" -> "some lo..."
        dots_len = min(3, width)
        visible_text_len = width - dots_len

        result = CHText.resize_chunks_list(ch_chunks, visible_text_len)
        result.append(cp.warn('.'*dots_len))

        return result


class _DefaultFieldType(FieldType):
    # Default FieldType to be used for fields with simple values.
    # Implements more efficient get_cell_text_len

    def get_cell_text_len(self, value, _fmt_modifier):
        """Calculate length of text representation of the value."""
        # caluculate text length w/o constructing CHText object for the cell
        return len(str(value))


class _DefaultTitleFieldType(_DefaultFieldType):
    # Default field type which produces content for titles (for example for
    # title cells of a table)

    class TitlePalette(FieldType.PALETTE_CLASS):
        SYNTAX_DEFAULTS = {
            # synt_id: default_color
            'RECORD.TITLE': "GREEN:bold",
            'RECORD.COL_TITLE': "GREEN:bold",
        }

        title = ConfColor('RECORD.TITLE')
        col_title = ConfColor('RECORD.COL_TITLE')

    PALETTE_CLASS = TitlePalette

    def make_desired_cell_ch_chunks(
        self, value, fmt_modifier, field_palette,
    ) -> ([CHText.Chunk], int):
        """Make desired content for title."""
        if isinstance(value, str) and fmt_modifier is None:
            return field_palette.col_title(value), ALIGN_LEFT
        return super().make_desired_cell_ch_chunks(value, fmt_modifier, field_palette)


class RecordField:
    """Describes a field in a record.

    Keeps information about the type of the field and it's location in the record.
    """

    __slots__ = 'name', 'field_type', 'value_path', 'title_lines'

    def __init__(self, name, field_type, value_path, title):
        """RecordField constructor.

        Arguments:
        - name: str, field name. Human-readable unique identifier of the field.
        - field_type: FieldType
        - value_path: str, desribes location of the field value in the record object
        - title: str|list, title of the field. If it is a list or if it is a string
            containing new-line characters, it is interpreted as a multi-line title.
            By default is the same as the name.
        """
        self.name = name
        self.field_type = field_type
        self.value_path = self._prepare_value_path(value_path, name)
        self.title_lines = list(self._gen_title_lines(title, self.name))

    def fetch_value(self, record):
        """get value from a record according to the rules specified by value_path."""
        val = record
        for is_attr, key in self.value_path:
            if is_attr:
                val = getattr(val, key)
            else:
                val = val[key]
        return val

    def get_title_cell_text_len(self, fmt_modifier):
        """Get length of the field's title."""
        # Default implementation does not use fmt_modifier argument
        # pylint: disable=unused-argument
        return max(len(str(l)) for l in self.title_lines)

    @classmethod
    def _gen_title_lines(cls, title, field_name):
        # constructor helper.
        # converts the 'title' argument into a list of objects to be displayed
        # in title lines
        intermediary = None
        if title is None:
            intermediary = [field_name]
        elif isinstance(title, str):
            intermediary = [title]
        elif isinstance(title, (list, tuple)):
            intermediary = title
        else:
            intermediary = [title]

        for item in intermediary:
            if isinstance(item, str):
                yield from (l.strip() for l in item.split('\n'))
            else:
                yield item

    @classmethod
    def _prepare_value_path(cls, value_path, field_name):
        # "0.name" -> [(False, 0), (True, 'name')]
        # "1.[name]" -> [(False, 0), (False, 'name')]
        # "0." -> [(False, 0), (True, 'field_name')]
        if isinstance(value_path, int):
            return [(False, value_path)]
        assert isinstance(value_path, str), f"it is {type(value_path)}: {value_path}"

        prepared_path = []

        steps = [s.strip() for s in value_path.split('.')]
        for step in steps:
            in_brakets = False
            if step.startswith('[') and step.endswith(']'):
                in_brakets = True
                step = step[1:-1]

            key = cls._opt_convert_int(step)
            is_attr = isinstance(key, str) and not in_brakets
            prepared_path.append((is_attr, key))

        if not prepared_path:
            raise ValueError(f"unexpected empty value_path: {value_path}")
        last_element = prepared_path[-1]
        if last_element[1] == '':
            # empty last element means it's the same as field name
            prepared_path[-1] = (last_element[0], field_name)

        return prepared_path

    @staticmethod
    def _opt_convert_int(text):
        # if string looks like int - convert it to int
        try:
            return int(text)
        except ValueError:
            pass
        return text


class RecordStructure:
    """Contains information about the fields in a record"""
    __slots__ = 'fields', 'map'

    def __init__(self, fields: [RecordField]):
        """Constructor of RecordStructure.

        Argument:
        - fields: list of RecordField objects. Order of the elements in the list
            defines the default order of columns in the record representation.
        """
        assert(all(isinstance(x, RecordField) for x in fields))
        self.fields = fields
        self.map = {f.name: f for f in self.fields}

        # verify no duplicates
        if len(self.fields) != len(self.map):
            d = defaultdict(int)
            for f in self.fields:
                d[f.name] += 1
            duplicates = sorted(
                field_name for field_name, count in d.items() if count > 1)
            raise ValueError(
                f"Fields in RecordStructure constructor have duplicated names: "
                f"{duplicates}")

    def get_field(self, field_name) -> RecordField:
        """Get RecordField by name. None if not found."""
        return self.map.get(field_name)


class ReprColumn:
    """Information about a single column of the record's representation.

    Do not confuse with field. Record consists of fields, record's representation
    (for example a table) consists of columns. Each column corresponds to some
    field, any number of columns may correspond to a given field.
    """

    __slots__ = (
        'field', 'name', 'fmt_modifier', 'break_by',
        'min_width', 'max_width', 'width',
    )

    def __init__(self, field, fmt_modifier=None, break_by=False,
                 min_width=None, max_width=None):
        """ReprColumn constructor.

        Arguments:
        - field: RecordField, specifies location of corresponding velue in
            record and formatting rules
        - fmt_modifier: in case RecordField supports several ways to format
            the value (f.e. long and short form of uuid) - specifies how to
            format the value.
        - break_by: indicates that an empty row should be inserted into table
            whenever the value of this column changes.
            (It is only used when the column is a part of the PPTable)
        - min_width, max_width: limits for column width.
        """
        self.field = field  # RecordField
        self.name = self.field.name

        ftype = self.field.field_type

        self.fmt_modifier = fmt_modifier  # or field.dflt_fmt_modifier
        ftype._verify_fmt_modifier(self.fmt_modifier)
        self.break_by = break_by

        self.min_width = min_width if min_width is not None else ftype.min_width
        self.max_width = max_width if max_width is not None else ftype.max_width
        self.width = None  # actual width of the column, will be calculated later

    def clone(self):
        """Clone self. (except for 'width' attribute)"""
        return ReprColumn(
            self.field,
            self.fmt_modifier,
            self.break_by,
            self.min_width,
            self.max_width,
        )

    def get_title_width(self):
        """Get width of the column's title.

        As of now columns do not have own titles, so the title of the corresponding
        field is used.
        """
        return self.field.get_title_cell_text_len(self.fmt_modifier)

    def get_cell_text_len(self, record):
        """Get desired cell length for this column when displaying given record.

        (Actual cell may be shorter or longer).
        """
        value = self.field.fetch_value(record)
        return self.field.field_type.get_cell_text_len(value, self.fmt_modifier)

    def make_cell_ch_chunks(
        self, record, field_palette, table_palette,
    ) -> [CHText.Chunk]:
        """Fetch value from record and make colored text for a cell.

        Length of created text is exactly self.width.
        """
        value = self.field.fetch_value(record)

        return self.field.field_type.make_cell_ch_chunks(
            value, self.fmt_modifier, self.width,
            field_palette, table_palette,
        )

    def to_fmt_str(self):
        """Create fmt string - human readable and editable descr of self."""
        fmt_str = self.name
        if self.fmt_modifier is not None:
            fmt_str += f"/{self.fmt_modifier}"

        if self.break_by:
            fmt_str += "!"

        if self.min_width == self.max_width:
            fmt_str += f":{self.min_width}"
        else:
            fmt_str += f":{self.min_width}-{self.max_width}"
            if self.width is not None:
                fmt_str += f"({self.width})"

        return fmt_str


class _ColumnsParsedFmt:
    # parsed 'fmt' string, which describes columns of record representation.

    class _ParsedColFmt(utils.DataRecord):
        # parsed information about a single column
        __slots__ = ['fmt', 'field_name', 'fmt_modifier', 'break_by',
                     'value_path', 'min_w', 'max_w']

        def mk_repr_column(self, field) -> ReprColumn:
            """self -> ReprColumn object."""
            return ReprColumn(
                field, self.fmt_modifier, self.break_by,
                self.min_w, self.max_w)

    __slots__ = 'fmt', 'columns'

    def __init__(self, fmt):
        self.fmt = fmt or ""  # the original 'fmt' string
        self.columns = self._parse_cols_fmt(fmt)

    def verify_not_enhanced(self):
        """Raises exception if fmt contains any columns with value_path."""
        if self.columns in ["", "*"]:
            return

        cols_with_path = [col for col in self.columns if col.value_path is not None]
        if cols_with_path:
            descr = ", ".join(
                f"'{col.field_name}' <- '{col.value_path}'"
                for col in cols_with_path)
            raise ValueError(
                f"'value_path' description can only be used in enhanced fmt and "
                f"is not applicable for usual fmt. fmt of following columns "
                f"have 'value_path' description: {descr}")

    def cols_are_explicit(self) -> bool:
        """Check if fmt contains explicit columns list (not a special value)."""
        return self.columns not in ["", "*"]

    def _parse_cols_fmt(self, fmt_s_cols):
        # constructor helper: parse 'columns' part of the fmt string
        if fmt_s_cols in ("", "*"):
            return fmt_s_cols  # special values "change nothing" and "show all"

        return [self._parse_col_fmt(s) for s in fmt_s_cols.split(',')]

    @classmethod
    def _parse_col_fmt(cls, fmt):
        # constructor helper: parse a single column fmt descr.
        # "c_name!<-1.account.[c_name]:3-10" -> _ParsedColFmt
        result = cls._ParsedColFmt()
        result.fmt = fmt

        # 1.1. find field name
        chunks = [s.strip() for s in fmt.split(":")]
        if len(chunks) > 2:
            raise ValueError(
                f"Invalid column format (':' encontered more than once): '{fmt}'")
        elif len(chunks) == 2:
            # fmt looks like "name:5-15<-value_path"
            field_name, width_fmt = chunks
        else:
            # fmt is just a field name
            field_name = chunks[0]
            width_fmt = ""

        # detect presense of 'value_path'
        i = field_name.find('<-')
        if i != -1:
            result.value_path = field_name[i+2:].strip()
            field_name = field_name[:i].strip()

        # detect 'break_by' indicator
        result.break_by = field_name.endswith('!')
        if result.break_by:
            field_name = field_name[:-1]

        # detect optional format modifier
        i = field_name.find('/')
        if i >= 0:
            # field name includes format modifier. Like this: "user_uuid/short"
            result.fmt_modifier = field_name[i+1:]
            field_name = field_name[:i]

        result.field_name = field_name

        # 1.2. parse width limits
        # It may be either a number or range
        if width_fmt == '-1':
            # special value: column object will not be created from it
            result.min_w = -1
            result.max_w = -1
        elif width_fmt:
            i = width_fmt.find('(')
            if i >= 0 and width_fmt.endswith(')'):
                # "3-10(7)": actual width annotation produced by to_fmt_str; ignore it
                width_fmt = width_fmt[:i]
            chunks = width_fmt.split('-')
            if len(chunks) > 2:
                raise ValueError(f"Invalid width range: '{width_fmt}'")
            widths = []
            for w in chunks:
                try:
                    widths.append(int(w))
                except ValueError as err:
                    raise ValueError(
                        f"Invalid column fmt '{fmt}' specified for field "
                        f"'{field_name}': Invalid width '{w}'."
                    ) from err
            if len(widths) == 2:
                result.min_w, result.max_w = widths
            else:
                result.min_w = widths[0]
                result.max_w = result.min_w

        return result

    def get_fields_info(self):
        """Get field-specific information from columns descriptions.

        This method verifies that columns descriptions contain consistent
        fields-related information for all fields.

        Method returns {field_name: value_path_str}
        """
        path_by_field_name = {}
        fieldnames_wo_value_path = set()
        for col in self.columns:
            if col.value_path is None:
                # this column descr contains no value_path, but may be it is
                # included into another column referring to the same field
                fieldnames_wo_value_path.add(col.field_name)
                continue

            if col.field_name in path_by_field_name:
                prev_path = path_by_field_name[col.field_name]
                if prev_path == col.value_path:
                    # two columns contain value_paths for the same field.
                    # But these value_paths are the same - ok
                    continue
                raise ValueError(
                    f"fmt string contains different value_paths for the "
                    f"same field '{col.field_name}': '{prev_path}' and "
                    f"'{col.value_path}'. Original fmt string:\n{self.fmt}")

            path_by_field_name[col.field_name] = col.value_path

        return path_by_field_name


class ReprStructure:
    """Record structure and columns of a record's representation.

    The main purpose of this class is to process the 'fmt' string - description
    of the columns of a record's representation. Often sufficient information about
    the record structure can also be fetched from the 'fmt', so it is not necessary
    to specify construct RecordStructure explicitely.

    The 'fmt' string is a comma-separated string of individual columns descriptions.

    Example of a single column description:

        "c_name!<-1.account.[name_key]:3-10"

    In this example:
    - "c_name" : name of the field
    - "!" : (optional) 'break_by' indicator
    - "<-1.account.[name_key]" : (optional) path to the location of the corresponding
      value in a record object. In this case the path means:
        value = record_obj[1].account['name_key']
    - ":3-10" : (optional) minimum and maximum width of the column.
        ":n-n" is equivalent to a shorter ":n"
    """
    __slots__ = 'record_structure', 'columns', 'title_field_type'

    _DFLT_FIELD_TYPE = _DefaultFieldType()
    _DFLT_TITLE_FIELD_TYPE = _DefaultTitleFieldType()

    def __init__(self, record_structure, columns):
        self.record_structure: RecordStructure = record_structure
        self.columns: [ReprColumn] = columns
        self.title_field_type = self._DFLT_TITLE_FIELD_TYPE

    def clone(self):
        return ReprStructure(
            self.record_structure, # it is immutable, no need to clone
            [c.clone() for c in self.columns],
        )

    @classmethod
    def make(cls, fmt, fields, fields_types, fields_titles, sample_record):
        """Alternative constructor of ReprStructure.

        Arguments:
        - fmt: format string, describes columns of the table. Check ReprStructure
            doc to get the description of the format of this string.
        - fields: [RecordField|str], describes record structure, that is location
            of field values in the record object.
        - fields_types: {field_name: FieldType}
        - fields_titles: {field_name: title_items}. The title_items may be:
            - simple string
            - string containing new-line characters (for multi-line title)
            - list of strings or other simple objects (for multi-line title)
        - sample_record: sample record.

        All the arguments are optional, the method fetches information about record
        structure and report columns from whatever is provided.
        """
        parsed_fmt = cls._parse_fmt(fmt)
        fields_types_dict = {} if fields_types is None else fields_types
        fields_titles_dict = {} if fields_titles is None else fields_titles

        record_structure = None
        repr_columns = None

        if fields is not None:
            # information about RecordStructure is specified explicitely.
            #
            # We expect records to be tuples, rec[i] corresponds to a fields[i] field
            assert isinstance(fields, (list, tuple))
            def _local_mk_rec_fld(pos, obj):
                if isinstance(obj, RecordField):
                    return obj
                assert isinstance(obj, str), (
                    f"unexpected value of type {type(obj)} in the 'fields' list. "
                    f"Expected RecordField or str")
                f_name = obj
                return RecordField(
                    f_name,
                    fields_types_dict.get(f_name, cls._DFLT_FIELD_TYPE),
                    pos, fields_titles_dict.get(f_name))
            record_structure = RecordStructure([
                _local_mk_rec_fld(pos, obj)
                for (pos, obj) in enumerate(fields)])

        if record_structure is None and hasattr(sample_record, '_fields'):
            # we can get RecordStructure from the sample record
            record_structure = RecordStructure([
                RecordField(
                    name,
                    fields_types_dict.get(name, cls._DFLT_FIELD_TYPE),
                    pos, fields_titles_dict.get(name))
                for pos, name in enumerate(sample_record._fields)])

        if record_structure is not None:
            # as the record structure is specified explicitely, the position of
            # fields must not be specified in the 'fmt'
            parsed_fmt.verify_not_enhanced()

        if parsed_fmt.cols_are_explicit():
            if record_structure is None:
                # try to fetch fields positions from the 'fmt' argument.
                # The problem here is that the 'fmt' describes representation
                # columns, not record fields. Multiple columns may refer to the
                # same field, will need to detect conflicts.
                #
                # The only field-related information in the 'fmt' is the value path.
                # Possible conflicts will be detected here:
                value_path_by_field = parsed_fmt.get_fields_info()
                fields_list = []
                processed_fields_names = set()
                for c in parsed_fmt.columns:
                    if c.field_name in processed_fields_names:
                        continue
                    processed_fields_names.add(c.field_name)
                    fields_list.append(RecordField(
                        c.field_name,
                        fields_types_dict.get(c.field_name, cls._DFLT_FIELD_TYPE),
                        value_path_by_field.get(
                            c.field_name,
                            c.field_name,  # if path to the field is not specified we
                                           # interprete it as
                                           # 'the field name itself is the path'
                        ),
                        fields_titles_dict.get(c.field_name),
                    ))
                record_structure = RecordStructure(fields_list)
            repr_columns = [
                c.mk_repr_column(record_structure.get_field(c.field_name))
                for c in parsed_fmt.columns
                # nagative width specified in the 'fmt' indicates that the field
                # exists and it is possible to change format to display it, but
                # right now the column for this field is not required.
                if c.max_w is None or c.max_w >= 0
            ]

        if record_structure is None and sample_record is not None:
            # the only information about record structure is the sample record.
            # and the sample record does not have explicit fields list.
            if not isinstance(sample_record, (list, tuple)):
                raise ValueError(
                    f"Can get record structure from a sample record only if the "
                    f"sample record is 'simple' (s a list or a tuple). Provided "
                    f"sample record is not 'simple': {type(sample_record)} "
                    f"{sample_record}. Provide record structure information "
                    f"using 'fields' argument")
            record_structure = RecordStructure([
                RecordField(f"col_{pos+1}", cls._DFLT_FIELD_TYPE, pos, None)
                for pos in range(len(sample_record))
            ])

        if record_structure is None:
            # There was no explicit information about record structure or columns.
            # The only reasonable situation when it can happen is when the report
            # was supposed to be built based on the sample record, but there are
            # no records. Still need to display some dummy table
            record_structure = RecordStructure([
                RecordField(
                    '-                              -', cls._DFLT_FIELD_TYPE,
                    0, None)
            ])

        if repr_columns is None:
            # we know the record sctructure, but list of columns was not specified.
            # by default show all the fields
            repr_columns = [ReprColumn(field) for field in record_structure.fields]

        return cls(record_structure, repr_columns)

    def col_widths_finalized(self) -> bool:
        """Check if actual widths of columns are already known."""
        return all(col.width is not None for col in self.columns)

    def detect_actual_columns_widths(
            self, body_records, *,
            _account_columns_names=True):
        """Calculate actual widths of columns using the actual records."""
        if _account_columns_names:
            for col in self.columns:
                title_width = col.get_title_width()
                col.width = min(col.max_width, max(col.min_width, title_width))
        else:
            for col in self.columns:
                col.width = col.min_width

        for rec in body_records:
            for col in self.columns:
                if col.width < col.max_width:
                    col.width = max(
                        col.width, min(col.max_width, col.get_cell_text_len(rec))
                    )
            if all(col.width == col.max_width for col in self.columns):
                break

    def remove_columns(self, columns_names):
        """Remove specified column from self"""
        self.columns = [
            c for c in self.columns
            if c.name not in columns_names
        ]

    def make_record_ch_chunks_all(self, record, cp) -> [[CHText.Chunk]]:
        """Create intermediate data for the record's text representation.

        Returns [[CHText.Chunk]], where each inner list corresponds to a column
        in self.columns.
        """
        result = []
        for col in self.columns:
            field_type = col.field.field_type
            field_palette = cp.get_sub_palette(field_type.PALETTE_CLASS)
            result.append(col.make_cell_ch_chunks(record, field_palette, cp))
        return result

    def gen_title_lines_ch_chunks_all(self, cp) -> Iterator[[[CHText.Chunk]]]:
        """Generate intermediate data for the record's title representation.

        The title may consist of several lines, for each line [[CHText.Chunk]]
        is generated. Each inner list corresponds to a title of a single column.
        """
        title_palette = cp.get_sub_palette(_DefaultTitleFieldType.PALETTE_CLASS)
        num_title_lines = max(len(col.field.title_lines) for col in self.columns)
        for i in range(num_title_lines):
            line_result = []  # [[CHText.Chunk]]
            for col in self.columns:
                title_item = (
                    col.field.title_lines[i] if i < len(col.field.title_lines)
                    else "")
                ch_items = self.title_field_type.make_cell_ch_chunks(
                    title_item, None, col.width, title_palette, cp)
                line_result.append(ch_items)
            yield line_result

    def __repr__(self):
        # it's important that repr contains fmt string, which can be used
        # to construct new format objects
        return self._get_fmt_str()

    def __str__(self):
        return self._get_fmt_str()

    def _get_fmt_str(self) -> str:
        # create the 'fmt' string which describes self.
        return ",".join(c.to_fmt_str() for c in self.columns)

    def _set_parsed_fmt(self, parsed_fmt, other=None):

        assert isinstance(parsed_fmt, _ColumnsParsedFmt)
        fields_by_name = {f.name: f for f in self.record_structure.fields}

        # 1. create list of columns
        columns = []
        if parsed_fmt.columns == "" and other is not None:
            # copy columns from the other
            columns = [c.clone() for c in other.columns]
        elif parsed_fmt.columns in ("", "*"):
            # show column for each field
            for field in self.record_structure.fields:
                columns.append(ReprColumn(
                    field,
                    None,  # fmt_modifier
                    False,  # break_ty
                    field.field_type.min_width, field.field_type.max_width))
        else:
            # columns specified in the fmt
            for c in parsed_fmt.columns:
                if c.field_name not in fields_by_name:
                    avail_fields = ", ".join(fields_by_name.keys())
                    raise ValueError(
                        f"column fmt '{c.fmt}' refers to unknown field "
                        f"'{c.field_name}'. Available fields: {avail_fields}")
                field = fields_by_name[c.field_name]

                if all(w is not None and w < 0 for w in [c.min_w, c.max_w]):
                    # special case: column description was used to create
                    # field only, column will not be created for it
                    assert c.min_w == -1 and c.max_w == -1
                    continue

                columns.append(ReprColumn(
                    field,
                    c.fmt_modifier, c.break_by,
                    c.min_w, c.max_w))

        self.columns = columns

    @staticmethod
    def _parse_fmt(fmt) -> _ColumnsParsedFmt:
        # parse fmt string if not parsed yet
        if isinstance(fmt, _ColumnsParsedFmt):
            return fmt
        if fmt is None:
            fmt = ""
        assert isinstance(fmt, str), f"{type(fmt)}: {fmt}"
        return _ColumnsParsedFmt(fmt)


#########################
# PPTable

class PPTable(PPObj):
    """2-D table.

    Provides pretty-printing and simple manipulation on 2-D table
    of data (such as results of sql query).
    """

    class TablePalette(CompoundPalette):
        """Palette to be used to print PPTable."""
        SYNTAX_DEFAULTS = {
            # synt_id: default_color
            'TABLE.BORDER': "GREEN",
            'TABLE.WARN': "WARN",
            'TABLE.HEADER': "GREEN:bold",
        }

        SUB_PALETTES_MAP = {}

        border = ConfColor('TABLE.BORDER')
        warn = ConfColor('TABLE.WARN')
        header = ConfColor('TABLE.HEADER')

    PALETTE_CLASS = TablePalette

    def __init__(
            self, records, *,
            header=None,
            footer=None,
            fmt=None,
            fmt_obj=None,
            limits=None,
            skip_columns=None,
            fields=None,
            fields_types=None,
            fields_titles=None,
    ):
        """Constructor of PPTable object - this object prints table.

        Some terminology:
        - column: visible column in a table
        - field: possible source of values for the column; describs how to get a
            value from record object and possible ways to format it

        Arguments:
        - records: list of objects, containig data for table rows. All the
            objects must have similar structure (it may be a simple list or
            tuple of values or something more complex)
        - header, footer: (optional) text for header and footer of the table
        - fmt: (optional) string, describing columns of the table. Check
            PPTableFormat doc for more details.
        - fmt_obj: (optional) PPTableFormat object
        - limits: override default or specified in fmt numbers of printable records.
            Acceptable values:
            - None: ignored (default number of records will be printed)
            - (n_first, n_last) - tuple of two optional integers
        - skip_columns: list of columns to skip. Overrides fmt argument.
        - fields: (optional) list of names of fileds in a record, or list
            of RecordField objects
        - fields_titles: optional {field_name: title_items}. The title_items may be:
            - simple string
            - string containing new-line characters (for multi-line title)
            - list of strings or other simple objects (for multi-line title)
        - fields_types: (optional) dictionary {field_name: FieldType}.

        Combinations of arguments used in common scenarios:

        PPTable(
            records,
            fmt="field_a, field_b",  # names of fields for visible columns
            fields=["field_1", ...],  # correspondence of fields to values in record
            fields_types={...}, # FieldType for those fields, for which
                                # default field type does not work
        )

        PPTable(
            records,
            fmt="field_a<-value_path, ...",  # to be used if records have
                                             # complex structure
            fields_types={...},
        )

        (value_path example: "zipcode<-0.[user].address."
        - 0 - means position in a list/tuple
        - address - sttribute name
        - [user] - in square brakets, means 'user' is a key in a dictionary
        - . - skipped last element, means the last element is the same as field name
            (in this case 'zipcode')
        )

        Check doc of PPTableFormat for more detailed description of fmt string.
        """
        self.records = records
        # each PPObj should have 'r' attribute, which contains 'original' object.
        # In case of table the original object is the list of records:
        self.r = self.records

        # self._default_pptable_printer produces 'default' representation of
        # the table (that is what is produced by 'print(pptable)')
        self._default_pptable_printer = _PPTableImpl(
            records,
            header=header,
            footer=footer,
            fmt=fmt,
            fmt_obj=fmt_obj,
            limits=limits,
            skip_columns=skip_columns,
            fields=fields,
            fields_types=fields_types,
            fields_titles=fields_titles,
        )

    def set_fmt(self, fmt):
        """Specify fmt - a string which describes format of the table.

        Method returns self - so that in python console the modified table be
        printed out immediately.
        """
        self._default_pptable_printer.set_fmt(fmt)
        return self

    def _get_fmt(self):
        # getter of 'fmt' property.
        # returns PPTableFormat object
        # repr of this object contains fmt string which can be used to apply
        # new format
        return self._default_pptable_printer._get_fmt()

    fmt = property(_get_fmt, set_fmt)

    def remove_columns(self, columns_names):
        """Remove columns from table.

        Arguments:
        - columns_names: list of names of columns to remove. (values not
            equal to name of any column are accepted but ignored).
        """
        self._default_pptable_printer.remove_columns(columns_names)

    def gen_ch_lines(self, cp: Palette) -> Iterator[CHText]:
        # implementation of PrettyPrinter functionality
        yield from self._default_pptable_printer.gen_ch_lines(cp)


class _PPTableParsedFmt:
    # parser of fmt - string representing PPTable format

    __slots__ = ('fmt', 'cols_parsed_fmt', 'vis_lines', 'table_width')

    def __init__(self, fmt):
        """Parse fmt - string containing PPTable format description"""
        self.fmt = fmt

        if fmt is None:
            fmt = ";;"

        # fmt is "visible_columns ; visible_records ; table_width"
        fmt_s_cols, fmt_s_lines, _fmt_s_twidths = self._fmt_str_split(fmt)

        self.cols_parsed_fmt = _ColumnsParsedFmt(fmt_s_cols)

        self.vis_lines = self._parse_vis_lines_fmt(fmt_s_lines)
        self.table_width = None  # not implememnted

    @staticmethod
    def _fmt_str_split(fmt_str):
        # constructor helper: split 'fmt' string into 3 sections
        if fmt_str is None:
            fmt_str = ";;"
        parts = fmt_str.split(';')
        if len(parts) > 3:
            raise ValueError(
                f"Invalid fmt string (it contains more than 3 "
                f" ';'-delimited sections: '{fmt_str}'")

        while len(parts) < 3:
            parts.append("")  # "" format means "no need to change anything"

        return parts

    @staticmethod
    def _parse_vis_lines_fmt(fmt_s_lines):
        # constructor helper: parse 'visible lines' part of fmt string
        if fmt_s_lines == "":
            return None
        if fmt_s_lines == "*":
            return (None, None)

        # "20:10" - show 20 first recs and 15 last recs
        parts = [x.strip() for x in fmt_s_lines.split(':')]
        if len(parts) != 2:
            raise ValueError(
                f"Invalid visible lines limits fmt: '{fmt_s_lines}'. "
                f"If limits are specified, they should be in form "
                f"'max_num_first_lines:max_num_last_lines'")
        try:
            n_first, n_last = [int(x) for x in parts]
        except ValueError as err:
            raise ValueError(
                f"Invalid visible lines limits fmt: '{fmt_s_lines}'"
            ) from err

        return n_first, n_last


class PPTableFormat:
    """Contains information about PPTable format: visible columns, etc.

    PPTableFormat can be described by string (so called 'fmt' string),
    and can be constructed based on fmt string.

    'fmt' string consists of 3 parts separated by ';'. These parts are
    1. visible columns descriptions
    2. record limits description
    3. total table width (not implemented)

    Special values for each part are:
    "" - keep format as in 'other' or create default
    "*" - "show all"

    1. visible columns description describes columns of the table. Examples:

        "field_1:7, field_2:5-20" - two columns, width of first is fixed, width
          of the second must be in range [5-20].

        "field_1!:7" - '!' indicates 'break_by' property: empty line will be
          inserted into table whenever value of this column changes.

        "field_1!<-0.attr" - '<-0.attr' specifies 'value_path' - property
          required in some scenarios of PPTable creation when information
          about fields is included into columns descriptions.

    2. record limits example:

        "10:15" - if number of records is more that 26, only 10 first and
          15 last records will be displayed.

    3. not implemented.
    """

    _DFLT_LIMIT_LINES = (30, 20)  # n_first, n_last

    def __init__(self, repr_structure, limit_flines=None, limit_llines=None):
        """Constructor of PPTableFormat.

        Arguments:
        - repr_structure: ReprStructure, contains information about columns
        - limit_flines, limit_llines - limits of numbers of visible lines

        Alternative constructor is the 'make' method.
        """
        assert isinstance(repr_structure, ReprStructure)
        self.repr_structure = repr_structure  # ReprStructure
        self.limit_flines = limit_flines
        self.limit_llines = limit_llines
        # indicates if the table (which ownes this format object) has more lines
        # than can be displayed (because of self.limit_flines and self.limit_llines
        # limits)
        self.any_lines_skipped = None

    @classmethod
    def make(cls, fmt, fields, fields_types, fields_titles, sample_record=None):
        """Alternative PPTableFormat constructor.

        Arguments:
          Check ReprStructure.make doc string for detailed description of arguments.
        """
        parsed_fmt = PPTableFormat._parse_fmt(fmt)
        limit_flines, limit_llines = parsed_fmt.vis_lines or (None, None)

        return PPTableFormat(
            ReprStructure.make(
                parsed_fmt.cols_parsed_fmt,
                fields, fields_types, fields_titles, sample_record),
            limit_flines, limit_llines,
        )

    def clone(self):
        return PPTableFormat(
            self.repr_structure.clone(), self.limit_flines, self.limit_llines)

    def remove_columns(self, columns_names):
        """Remove columns from table."""
        self.repr_structure.remove_columns(columns_names)

    def set_limits(self, limits):
        """Change number of printrable records.

        Possible values:
        - None: leave the limits as is
        - (n_first, n_last): tuple of two optional integers
        """
        if limits is None:
            return
        assert isinstance(limits, (list, tuple)) and len(limits) == 2, (
            f"invalid limits specified: {limits}. Expected value is None "
            f"or (n_firts, n_last)")
        self.limit_flines, self.limit_llines = limits

    @staticmethod
    def _parse_fmt(fmt):
        # parse fmt string if not parsed yet
        if isinstance(fmt, _PPTableParsedFmt):
            return fmt
        if fmt is None:
            fmt = ""
        assert isinstance(fmt, str), f"{type(fmt)}: {fmt}"
        return _PPTableParsedFmt(fmt)

    def _set_parsed_fmt(self, parsed_fmt, other=None):
        # Set new format.
        #
        # Arguments:
        # - parsed_fmt: _PPTableParsedFmt, parsed 'fmt' string
        # - other: optional other PPTableFormat object. Is used when some
        # information is not present in the 'fmt'.

        assert isinstance(parsed_fmt, _PPTableParsedFmt)

        self.repr_structure._set_parsed_fmt(
            parsed_fmt.cols_parsed_fmt, other.repr_structure)

        if parsed_fmt.vis_lines is None:
            # this section was not specified in fmt
            if other is None:
                self.set_limits(self._DFLT_LIMIT_LINES)
            else:
                self.limit_flines = other.limit_flines
                self.limit_llines = other.limit_llines
        else:
            self.set_limits(parsed_fmt.vis_lines)

    def __repr__(self):
        # it's important that repr contains fmt string, which can be used
        # to construct new format objects
        return self._get_fmt_str()

    def __str__(self):
        return self._get_fmt_str()

    def _get_fmt_str(self) -> str:
        # create the 'fmt' string which describes self.

        parts = []
        # 1. format of visible columns
        parts.append(str(self.repr_structure))

        # 2. numbers of visible lines
        if self.any_lines_skipped is None or self.any_lines_skipped is True:
            if self.limit_flines is None or self.limit_llines is None:
                parts.append("*")
            else:
                parts.append(f"{self.limit_flines}:{self.limit_llines}")
        else:
            # no lines skipped, no need to include these limits into fmt
            parts.append("")

        # 3. format max table width
        # not implemented

        while parts and parts[-1] == "":
            parts.pop()

        return ";".join(parts)


class _PPTableImpl:
    # Implements pretty-printing of table

    class _ServiceLine:
        # contents of a 'service' line of a printed table - line, which
        # doesn't correspond to any record (f.e. empty 'break by' line)
        __slots__ = ('ch_text', )
        def __init__(self, ch_text=None):
            self.ch_text = ch_text

    def __init__(
            self, records, *,
            header=None,
            footer=None,
            fmt=None,
            fmt_obj=None,
            limits=None,
            skip_columns=None,
            fields=None,
            fields_types=None,
            fields_titles=None,
    ):
        # check doc of PPTable for description of aruments

        self.records = records

        self._ppt_fmt = self._init_format(
            fmt, fmt_obj, fields, fields_types, fields_titles)

        self._ppt_fmt.set_limits(limits)

        if skip_columns is not None:
            self._ppt_fmt.remove_columns(skip_columns)

        self.header = header
        self.footer = (
            footer if footer is not None else f"Total {len(self.records)} records")

    def _init_format(
        self, fmt, fmt_obj, fields, fields_types, fields_titles,
    ) -> PPTableFormat:
        # part of PPTable constructor.
        # depending on arguments choose apropriate way to create PPTableFormat

        if fmt_obj is not None:
            assert fields is None
            assert fields_types is None
            assert fmt is None
            return fmt_obj.clone()

        return PPTableFormat.make(
            fmt, fields, fields_types, fields_titles,
            self.records[0] if self.records else None,
        )

    def set_fmt(self, fmt):
        """Specify fmt - a string which describes format of the table."""
        new_fmt_obj = self._ppt_fmt.clone()
        parsed_fmt = PPTableFormat._parse_fmt(fmt)
        new_fmt_obj._set_parsed_fmt(parsed_fmt, self._ppt_fmt)
        self._ppt_fmt = new_fmt_obj
        return self

    def _get_fmt(self):
        # getter of 'fmt' property.
        return self._ppt_fmt

    def remove_columns(self, columns_names):
        """Remove columns from table."""
        self._ppt_fmt.remove_columns(columns_names)

    def gen_ch_lines(self, cp: PPTable.TablePalette) -> Iterator[CHText]:
        """Generate CHText objects - lines of the printed table"""

        repr_structure = self._ppt_fmt.repr_structure
        columns = repr_structure.columns
        record_fields_palettes = [
            cp.get_sub_palette(col.field.field_type.PALETTE_CLASS)
            for col in columns]

        # prepare list of table lines. Table line may correspond to a record
        # or to a special markup lines
        table_lines = []
        break_line = self._ServiceLine()
        skipped_recs_line = self._ServiceLine()
        break_by_fields = [col.field for col in columns if col.break_by]
        prev_break_by_values = None
        for rec in self.records:
            cur_break_by_values = [
                field.fetch_value(rec) for field in break_by_fields]
            if (prev_break_by_values is not None and
                prev_break_by_values != cur_break_by_values
            ):
                table_lines.append(break_line)
            table_lines.append(rec)
            prev_break_by_values = cur_break_by_values

        # check if some records should be hidden because of record numbers limits
        n_first = self._ppt_fmt.limit_flines
        n_last = self._ppt_fmt.limit_llines
        if (n_first is not None
            and n_last is not None
            and len(table_lines) > n_first + n_last + 1
           ):
            first_lines = table_lines[:n_first] if n_first else []
            last_lines = table_lines[-n_last:] if n_last else []
            # calculate number of not visible records.
            n_skipped = len(self.records) - sum(
                1 if not isinstance(tl, self._ServiceLine) else 0
                for tlines in (first_lines, last_lines)
                for tl in tlines)
            table_lines = first_lines + [skipped_recs_line] + last_lines
        else:
            # show all records
            n_skipped = 0
        self._ppt_fmt.any_lines_skipped = n_skipped > 0

        # calculate actual widths of table columns (col.width)
        if not repr_structure.col_widths_finalized():
            repr_structure.detect_actual_columns_widths(
                (
                    rec for rec in table_lines
                    if not isinstance(rec, self._ServiceLine)
                )
            )

        table_width = sum(col.width for col in columns) + len(columns) + 1

        sep = cp.border('|')

        # contents of service lines can be created now
        break_line.ch_text = CHText(sep, " "*(table_width - 2), sep)
        skipped_line_contents = FieldType.fit_to_width(
            [
                cp.warn("... "),
                cp.text(f"{n_skipped} records skipped"),
            ],
            table_width - 2,
            ALIGN_LEFT,
            cp)
        skipped_line_contents.insert(0, sep)
        skipped_line_contents.append(sep)
        skipped_recs_line.ch_text = CHText.make(skipped_line_contents)

        # 1. make first border line
        border_line = CHText.make([
            cp.border("".join("+" + "-"*col.width for col in columns) + '+')])
        yield border_line

        # 2. table header (name)
        if self.header:
            line = FieldType.fit_to_width(
                [cp.header(self.header)], table_width - 2, ALIGN_LEFT, cp)
            line.insert(0, sep)
            line.append(sep)
            yield CHText.make(line)

        # 3. multi column titles
        for title_line_data in repr_structure.gen_title_lines_ch_chunks_all(cp):
            yield CHText.make(self._make_table_line(title_line_data, sep))

        # 4. one more border_line
        yield border_line

        # 5. table contents - actual records and service lines
        for tl in table_lines:
            if isinstance(tl, self._ServiceLine):
                yield tl.ch_text
            else:
                yield CHText.make(self._make_table_line(
                    self._ppt_fmt.repr_structure.make_record_ch_chunks_all(tl, cp),
                    sep))

        # 6. final border line
        yield border_line

        # 7. summary line
        if self.footer:
            yield CHText.make(FieldType.fit_to_width(
                [cp.text(self.footer)], table_width, ALIGN_LEFT, cp))

    def _make_table_line(self, cells_ch_texts_data, sep) -> [CHText.Chunk]:
        # helper method wich combines cells text into table line
        # [[CHText.Chunk]] -> [CHText.Chunk]
        line = [sep]
        is_first = True
        for cell_ch_text_items in cells_ch_texts_data:
            if is_first:
                is_first = False
            else:
                line.append(sep)
            line.extend(cell_ch_text_items)
        line.append(sep)
        return line


#########################
# PPRecord

class PPRecordChData:
    # result produced by PPRecordFmt.

    def __init__(self, cols_names, cols_ch_texts):
        self.columns = cols_ch_texts
        self.cols_by_name = dict(zip(cols_names, self.columns))

    def __str__(self):
        return " ".join(str(c) for c in self.columns)

    def ch_text(self):
        return CHText(" ").join(self.columns)


class PPRecordFmt(PaletteUser):
    """Object of this class prints records in specified format."""

    class PPRecordPalette(CompoundPalette, FieldType.RecordPalette):
        SUB_PALETTES_MAP = {}

    PALETTE_CLASS = PPRecordPalette

    def __init__(
        self, fmt,
        fields=None, fields_types=None, fields_titles=None, sample_record=None,
    ):
        self.repr_structure = ReprStructure.make(
            fmt, fields, fields_types, fields_titles, sample_record)

    def __call__(self, record, *, palette=None, no_color=None, colors_conf=None):
        """Create colored text representation of the record.

        Returns PPRecordChData object, which can be directly printed or converted
        to string. It also contains text representations of the individual columns.
        """
        cp = self._mk_palette(palette, no_color, colors_conf)

        if not self.repr_structure.col_widths_finalized():
            self.repr_structure.detect_actual_columns_widths(
                [record],
                _account_columns_names=False,
            )

        cols_names = [col.name for col in self.repr_structure.columns]
        cols_ch_texts = [
            CHText(ch_items)
            for ch_items in self.repr_structure.make_record_ch_chunks_all(record, cp)]

        return PPRecordChData(cols_names, cols_ch_texts)


#########################
# PPEnumFieldType

class PPEnumFieldType(FieldType):
    """PPTable Enum Field Type.

    Generates values for PPTable cells, f.e.: "10 Active"
    """
    class EnumPalette(FieldType.PALETTE_CLASS):
        """Palette to be used for enum fields"""
        PARENT_PALETTES = [FieldType.PALETTE_CLASS, ]

        value = ConfColor('')
        name_good = ConfColor('')
        name_warn = ConfColor('')
        error = ConfColor('ERROR')

    PALETTE_CLASS = EnumPalette
    MISSING = object()

    _FMT_MODIFIERS = {
        'full': "show both value and name, (f.e. '10 Active')",
        'val': "show only value of the enum, (f.e. '10')",
        'name': "show only name of the enum value, (f.e. 'Active')",
    }

    def __init__(self, enum_values):
        """Create PPEnumFieldType.

        Arguments:
        - enum_values: {enum_val: enum_name} or {enum_val: (enum_name, syntax_name)}

        Use PPEnumFieldType.MISSING value to specify description and syntax
        of 'unexpected' values.
        """
        self.enum_values = {
            enum_val: (
                (enum_name, None) if not isinstance(enum_name, (list, tuple))
                else enum_name
            )
            for enum_val, enum_name in enum_values.items()
        }
        self.enum_missing_value = enum_values.get(
            self.MISSING, ("<???>", "error"))

        self.max_val_len = max(
            (len(str(x)) for x in self.enum_values if x is not None),
            default=1)

        # {syntax_names_id: {fmt_modifier: {enum_val: (text, align)}}}
        self._cache = {}

        self._cache_lengths = {
            fmt_modifier: {}
            for fmt_modifier in self._FMT_MODIFIERS
        }  # {fmt_modifier: {enum_val: length}}
        self._cache_lengths[None] = self._cache_lengths['full']
        super().__init__()

    def val_to_name(self, value) -> str:
        """Return simple string name of the value."""
        return self.enum_values.get(value, self.enum_missing_value)[0]

    def make_desired_cell_ch_chunks(
        self, value, fmt_modifier, field_palette,
    ) -> ([CHText.Chunk], int):
        """value -> desired text and alignment"""

        cache_key = field_palette  # need to maintain separate caches
                            # enum_value -> CTHText for different palettes
        # prepare and cache cell text for a enum value
        # cache is prepared for all supported format modifiers
        try:
            by_fmt_cache = self._cache[cache_key]
        except KeyError:
            by_fmt_cache = self._cache[cache_key] = {
                fmt_modifier: {}
                for fmt_modifier in self._FMT_MODIFIERS
            }
            # None and 'full' format modifiers will refer to the same cached vals
            by_fmt_cache[None] = by_fmt_cache['full']
            self._cache[cache_key] = by_fmt_cache

        by_value_cache = by_fmt_cache.get(fmt_modifier, None)
        if by_value_cache is None:
            self._verify_fmt_modifier(fmt_modifier)

        if value not in by_value_cache:
            self._make_text_cache_for_val(
                value, field_palette, by_fmt_cache)

        return by_value_cache[value]

    def _make_text_cache_for_val(self, value, cp, by_fmt_cache) -> None:
        # populate self._cache for value
        # ('by_fmt_cache' is part of self._cache)
        try:
            name, syntax_name = self.enum_values[value]
            val_len = self.max_val_len
        except KeyError:
            if value is None:
                # special case: cell will not contain enum's value and name,
                # but a single None
                text_and_alignment = super().make_desired_cell_ch_chunks(
                    value, None, cp)
                by_fmt_cache['val'][value] = text_and_alignment
                by_fmt_cache['name'][value] = text_and_alignment
                by_fmt_cache['full'][value] = text_and_alignment
                return
            name, syntax_name = self.enum_missing_value
            val_len = max(self.max_val_len, len(str(value)))

        color_fmt = cp.get_color(syntax_name)

        # 'val' format
        val_text_items, align = super().make_desired_cell_ch_chunks(value, None, cp)
        by_fmt_cache['val'][value] = (val_text_items, align)

        # 'name' format
        by_fmt_cache['name'][value] = ([color_fmt(name)], align)

        # 'full' format
        full_text_items = []
        pad_len = val_len - CHText.calc_chunks_len(val_text_items)
        if pad_len > 0:
            # align 'value' portion of the text to right
            full_text_items.append(cp.text(" " * pad_len))
        full_text_items.extend(val_text_items)
        full_text_items.append(cp.text(" "))
        full_text_items.append(color_fmt(name))
        by_fmt_cache['full'][value] = (full_text_items, ALIGN_LEFT)

    def get_cell_text_len(self, value, fmt_modifier) -> int:
        """Calculate length of text representation of the value."""

        by_val_lenghs = self._cache_lengths.get(fmt_modifier, None)
        if by_val_lenghs is None:
            self._verify_fmt_modifier(fmt_modifier)

        if value not in by_val_lenghs:
            self._make_len_cache_for_val(value)

        return by_val_lenghs[value]

    def _make_len_cache_for_val(self, value):
        # populate self._cache_lengths for value
        try:
            name, _ = self.enum_values[value]
            val_len = self.max_val_len
        except KeyError:
            if value is None:
                # special case: cell will not contain enum's value and name,
                # but a single None
                text_len = len(str(None))
                self._cache_lengths['val'][value] = text_len
                self._cache_lengths['name'][value] = text_len
                self._cache_lengths['full'][value] = text_len
                return
            name, _ = self.enum_missing_value
            val_len = max(self.max_val_len, len(str(value)))

        # 'val' format
        self._cache_lengths['val'][value] = val_len

        # 'name' format
        name_len = len(str(name))
        self._cache_lengths['name'][value] = name_len

        # 'full' format
        self._cache_lengths['full'][value] = val_len + 1 + name_len

    def is_fmt_modifier_ok(self, fmt_modifier) -> (bool, str):
        """Chek if fmt_modifier is correct."""
        if fmt_modifier is None or fmt_modifier in self._FMT_MODIFIERS:
            return True, ""

        formats_descr = "\n".join(
            f"'{fmt_name}': {fmt_descr}"
            for fmt_name, fmt_descr in self._FMT_MODIFIERS.items())

        return False, (
            f"Format modifier '{fmt_modifier}' is not supported by "
            f"{str(type(self))}. Supported format modifiers: \n"
            f"{formats_descr}"
        )
