"""Implementation of 'h' and 'll' methods to be used in python console.

'h' (and 'hh') methods print out a description of an object. It's a
responsibility of an object to provide the description. Object is
'h_doc friendly' if it has '_h_doc' attribute of HDocItem class.
Printed text should be similar to the doc string, main purpose is to
provide short fast lookup of available methods, their signatures, etc.
This module provides implemendations of 'h' (and 'hh') mehtods and tools
to make objects 'h_doc friendly'.

'll' method is designed to print information about objects available in
python's concole scope.
"""

import inspect
from typing import Iterator

from ak.color import Palette, PaletteUser, CHText, ConfColor


#########################
# 'll'-command specific classes

class LLImpl(PaletteUser):
    """Implementation of 'll' command.

    Usage:
    >>> ll = LLImpl(locals())
    >>> ll
    ... summary of local variables is printed ...
    """

    class LLImplPalette(Palette):
        SYNTAX_DEFAULTS = {
            # synt_id: default_color
            'LL.NAME': 'NAME',
            'LL.CATEGORY': 'MAGENTA',
        }

        name = ConfColor('LL.NAME')
        category = ConfColor('LL.CATEGORY')

    PALETTE_CLASS = LLImplPalette

    def __init__(self, locals_dict):
        """Create 'll' object which prints summary of values in python console.

        Arguments:
        - locals_dict: dictionary of console's locals
        """
        self.locals_dict = locals_dict

    # !!! is not used anywhere. Need tests
    def gen_sh_lines(self) -> Iterator[CHText]:
        # generate lines (CHText values) which make a summary of
        # variables in self.locals_dict

        # each category has list of items with description and list of
        # items w/o description
        items_by_category = {}  # {category_name: ([(name, descr), ], [name, ])}
        _c = self._mk_palette(None, None, None)

        cat_sort_weights = {}

        for name, value in self.locals_dict.items():
            cat_sort_weight, category, descr = self._get_explicit_value_descr(value)
            assert category is not None

            # sorting rules of categories are not very strict. Guessed weight
            # may change from item to item, so update it after each item
            new_weight = min(cat_sort_weight,
                             cat_sort_weights.get(category, cat_sort_weight))
            cat_sort_weights[category] = new_weight

            if descr is not None:
                items_by_category.setdefault(
                    category, ([], []))[0].append((name, descr))
            else:
                if not name.startswith('_'):
                    items_by_category.setdefault(category, ([], []))[1].append(name)

        cat_is_first = True
        sorted_categories = sorted(
            items_by_category.keys(), key=lambda cat: (cat_sort_weights[cat], cat))
        for category_name in sorted_categories:
            if cat_is_first:
                cat_is_first = False
            else:
                yield CHText(_c.text(""))
            yield CHText(_c.categoty(category_name), ":")
            items, items_wo_descr = items_by_category[category_name]
            if items:
                items.sort(key=lambda kv: kv[0])
                max_name_len = max(len(item[0]) for item in items)
                name_col_len = min(max_name_len, 20) + 1
                for name, descr in items:
                    c_name_descr = CHText(_c.name(name)).fixed_len(name_col_len)
                    c_name_descr += ("", f": {descr}")
                    yield c_name_descr
            if items_wo_descr:
                yield CHText("  ") + CHText(", ").join(
                    _c.name(name)
                    for name in items_wo_descr)

    def _get_explicit_value_descr(self, value):
        # detect if data for 'll' report is present in the object and return it.
        #
        # information may be available either via value._get_ll_descr() or
        # value._get_ll_cls_descr(). There are two different methods because
        # it may be necessary to report some class and object of this class
        # with different descriptions.
        #
        # returns (cat_sort_weight, category, descr)
        # cat_sort_weight is used to organize categories in the printed report
        cat_sort_weight = 50
        category, descr = None, None
        if inspect.isclass(value):
            if hasattr(value, '_get_ll_cls_descr'):
                category, descr = value._get_ll_cls_descr()
                cat_sort_weight = 20
            else:
                category = value.__name__
                cat_sort_weight = 80
        else:
            if hasattr(value, '_get_ll_descr'):
                category, descr = value._get_ll_descr()
                cat_sort_weight = 20
            else:
                category = type(value).__name__
                cat_sort_weight = 80
        return cat_sort_weight, category, descr

    def _get_ll_descr(self):
        # ll-information about 'll' command itself
        return "Console tools", "Command which produced this summary"


#########################
# 'h'-command specific classes

class HCommand(PaletteUser):
    """Implementation of 'h' command.

    h(obj) prints some text related to the 'obj'. The text is produced by
    HDocItem object stored at obj._h_doc.
    """

    _DFLT_FILT_ARG = object()
    _LEVEL_H, _LEVEL_HH = 1, 2  # correspond to 'h' and 'hh' commands

    class HCmdPalette(Palette):
        SYNTAX_DEFAULTS = {
            # synt_id: default_color
            'HDOC.ATTR': 'YELLOW',
            'HDOC.FUNC_NAME': 'BLUE',
            'HDOC.TAG': 'GREEN',
            'HDOC.WARN': 'WARN',
        }
        attr = ConfColor('HDOC.ATTR')
        func_name = ConfColor('HDOC.FUNC_NAME')
        tag = ConfColor('HDOC.TAG')
        warn = ConfColor('HDOC.WARN')


    PALETTE_CLASS = HCmdPalette

    def __init__(self, dets_level=_LEVEL_H):
        self.dets_level = dets_level

    def __call__(self, obj, filt=_DFLT_FILT_ARG):
        # this method does not return the help text, but prints it
        # to make sure color sequences are printed properly.
        # (python interpreter does not display color sequences when
        # printing out object's repr)
        print(self._make_help_text(obj, filt))

    def _make_help_text(self, obj, filt=_DFLT_FILT_ARG) -> str:
        # prepare help text to be printed by __call__.
        # It's a separate method to be used in tests.
        return "\n".join(
            str(colored_text)
            for colored_text in self._gen_ch_lines(
                obj, filt, dets_level=self.dets_level, fmt_oneline=False))

    def _gen_ch_lines(self, obj, filt, dets_level, fmt_oneline) -> Iterator[CHText]:
        # generate lines of text which make output of 'h' command

        # Object is h-doc capable if it has '_h_doc' attribute.
        if hasattr(obj, '_h_doc'):
            _c = self._mk_palette(None, None, None)
            yield from obj._h_doc.gen_help_text(
                obj, filt, _c, dets_level, fmt_oneline)

    def _get_ll_descr(self):
        # object description for 'll' command
        return "Console tools", "Help for misc classes and objects"


class HDocItem:
    """Base for classes which hold h-doc information for some object"""

    def gen_help_text(
        self, obj, filt, _c, dets_level, fmt_oneline,
    ) -> Iterator[CHText]:
        """Generate h-doc syntax-highlihted text for an object.

        Arguments:
        - obj: the object to generate help for. It is supposed
            that self is obj._h_doc
        - filt: some object which can be specified to modify generated help text.
            Processing of this object may be implemented in derived classes.
        - dets_level: details level.
        - fmt_oneline: henerate one-line help.
        """
        assert hasattr(obj, '_h_doc')
        assert obj._h_doc is self

        if fmt_oneline:
            yield from self._gen_help_oneline(obj, filt, _c, dets_level)
        else:
            yield from self._gen_help_text(obj, filt, _c, dets_level)

    def _gen_help_text(
        self, _obj, _filt, _local_palette, _dets_level, _bm_notes=None,
    ) -> Iterator[CHText]:
        # to be implemented in derived classes
        yield from[]
        raise NotImplementedError

    def _gen_help_oneline(
        self, _obj, _filt, _local_palette, _dets_level, _bm_notes=None,
    ) -> Iterator[CHText]:
        # to be implemented in derived classes
        yield from []
        raise NotImplementedError


class BoundMethodNotes:
    """h_doc-related info about a bound method.

    In case the help is generated for a bound method (f.e. 'h(x.method)')
    the information is taken from two objects:
    1. x.method._h_doc - 'static' HDocItem object, which does not depend
      from the object 'x'
    2. the BoundMethodNotes, which contains information about the 'method'
      in context of the object 'x'

    In order for this functionality to work the 'x' object should have
    implemented a method '_get_hdoc_method_notes'. Like this:

    class ClassX:
        def _get_hdoc_method_notes(self, bound_method, _c):
            assert self is bound_method.__self__
            assert hasattr(bound_method, '_h_doc')
            ...
            return BoundMethodNotes(...)
    """

    __slots__ = 'is_available', 'note_short', 'note_line'

    def __init__(self, is_available, note_short, note_line):
        """Create notes for method in context of object (bound method).

        Arguments:
        - is_available: False if it does not make sence to call the bound method
        - note_short:  CHText to be included into h-doc of the bound method.
                       F.e.: "n/a"
        - note_line:  SHtext to be included into h-doc of the bound method. F.e.:
                      "! requires token access, not basic auth !"
        """
        for arg, name in [(note_short, 'note_short'), (note_line, 'note_line')]:
            assert isinstance(arg, (str, CHText)), (
                f"'{name}' argument has unexpected type {type(arg)}. "
                f"Either CHText or str is expected")
        if isinstance(note_short, str):
            note_short = CHText(note_short)

        self.is_available = is_available
        self.note_short = note_short
        self.note_line = note_line


class _ParsedDocStr:
    # Parse doc string which is expected to be in the following form:
    #
    # """Short description
    #
    # Detailed description which
    # can take several lines.
    #
    # #tag1 #tag2 #more_tags
    # """
    __slots__ = (
        'short_descr',  # first line of doc string
        'body_lines',  # body of doc string w/o first line and lines with tags
        'tags',  # list of all tags
    )

    def __init__(self, doc_string):
        # procede with doc string
        if doc_string is None:
            # doc string was not specified, but do not fail
            doc_string = ""
        lines = doc_string.split('\n')
        # remove first and last empty lines
        if lines and not lines[0].strip():
            lines.pop(0)
        if lines and not lines[-1].strip():
            lines.pop()

        # doc strings are aligned with corresponding functions
        # so usually each line starts with several space characters.
        # Remove these characters.
        n_spaces = [
            self._get_n_lead_spaces(line)
            for line in lines
        ]
        min_lead_spaces = min(
            (n for n in n_spaces if n),
            default = 0
        )
        if min_lead_spaces:
            lines = [
                line[min_lead_spaces:] if n_lead_spaces >= min_lead_spaces else line
                for line, n_lead_spaces in zip(lines, n_spaces)
            ]

        # short_descr and following blank line
        if lines:
            self.short_descr = lines.pop(0)
            if lines and not lines[0]:
                lines.pop(0)
        else:
            self.short_descr = "-??-"

        # last lines starting with '#' contain hashtags
        hashtag_lines = []
        while lines and lines[-1].startswith('#'):
            hashtag_lines.append(lines.pop())
        self.tags = list(self._parse_tags(hashtag_lines))

        # body lines - all the remaining lines. Except trailing empty lines.
        while lines and not lines[-1]:
            lines.pop()
        self.body_lines = lines

    @staticmethod
    def _parse_tags(hashtag_lines):
        # docstring parser helper
        # ["#tag22", "#tag1 #tag2"] -> 'tag1', 'tag2', 'tag22'
        for line in reversed(hashtag_lines):
            for chunk in line.split():
                assert chunk.startswith('#'), (
                    f"hashtag should start with '#': {chunk}")
                yield chunk[1:]

    @staticmethod
    def _get_n_lead_spaces(line):
        # docstring parser helper
        # calculate number of leading spaces in string
        num_spaces = 0
        for ch in line:
            if ch == ' ':
                num_spaces += 1
            else:
                break
        return num_spaces


class HDocItemFunc(HDocItem):
    """Data for h-doc of a function or a method of class."""
    __slots__ = (
        'name',
        'hidden',  # do not include this method in class help text
        'arg_names',  # [arg_name, ]
        'short_descr',  # first line of doc string
        'body_lines',  # body of doc string w/o first line and lines with tags
        'main_tag',  # the first tag (or 'misc' if no tags present)
        'tags',  # list of all tags
    )

    def __init__(self, func, func_name, doc_string, hidden=False):
        """HDocItemFunc - 'h' metadata about a single function/method.

        Arguments:
        - func: the function to generate the HelpItem for
        - func_name: name of this function
        - doc_string: doc string specified for this function.
        """
        self.name = func_name
        self.hidden = hidden

        # inspect function signature
        f_signature = inspect.signature(func)
        self.arg_names = [
            str(inspected_arg)
            for name, inspected_arg in f_signature.parameters.items()
            if name != 'self']

        ds = _ParsedDocStr(doc_string)

        self.short_descr = ds.short_descr
        self.body_lines = ds.body_lines
        self.tags = ds.tags
        self.main_tag = self.tags[0] if self.tags else "misc"

    def _gen_help_oneline(
        self, obj, _filt, _c, _dets_level, _bm_notes=None,
    ) -> Iterator[CHText]:
        # generate one-line function description

        bm_notes = _bm_notes or self._get_bound_method_notes(obj, _c)

        args_descr = ", ".join(self.arg_names)
        yield CHText(
            _c.func_name(self.name),
            _c.text(f"({args_descr}) "),
            bm_notes.note_short,
            f" {self.short_descr}",
        )

    def _gen_help_text(
        self, obj, _filt, _c, _dets_level, _bm_notes=None,
    ) -> Iterator[CHText]:
        # generate detailed function description

        bm_notes = _bm_notes or self._get_bound_method_notes(obj, _c)

        yield from self._gen_help_oneline(
            obj, _filt, _c, _dets_level, bm_notes)

        if bm_notes.note_line:
            yield CHText("    ", bm_notes.note_line)

        for line in self.body_lines:
            yield CHText(f"    {line}")

        def _gen_tags():
            yield self.main_tag
            for tag in self.tags:
                if tag != self.main_tag:
                    yield tag

        sh_text_chunks = [_c.text("   ")]
        ct_chunk_space_hash_symbol = _c.text(" #")
        for tag in _gen_tags():
            sh_text_chunks.append(ct_chunk_space_hash_symbol)
            sh_text_chunks.append(_c.tag(tag))

        yield CHText.make(sh_text_chunks)

    def _get_bound_method_notes(self, obj, _c) -> BoundMethodNotes:
        # get the BoundMethodNotes in case the h-doc is being generated
        # for bound method
        try:
            # detect situation when h-doc is generated for bound method.
            # In this case obj is obj_of_class.some_method, and we will
            # try to call obj_of_class._get_hdoc_method_notes
            notes_method = obj.__self__._get_hdoc_method_notes
        except AttributeError:
            return BoundMethodNotes(True, "", "")

        # if we got here the 'obj' corresponds to bound method
        return notes_method(obj, _c)


class HDocItemCls(HDocItem):
    """Data for h-doc of class."""

    __slots__ = (
        'name',
        'hidden',  # reserved, used in HDocItemFunc only
        'h_items_by_name',
        'h_items_by_tag',  # {tag: [h_items having this main_tag]}
        'short_descr',  # short description from doc_string
        'body_doc',  # body of the doc string
    )

    def __init__(self, obj_class, explicit_only=False):
        """Create h-doc for a class.

        If 'explicit_only' is false, h-docs will be automatically
        generated for methods defind in the class.
        """
        self.name = obj_class.__name__
        self.hidden = False

        ds = _ParsedDocStr(getattr(obj_class, '__doc__', ""))
        self.short_descr = ds.short_descr
        self.body_doc = ds.body_lines

        # collect method's h-items from base classes
        self.h_items_by_name = {}

        try:
            base_classes = obj_class.mro()
        except Exception:
            base_classes = []

        for bc in reversed(base_classes):
            try:
                base_h_items = bc._h_doc.h_items_by_name
            except AttributeError:
                base_h_items = {}

            for name, h_item in base_h_items.items():
                self.h_items_by_name[name] = h_item

        # process h-items of methods defined in current class
        for h_item in self._generate_hitems_for_methods(obj_class, explicit_only):
            if 'no_hdoc' not in h_item.tags:
                self.h_items_by_name[h_item.name] = h_item

        self.h_items_by_tag = {}  # {main_tag: [h_item, ]}
        for h_item in self.h_items_by_name.values():
            self.h_items_by_tag.setdefault(h_item.main_tag, []).append(h_item)
        for h_items in self.h_items_by_tag.values():
            h_items.sort(key=lambda x: x.name)

    @staticmethod
    def _generate_hitems_for_methods(obj_class, explicit_only):
        # create h_items for methods of obj_class

        assert hasattr(obj_class, '__dict__'), (
            "Expected some class. Arg is: " + str(
                type(obj_class)) + " " + str(obj_class)
        )

        # detect if base class already has h-docs (that must be inherited
        # from parent class)
        try:
            parent_class_h_items = obj_class._h_doc.h_items_by_tag
        except AttributeError:
            parent_class_h_items = {}

        h_items_by_name = {
            h_item.name: h_item
            for h_items in parent_class_h_items.values()
            for h_item in h_items
        }

        # process methods defined in current class
        for attr_name, attr_value in obj_class.__dict__.items():
            if hasattr(attr_value, '_h_doc'):
                # h-doc was already prepared (with explicit decorator)
                h_item = attr_value._h_doc
                if attr_name != h_item.name:
                    # this can happen if methods defined in class are renamed
                    # (f.e. by meta-class magic).
                    # In any case, help for this class should report
                    # this method with a name it can be accessed by, that is
                    # by current attr_name
                    h_item.name = attr_name
                h_items_by_name[h_item.name] = h_item
                continue
            if explicit_only:
                continue
            if attr_name.startswith('_'):
                continue
            doc_str = getattr(attr_value, '__doc__', None)
            if doc_str and callable(attr_value):
                h_item = HDocItemFunc(attr_value, attr_name, doc_str)
                attr_value._h_doc = h_item
                h_items_by_name[h_item.name] = h_item

        for h_item in h_items_by_name.values():
            yield h_item

    def _gen_help_oneline(
        self, obj, _filt, _c, _dets_level, _bm_notes=None,
    ) -> Iterator[CHText]:
        # generate one-line class or object description
        assert _bm_notes is None, (
            "'_bm_notes' are applicable for bound methods, but this mehod "
            "generates h-doc for class or object of class")

        obj_indicator = "" if inspect.isclass(obj) else "Object of "

        yield CHText(f"{obj_indicator}{self.name}  {self.short_descr}")

    def _gen_help_text(
        self, obj, _filt, _c, dets_level, _bm_notes=None,
    ) -> Iterator[CHText]:
        # generate detailed class (or object) description
        #
        # In case "h(x.method)" was called, of this method will be:
        # self - ClassOfX._h_doc
        # obj - x.method

        assert _bm_notes is None, (
            "'_bm_notes' are applicable for bound methods, but this mehod "
            "generates h-doc for class or object of class")

        yield from self._gen_help_oneline(obj, _filt, _c, dets_level)

        # generate description of attributes
        if hasattr(obj, '_HDOC_ATTRS'):
            is_class = inspect.isclass(obj)
            attrs_hdocs = []  # [(attr_name, CHText), ]
            for attr_name, attr_descr in obj._HDOC_ATTRS:
                include_attr = True
                attr_is_available = True
                if not is_class:
                    if getattr(obj, attr_name, None) is None:
                        include_attr = dets_level >= HCommand._LEVEL_HH
                        attr_is_available = False
                if include_attr:
                    if not attr_is_available:
                        attr_descr = CHText(
                            _c.warn("<n/a>"),
                            " ",
                            attr_descr)
                    attrs_hdocs.append((attr_name, attr_descr))
            if attrs_hdocs:
                yield CHText("Attributes:")
                max_name_len = max(len(attr_name) for attr_name, _ in attrs_hdocs)
                max_name_len = max(max_name_len, 5)
                for attr_name, attr_descr in attrs_hdocs:
                    yield CHText(
                        "  ",
                        _c.attr(f"{attr_name:{max_name_len}}"),
                        " - ",
                        attr_descr)

        # check if report methods defined in class, but n/a in the obj.
        # F.e. the method requires some authorization not provided
        # by the obj - technically you can call the obj.method, but
        # will get an error.
        report_na_methods = dets_level >= HCommand._LEVEL_HH

        # generate descriptions of methods
        for tag, h_items in self.h_items_by_tag.items():
            tag_line_reported = False
            for h_item in h_items:
                if h_item.hidden:
                    continue
                # in case we generate h-doc not for a class but for an
                # object of class, the methods are actually bound methods and
                # additional information (bm_notes) may be available.
                bm_notes = self._get_bound_method_notes(obj, h_item, _c)
                if not bm_notes.is_available and not report_na_methods:
                    continue

                if not tag_line_reported:
                    yield CHText("#", _c.tag(tag))
                    tag_line_reported = True

                for method_help_line in h_item._gen_help_oneline(
                    obj, _filt, _c, dets_level, bm_notes,
                ):
                    yield CHText("  ", method_help_line)

    def _get_bound_method_notes(self, obj, h_item, _c) -> BoundMethodNotes:
        # get the BoundMethodNotes for methods defined in the class if
        # h-doc is being generated not for a class, but for an object of
        # class.
        #
        # If we got here the 'obj' may be either a class or an object
        try:
            # check that obj._get_hdoc_method_notes is a bound method
            # (that would mean that 'obj' is not a class, but an object of
            # class, and BoundMethodNotes may be available for other h-items)
            obj_self = obj._get_hdoc_method_notes.__self__
        except AttributeError:
            obj_self = None

        if obj_self:
            # if we get here the 'obj' is an object of class
            attr = getattr(obj, h_item.name, None)
            assert attr is not None, (
                f"Object '{obj}' of type '{type(obj)}' has no attr '{h_item.name}'"
            )

            if callable(attr) and hasattr(attr, '__self__'):
                # attr is bound method. BoundMethodNotes can be created for it.
                return obj_self._get_hdoc_method_notes(attr, _c)

        return BoundMethodNotes(True, "", "")


def h_doc(obj=None, *, explicit_only=False, hidden=False):
    """Decorator which creates h_doc data for a class or function.

    If is not necessary to use this decorator for each method of a class,
    it's enough to decorate class itself.

    Arguments:
    - explicit_only: do not automatically create h-docs for methods defined in
    class. Applicable only when decorating classes.
    - hidden: mark h-doc generated for a method as 'hidden' - information about
    this method will not be included into help text generated for a class or
    object of class. Applicable only when decorating functions/methods.
    """
    if obj is not None:
        # decorator was used w/o parameters. The obj is actually an object
        # to be decorated
        dec = h_doc(explicit_only=explicit_only, hidden=hidden)
        return dec(obj)

    def decorator(xobj):
        if isinstance(xobj, type):
            assert hidden is False, (
                f"'hidden' parameter is not applicable for decorating "
                f"object of type {type(xobj)}.")
            xobj._h_doc = HDocItemCls(xobj, explicit_only)
        else:
            assert explicit_only is False, (
                f"'explicit_only' parameter is not applicable for decorating "
                f"object of type {type(xobj)}.")
            xobj._h_doc = HDocItemFunc(
                xobj, xobj.__name__, xobj.__doc__, hidden)

        return xobj

    return decorator
