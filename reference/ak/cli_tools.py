"""Collection of tools commonly used in cli applications.

Minimal usage example:

    parser = cli_tools.ArgParser(
        description="common tool description",
        commands=[
            ('!opts_set1', 'some options to be used in other parsers'),
            ('cmd1', 'help cmd 1'),
            ('cmd2:cmd1,opts_set1', ('descr cmd2 argument', 'cmd2 description')),
        ])

    # common arg for all commands
    parser.add_argument('-s', '--src-dir', help="arg descr")

    pars_cmd1 = parser.get_cmd_parser('cmd1')
    pars_cmd1.add_argument('-f', '--force', action='store_true', help="..")
    pars_cmd1.add_argument('items', nargs='*', help="..")

    args = parser.parse_args()
    cli_tools.std_app_configure(
        args, syntax_amends={
            'TABLE': {'BORDER': 'CYAN:bold'},
        }
    )  # configures colors and logging
"""

import sys
import contextlib
from pathlib import Path
import argparse

from .color import ColorsConfig, set_global_colors_config
from .logtools import logs_configure
from . import utils


Timer = utils.Timer

class AkArgumentParser(argparse.ArgumentParser):
    """ArgumentParser with some additional functionality.

    Using AkArgumentParser makes it possible to organize parsers into directed
    graph.

    When argument is added to AkArgumentParser the same argument is added to
    all the dependent parsers.
    """
    __slots__ = ('_dependent_parsers', )

    def __init__(self, *args, **kwargs):
        super().__init__(*args, **kwargs)
        self._dependent_parsers = {}

    def register_dependent(self, name, parser):
        """Register dependent parser"""
        assert name not in self._dependent_parsers
        self._dependent_parsers[name] = parser

    def add_argument(self, *args, **kwargs):
        propagate = kwargs.pop('_propagate', True)
        if propagate:
            for dependent_parser in self._dependent_parsers.values():
                dependent_parser.add_argument(*args, _propagate=False, **kwargs)
        super().add_argument(*args, **kwargs)


class ArgParser:
    """Argument parser with support of multiple subparsers for different commands.

    Common options '-v' and '--color' are present by default.
    """

    def __init__(
            self, commands=None, default_command=None, *,
            _no_log=False, _no_log_file=False, _help_if_no_args=False,
            **kwargs):
        """Create ArgParser.

        Arguments:
        - commands: optional list of sub-command descriptions. If specified, the
            parser will work in 'multi-command' mode: first argument must be a
            command name and subsequent arguments are arguments for this command.
            Each command has own arguments structure (like git has commands 'add',
            'commit', 'log', etc.). Example:
            [
              ('command_1', 'help_text'),
              ('command_2', ('help_text', 'description)),
            ]
        - default_command: if specified, it must be one of 'commands'. By default
            the first command is the default.
        - _no_log: do not display '-v' option
        - _no_log_file: does not affect arguments procesing, but in case it is
            specified, adds '_no_log_file' attribute to the result 'args'.
            (So, it behaves like a hidden argument. It's value is used
            by ak.cli_tools.std_app_configure function.)
        - _help_if_no_args: (dafault False) - indicates if help message should
            be printed if args list is empty.
        - kwargs: standard kwargs for argparse.ArgumentParser
        """
        if commands is None:
            assert default_command is None, (
                "'default_command' argument is specified, but 'commands' is not")

        if 'formatter_class' not in kwargs:
            # w/o this multi-line epilog in help text looks ugly
            kwargs['formatter_class'] = argparse.RawTextHelpFormatter

        self.parser = argparse.ArgumentParser(**kwargs)
        self._no_log = _no_log
        self._no_log_file = _no_log_file
        self._help_if_no_args = _help_if_no_args

        if commands is None:
            self.command_parsers = None
            self.common_options = None
            self.default_command = None
            self._mk_std_args(self.parser)
        else:
            self._init_multicmd_parser(commands, default_command)

    def parse_args(self, args=None, namespace=None):
        """Parse arguments.

        Arguments of this method are the same as in standard ArgumentParser.
        """
        if args is None:
            args = sys.argv[1:]

        if not args and self._help_if_no_args:
            print("appending help option")
            args.append("--help")

        if self.command_parsers is not None:
            # this is a multi-command parser
            # some black magic is required to detect default command
            first_arg = args[0] if args else None
            if all(
                first_arg not in choices
                for choices in [['-h', '--help'], self.command_parsers]
            ):
                args.insert(0, self.default_command)

        args = self.parser.parse_args(args, namespace)
        if self._no_log_file:
            args._no_log_file = True

        if args.no_color:
            args.color = False
        del args.no_color

        return args

    def _mk_std_args(self, parser):
        # add 'standard' arguments to a specified parser
        if not self._no_log:
            parser.add_argument(
                "-v", "--verbose", default=0, action="count",
                help="increase log verbocity (3 levels)")

        color_grp = parser.add_mutually_exclusive_group()

        color_grp.add_argument(
            "--color", default='auto', nargs="?",
            choices=["auto", "always", "yes", "1", "never", "no", "0"],
            help=(
                "when show colored output. "
                "'--color' is the same as '--color=always'. "
                "Default value is 'auto'.")
        )

        color_grp.add_argument(
            "--no-color", action='store_true',
            help="the same as '--color=never'. Overrides '--color' option"
        )

    def _init_multicmd_parser(self, commands, default_command):
        # configure self.parser to process arguments for different commands
        # (like git has different commands ('commit', 'log', 'push', etc.) and
        # these commands have different arguments)

        assert commands

        # parent for all other parsers, contains common options
        self.common_options = argparse.ArgumentParser(
            # add_help=False,
            description="Common options")
        self._mk_std_args(self.common_options)

        commands_names = []  # names of commands
        self.command_parsers = {}  # {parser_name: parser}

        subparsers = self.parser.add_subparsers(
            parser_class=AkArgumentParser,
            dest='command', help="Available commands")

        for command, cmd_attrs in commands:
            if isinstance(cmd_attrs, str):
                help_text = cmd_attrs
                descr = None
            else:
                help_text, descr = cmd_attrs

            # command may look like "!cmd:parent,parent1"
            chunks = command.split(':', maxsplit=1)
            if len(chunks) == 2:
                command, parents = chunks
            else:
                parents = ""

            is_internal = command.startswith('!')
            if is_internal:
                command = command[1:]

            parser_name = command
            assert parser_name

            parents = {
                pp
                for p in parents.split(',') if (pp := p.strip())
            }

            assert parser_name not in self.command_parsers, (
                f"duble declaration of subparser '{parser_name}'")

            for p in parents:
                assert p in self.command_parsers, (
                    f"unknown parent parser '{p}' specified for '{parser_name}'")

            if is_internal:
                cmd_parser = AkArgumentParser(
                    parents=[self.common_options, ],
                    add_help=False,
                    description=descr or help_text)
            else:
                cmd_parser = subparsers.add_parser(
                    parser_name,
                    parents=[self.common_options, ],
                    add_help=False,
                    help=help_text, description=descr)
                commands_names.append(parser_name)

            # register newly created cmd_parser in parents...
            for p in parents:
                parent_parser = self.command_parsers[p]
                if parser_name not in parent_parser._dependent_parsers:
                    parent_parser.register_dependent(parser_name, cmd_parser)
                # ... and all ascendants
                for parser in self.command_parsers.values():
                    if (p in parser._dependent_parsers
                            and parser_name not in parser._dependent_parsers):
                        parser.register_dependent(parser_name, cmd_parser)

            self.command_parsers[parser_name] = cmd_parser

        if default_command is None and commands_names:
            default_command = commands_names[0]
        self.default_command = default_command

    def add_argument(self, *args, **kwargs):
        """Declare argument.

        Same syntax as in stadard ArgumentParser.

        In case of multi-command parser adds the argument to all commands.
        """
        if self.command_parsers is None:
            # self is usual one-command parser
            self.parser.add_argument(*args, **kwargs)
        else:
            for cmd_parser in self.command_parsers.values():
                cmd_parser.add_argument(*args, _propagate=False, **kwargs)

    def get_cmd_parser(self, command_name):
        """Get parser corresponding to a command."""
        assert self.command_parsers is not None, (
            "method not applicable for this is a single-command argparser")
        try:
            return self.command_parsers[command_name]
        except KeyError:
            avail_commands = ", ".join(sorted(self.command_parsers.keys()))
            raise ValueError(
                f"Command '{command_name}' is not configured. "
                f"Configured commands: {avail_commands}")


def std_app_configure(
        args, *,
        global_colors_config_class=None,
        syntax_amends=None,
):
    """Perform standard configuration of script

    Arguments:
    - args: parsed command-line arguments; expected args in a format produced
        by ak.cli_tools.ArgParser.
    - global_colors_config_class: optional ak.color.ColorsConfig-derived class,
        to be used if not a standard colors config is used
    - syntax_amends: optional dictionary of amendments to colors
        config implemented in global colors config, or list of such dictionaries.

    Method adds 'color_stdout' boolean attribute to args: rest of script should use
    this value to decide if colored text should be produced.
    """
    # 1. process 'use colors' options
    if not args.color or args.color.lower() in ('never', 'no', '0'):
        color_stdout = False
    elif args.color.lower() in ('always', 'yes', '1'):
        color_stdout = True
    else:
        color_stdout = sys.stdout.isatty()

    args.color_stdout = color_stdout

    # 2. configure global colors config
    conf_class = global_colors_config_class or ColorsConfig

    syntax_amends = syntax_amends or []
    if isinstance(syntax_amends, dict):
        syntax_amends = [syntax_amends, ]

    global_colors_conf = conf_class(*syntax_amends, no_color=not args.color_stdout)
    set_global_colors_config(global_colors_conf)

    # 3. configure logging
    if getattr(args, '_no_log', False):
        # all logs explicitely turned off
        return

    if getattr(args, '_no_log_file', False):
        # no log file
        log_filename = None
    else:
        # autodetect log file name
        script_name = sys.argv[0]
        log_filename = Path(script_name).stem  # script name w/o extention
        if not log_filename.startswith("."):
            log_filename = "." + log_filename
        log_filename += ".log"

    verbocity = getattr(args, 'verbose', 0)

    logs_configure(verbocity, filename=log_filename, use_colors=color_stdout)


@contextlib.contextmanager
def file_or_stdout(filename, mode="w"):
    """Yields either an open file or stdout object.

    Is a context manager - if necessary closes the file after use.

    Arguments:
    - filename: name of the file to open or None (to use stdout)
    - mode: either "w" or "wb" (it will be possible to write either text or bytes to
        returned object)
    """
    assert mode in ["w", "wb"]
    if filename is None:
        f = sys.stdout if mode == "w" else sys.stdout.buffer
    else:
        f = open(filename, mode, encoding="utf-8")

    try:
        yield f
    finally:
        if filename is not None:
            f.close()
