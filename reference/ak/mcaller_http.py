"""Tools for creation of "methods caller" objects for http calls."""

from ak import conn_http
from ak.color import CHText
from ak.hdoc import BoundMethodNotes
from ak.mcaller import MCaller


class MCallerMetaHttpMethod:
    """Properties of MethodsCaller method, which wraps http call.

    Created by 'method_http' decorator.
    """

    # name of the method, which will prepare BoundMethodNotes for
    # methods decorated with this decorator
    _MAKE_BM_NOTES_METHOD = '_make_bm_notes_http'

    __slots__ = 'auth_types', 'components'

    def __init__(self, auth_types, components=None):
        if auth_types is None or isinstance(auth_types, str):
            self.auth_types = [auth_types, ]
        else:
            self.auth_types = auth_types
        self.components = components
        if isinstance(self.components, str):
            self.components = [self.components]


def method_http(auth_types, components=None):
    """decorator to mark method of MCallerHttp as a 'wrapper' around http request.

    Arguments:
    - auth_types: expected auth type of the http connection (*). May be one of
        the following values or a collection of them:
        - None: method can be called via connection with no authentication
        - 'basic': can be called via basic-auth connection
        - 'client': can be called via client-auth connection
        - 'token': can be called via token-auth connection
        (See ak.conn_http.RequestAdapter-derived classes for more details)
    - components: names of the external components (**)

    Notes (*)(**):
      The MCallerHttp object owns a connection (HttpConn). This connection
    may be authorized (f.e. the requests sent through it will have basic
    authorization with credentials of mr. Root).
      Decorated method should get the connetion object using self.get_conn().
    and use it as is (w/o changing authorization).
      The connection returned by self.get_conn() depends on the method's components.
    MCallerHttp will check if it can provide connection to one of the components
    expected by the method. Depending on chosen component some prefix may be added
    to request path.
      If auth type of connetion does not match method's 'auth_types' a warning
    will be issued, (but it is still possible to call methods with 'incorrect'
    authorization - f.e. for test purposes).
    """

    if callable(auth_types) and components is None:
        # decorator was used w/o parameters. auth_types is actually a
        # method to decorate
        method = auth_types
        dec = method_http(None, None)
        return dec(method)

    def decorator(method):
        method._mcaller_meta = MCallerMetaHttpMethod(auth_types, components)
        return method

    return decorator


class MCallerHttp(MCaller):
    """Base class for "http method callers".

    Base for classes, whose methods are python wrappers of http calls.

    Derived class should look like:
    class MyCaller(MCallerHttp):
        _HTTP_PREFIX_MAP = {
            'componentA': "/path/prefix/for/componentA",
        }

        @method_http('basic', 'componentA')
        def get_example(self):
            conn = self.get_conn()
            return conn.post("path/for/this/method", data=some_data)
    """
    _HTTP_PREFIX_MAP = {}  # {component: http_prefix}

    __slots__ = 'http_conn', '_mc_conns_by_prefix'

    def __init__(self, address):
        """Create MCallerHttp object.

        Arguments:
        - address: http address or the conn_http.HttpConn object
        """
        if isinstance(address, conn_http.HttpConn):
            self.http_conn = address
        else:
            self.http_conn = conn_http.HttpConn(address)

        self._mc_conns_by_prefix = {}

    def clone(self, http_conn_adapters=None):
        """Create a new MCallerHttp with a same method but modified connection.

        F.e. we have a method caller which sends unauthorized http requests,
        and we want to create a new caller, which would send requests with
        basic authorization using John's credentials.

        Argument:
        - http_conn_adapters: list of conn_http.RequestAdapter objects (or
        a single such object)
        """
        if http_conn_adapters is None:
            http_conn_adapters = []
        elif not isinstance(http_conn_adapters, (list, tuple)):
            # it's a single adapter
            http_conn_adapters = [http_conn_adapters]

        cloned_http_conn = conn_http.HttpConn(
            self.http_conn, adapters=http_conn_adapters)
        return type(self)(cloned_http_conn)

    def get_conn(self):
        """returns HttpConn to be used in currnt http wrapper method.

        Returned HttpConn depends on 'method_http' metadata of caller.
        So this method uses some 'inspect' magic to find this metadata.
        """
        # pylint: disable=no-member
        method_meta = self.get_mcaller_meta()  # 'inspect' magic is in there

        assert isinstance(method_meta, MCallerMetaHttpMethod), (
            "Method 'get_conn' can only be called from HttpConn wrappers"
        )

        base_conn = self.http_conn

        if method_meta.components is not None:
            matching_components = [
                c for c in method_meta.components if c in self._HTTP_PREFIX_MAP]
            assert len(matching_components) == 1, (
                f"http method expects connection to one of the following "
                f"components: {method_meta.components}. "
                f"Class {type(self)} has configured http prefixes for "
                f"components : {self._HTTP_PREFIX_MAP}."
                f"Expected to have exactly one match; actual matching "
                f"componets: {matching_components}")
            component = matching_components[0]
            prefix = self._HTTP_PREFIX_MAP[component]
            conns_by_prefix = self._mc_conns_by_prefix
            if prefix in conns_by_prefix:
                conn = conns_by_prefix[prefix]
            else:
                if prefix:
                    adapter = conn_http.RequestAdapterAddPathPrefix(prefix)
                    conn = conn_http.HttpConn(base_conn, adapters=adapter)
                else:
                    conn = base_conn
                conns_by_prefix[prefix] = conn
        else:
            conn = base_conn

        return conn

    def _make_bm_notes_http(self, bound_method, _c) -> BoundMethodNotes:
        # create BoundMethodNotes for bound http method (method
        # decorated with 'method_http')
        assert hasattr(bound_method, '_mcaller_meta')
        method_meta = bound_method._mcaller_meta
        for attr in ['auth_types', 'components']:
            # '_make_bm_notes_http' must have been specified in method_meta,
            # so method_meta must have these attributes
            assert hasattr(method_meta, attr)

        if not hasattr(self, 'http_conn'):
            return BoundMethodNotes(
                False,
                CHText(_c.warn('<n/a>')),
                "object has no 'http_conn' attribute")

        auth_ok = self.http_conn.auth_type in method_meta.auth_types
        auth_descr = (
            f"wrong connection auth type "
            f"('{self.http_conn.auth_type}' not in '{method_meta.auth_types}')")

        component_ok = True
        component_problem_descr = ""
        if method_meta.components is not None:
            matching_components = [
                c for c in method_meta.components if c in self._HTTP_PREFIX_MAP]
            if not matching_components:
                component_ok = False
                component_problem_descr = (
                    f"object has no http connection to any of components "
                    f"'{method_meta.components}'")
            elif len(matching_components) > 1:
                component_ok = False
                component_problem_descr = (
                    f"ambiguous components {matching_components}")

        method_available = auth_ok and component_ok
        note_short = ""
        note_line = ""
        if not method_available:
            note_short = CHText(_c.warn('<n/a>'))
            note_line = "; ".join(
                s for s in [auth_descr, component_problem_descr] if s)

        return BoundMethodNotes(method_available, note_short, note_line)
