"""Method for creation of interactive python consoles.

The created console has specified local objects and 'h', 'hh', 'll', 'pp' commands:
- h: somewhat more advanced help command (generates more detailed descriptions for
  ubjects created with hdoc.h_doc decorator)
- hh: more verbose version of 'h'
- ll: summary of objects in local scope
- pp: pretty-printer
"""

import sys
import code
from . import hdoc
from . import it


def start_interactive_console(
        locals_for_console=None, locals_descr=None, banner=None, exitmsg=None):
    """Start interactive console, make 'h' and 'll' commands available in it."""
    if banner is None:
        banner = f"Python {sys.version} on {sys.platform}\n"
        if locals_descr:
            banner += "Locals:\n"
            for local_name, local_descr in locals_descr:
                banner += f"{local_name:19}<- {local_descr}\n"
        banner += (
            f"Following commands from 'ak' package are available:\n"
            f"ll                 <- list local variables\n"
            f"h(obj)             <- help command\n"
            f"hh(obj)            <- help command - more detailed help\n"
            f"pp(obj)            <- pretty printer for json-like python objects\n"
        )

    if locals_for_console is None:
        locals_for_console = {}

    if 'h' not in locals_for_console:
        locals_for_console['h'] = hdoc.HCommand()

    if 'hh' not in locals_for_console:
        locals_for_console['hh'] = hdoc.HCommand(hdoc.HCommand._LEVEL_HH)

    if 'll' not in locals_for_console:
        locals_for_console['ll'] = hdoc.LLImpl(locals_for_console)

    if 'pp' not in locals_for_console:
        locals_for_console['pp'] = it._PPrintCommand()

    if exitmsg is None:
        exitmsg = "Good bye!"

    code.interact(
        banner=banner, readfunc=None, local=locals_for_console, exitmsg=exitmsg)
