"""Tools for creation of "methods caller" objects.

"methods caller" object is basically a collection of python wrappers for
not-python methods (f.e. http rest methods).

F.e. you have an external system with REST api. To call these REST methods
you may want to create a python object, which keeps connection information,
and has 'wrapper' methods for the API. Tools in this module will help
to create such objects.

Main purpose is to make such methods to be easy to use from interactive
console.

"methods caller" classes are integrated with ak.hdoc
"""

import inspect
import logging
from functools import wraps
from ak.color import CHText
from ak.ppobj import PPWrap
from ak.hdoc import h_doc, BoundMethodNotes


logger = logging.getLogger(__name__)


class _Meta_MethodsCaller(type):
    """meta-class for "methods caller" classes.

    Decorates specified methods during creation of "methods caller" class.
    'Specified' (or 'wrapper') methods are methods having having '_mcaller_meta'
    attribute (contents of this attribute depends of method type and should
    be set by some decorator)
    """

    def __new__(meta, classname, supers, classdict):
        new_methods = {}

        # '_MCALLERS_METAS' of this class will include '_MCALLERS_METAS' from
        # parent classes, let's collect them
        assert '_MCALLERS_METAS' not in classdict, (
            f"Error processing '{classname}' calss:"
            f"'_MCALLERS_METAS' attribute should not be defined explicitely"
        )
        mcallers_metas = {
            orig_method_name: meta_obj
            for parent_class in reversed(supers)
            for orig_method_name, meta_obj in getattr(
                parent_class, '_MCALLERS_METAS', {}).items()
        }

        for name, value in classdict.items():
            mcaller_meta = getattr(value, '_mcaller_meta', False)
            if not mcaller_meta:
                continue

            mcallers_metas[name] = mcaller_meta
            orig_method_body = value
            decorated_method_body = meta._decorate_mcaller_method(
                name, orig_method_body)
            new_methods[name] = h_doc(decorated_method_body)

        classdict.update(new_methods)
        classdict['_MCALLERS_METAS'] = mcallers_metas

        # helper method to get method meta from inside the method
        # It will be included into the new class
        def get_mcaller_meta(self):
            """Get _mcaller_meta from inside decorated method.

            Example of usage:
                @some_mcaller_decorator(properties)  # creates _mcaller_meta
                def call_some_api_method(self, arguments):
                    m = self.get_mcaller_meta()  # returns the _mcaller_meta
                                                  # created by decorator
            """
            if not hasattr(self, '_MCALLERS_METAS'):
                return None

            # in order to find out what method to get info for some
            # inspect-magic is required
            cur_frame = inspect.currentframe().f_back
            while cur_frame is not None:
                cur_frame_name = cur_frame.f_code.co_name
                if cur_frame_name in self._MCALLERS_METAS:
                    return self._MCALLERS_METAS[cur_frame_name]
                cur_frame = cur_frame.f_back

            # metadata was not found. This means that there is no 'wrapper'
            # mehod in the current call stack. There is no _mcaller_meta
            # to return.
            raise ValueError(
                "No 'methods caller' metadata found. 'get_mcaller_meta' "
                "should be called from inside 'method wrapper' methods only."
            )

        classdict['get_mcaller_meta'] = get_mcaller_meta

        created_class = super().__new__(meta, classname, supers, classdict)

        # do not require to use @h_doc decorator explicitely
        created_class = h_doc(created_class, explicit_only=True)

        return created_class

    @classmethod
    def _decorate_mcaller_method(cls, method_name, orig_method_body):
        # mcaller methods automatically log calls. Implement this

        @wraps(orig_method_body)
        def decorated_method_body(*args, **kwargs):
            logger.info(f"++ {method_name}()")
            result = orig_method_body(*args, **kwargs)
            logger.info(f"-- {method_name}()")
            return result

        return decorated_method_body


# !!!! rename! 
class PPMethod(PPWrap):
    """Pretty-printable object with custom pprint method.

    The _pprint method may be either a usual method or generator,
    which generates lines of pretty text.
    """
    def __init__(self, obj_to_print, pp_method):
        self.r = obj_to_print
        self.pp_method = pp_method

    def __str__(self):
        if inspect.isgeneratorfunction(self.pp_method):
            return str(
                CHText("\n").join(self.pp_method(self.r)))
        else:
            return str(self.pp_method(self.r))


class MCallerMetaGeneral:
    """Properties of MethodCaller method.

    Created by 'method_attrs' decorator. Check this decorator for more details.
    """

    # name of the method, which will prepare BoundMethodNotes for
    # methods decorated with this decorator
    _MAKE_BM_NOTES_METHOD = '_make_bm_notes_general'

    __slots__ = 'pprinter', 'components', 'properties'

    def __init__(self, components, properties):
        self.components = components
        self.properties = properties


def method_attrs(*components, **kwargs):
    """Decorator to specify metadata for managed methods of MCaller.

    This decorator is quite generic: it allowes you to specify list of
    'components' required by a method, and a dictionary of any other
    attributes.

    List of required components will be used to check bound method availability.

    'pprint' is a special kwarg: if it is specified, it should be a custom
    pretty-printer, which will be used to print the results of the decorated
    method.
    """
    def decorator(method):
        method._mcaller_meta = MCallerMetaGeneral(components, kwargs)
        return method

    return decorator


class MCaller(metaclass=_Meta_MethodsCaller):
    """Base class for "method caller's".

    Main purpose is to make such objects of these classes console friendly.
    Methods, tuned to be called from python interactive console (console
    methods) produce pretty-printable results, objects are integrated with
    ak.hdoc help system ('h' command).

    If the 'console' mathod is a simple wrapper of an http call, inmlement
    this method in a class (mixin) derived from ak.mcaller_http.MCallerHttp,
    and then derive you class from that mixin. MCallerHttp implements
    implements functionality, which makes creation of http wrappers easier.
    Other such classes exist for wrappers of other types.
    """

    def _get_hdoc_method_notes(self, bound_method, _c) -> BoundMethodNotes:
        # generic implementation of the method wich returns BoundMethodNotes
        #
        # The result BoundMethodNotes depends on the type of the method.
        # Here try to find out type of the method, find corresponding method
        # which would create BoundMethodNotes, and call this corresponding
        # method.
        assert self is bound_method.__self__
        assert hasattr(bound_method, '_h_doc')

        if not hasattr(bound_method, '_mcaller_meta'):
            # looks like it's a 'usual' method
            # metatata not available - return default BoundMethodNotes
            return BoundMethodNotes(True, "", None)

        method_meta = bound_method._mcaller_meta

        # creation rules of BoundMethodNotes depend of method type.
        notes_maker_method_name = getattr(method_meta, '_MAKE_BM_NOTES_METHOD', "")
        notes_maker_method = getattr(self, notes_maker_method_name, None)

        if notes_maker_method is None:
            return BoundMethodNotes(True, "", "")

        return notes_maker_method(bound_method, _c)

    def _make_bm_notes_general(self, bound_method, _c) -> BoundMethodNotes:
        # create BoundMethodNotes for 'general' bound methods (methods
        # decorated with 'method_attrs' decorator)
        assert hasattr(bound_method, '_mcaller_meta')
        method_meta = bound_method._mcaller_meta
        assert hasattr(method_meta, 'components')

        available_components = getattr(self, 'available_components', [])
        missing_components = [
            n for n in method_meta.components if n not in available_components]

        if missing_components:
            return BoundMethodNotes(
                False,
                SHText(("WARN", "<n/a>")),  # !!!!  why SHText here and why no test?
                f"object has no access to components {missing_components}")
        else:
            return BoundMethodNotes(True, "", "")
